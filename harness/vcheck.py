#!/venv/bin/python
"""vcheck.py <Cxx> <quick|thorough> [--replay FILE]

One check = (1) the Coq development builds and Props/<Cxx>.v compiles (proof obligations,
Print Assumptions captured), (2) correspondence: the extracted model and the real clikit
(from $CLIKIT_SRC, default /repo/src) are run on the same cases and compared,
(3) the implementation-side oracle of the property is evaluated on the real observations.
Verdict logic: DESIGN.md section 2.3.
"""
import sys, os, json, time, subprocess, tempfile, shutil, random, hashlib, importlib, re, traceback

HERE = os.path.dirname(os.path.abspath(__file__))
ROOT = os.path.dirname(HERE)
COQ = os.path.join(ROOT, "coq")
DRIVER = os.path.join(ROOT, "ocaml", "driver")
SRC = os.environ.get("CLIKIT_SRC", "/repo/src")
PY = "/venv/bin/python"
NPROC = int(os.environ.get("VERIF_JOBS", "12"))
sys.path.insert(0, HERE)

FORBIDDEN = re.compile(
    r"\b(Admitted|admit|Axiom|Axioms|Parameter|Parameters|Conjecture|Conjectures|Admit Obligations|"
    r"Unset Guard Checking|Unset Positivity Checking|Unset Universe Checking|bypass_check|type-in-type|impredicative-set)\b")


# ------------------------------------------------------------------ wire format
_PLAIN_WIRE = re.compile(r"^[0-9() -]*$")
_BRACKETS = str.maketrans("[]", "()")


def to_wire(x):
    """nested lists of integers (strings as lists of code points) as one S-expression.  Fast path: a value json can print with
    nothing but digits, signs, brackets and blanks (lists of ints only) is printed by json; everything else - and whatever
    the fast path is not sure about - goes through the recursive definition below, which is the specification."""
    if isinstance(x, list):
        try:
            s = json.dumps(x, separators=(" ", ":")).translate(_BRACKETS)
        except (TypeError, ValueError):
            s = None
        if s is not None and _PLAIN_WIRE.match(s):
            return s
    return _to_wire(x)


def _to_wire(x):
    if isinstance(x, bool):
        return "1" if x else "0"
    if isinstance(x, int):
        return str(x)
    if isinstance(x, str):
        return "(" + " ".join(str(ord(c)) for c in x) + ")"
    if x is None:
        return "()"
    return "(" + " ".join(_to_wire(y) for y in x) + ")"


def from_wire(s):
    toks = s.replace("(", " ( ").replace(")", " ) ").split()
    pos = 0
    stack = [[]]
    for t in toks:
        if t == "(":
            stack.append([])
        elif t == ")":
            l = stack.pop()
            stack[-1].append(l)
        else:
            stack[-1].append(int(t))
    if len(stack) != 1 or len(stack[0]) != 1:
        raise ValueError("bad sexp: %r" % s[:200])
    return stack[0][0]


def S(s):
    """str -> list of code points"""
    return [ord(c) for c in s]


def unS(l):
    return "".join(chr(c) for c in l)


# ------------------------------------------------------------------ build / proofs
def sh(cmd, timeout, cwd=None, env=None):
    p = subprocess.run(cmd, shell=True, cwd=cwd, env=env, stdout=subprocess.PIPE, stderr=subprocess.STDOUT,
                       timeout=timeout, text=True)
    return p.returncode, p.stdout


def build(log):
    """Incremental full .vo build + driver build, serialised by a lock."""
    cmd = "flock %s/.lock %s/bin/setup" % (COQ, ROOT)
    rc, out = sh(cmd, 3000)
    log.append(out[-3000:])
    return rc == 0, out


def scan_forbidden():
    bad = []
    for d, _, fs in os.walk(os.path.join(COQ, "theories")):
        for f in fs:
            if f.endswith(".v"):
                p = os.path.join(d, f)
                txt = open(p).read()
                # strip comments (non-nested is enough for our sources; nested handled by loop)
                prev = None
                while prev != txt:
                    prev = txt
                    txt = re.sub(r"\(\*[^()]*?\*\)", " ", txt, flags=re.S)
                    txt = re.sub(r"\(\*(?:(?!\(\*|\*\)).)*\*\)", " ", txt, flags=re.S)
                for m in FORBIDDEN.finditer(txt):
                    bad.append("%s: %s" % (os.path.relpath(p, COQ), m.group(0)))
    return bad


THEOREM_NAMES = []


def check_props(prop_files):
    """Re-compile the property files to capture Print Assumptions; count theorems."""
    obligations, discharged, assumptions, failures = 0, 0, [], []
    for pf in prop_files:
        path = os.path.join(COQ, "theories", pf)
        txt = open(path).read()
        names = re.findall(r"^\s*(?:Theorem|Corollary)\s+(\w+)", txt, flags=re.M)
        obligations += len(names)
        rc, out = sh("timeout 600 coqc -Q theories Clikit %s" % os.path.join("theories", pf), 700, cwd=COQ)
        printed = set(re.findall(r"^Print Assumptions\s+(\w+)\.", txt, flags=re.M))
        unprinted = [n for n in names if n not in printed]
        if rc == 0 and unprinted:
            # every property theorem must state what it depends on
            failures.append({"file": pf, "theorems": unprinted, "where": "no Print Assumptions line", "output": ""})
        elif rc == 0:
            discharged += len(names)
            THEOREM_NAMES.extend(names)
            chunks = re.split(r"(?=Closed under the global context|Axioms:)", out)
            closed = out.count("Closed under the global context")
            ax = [c.strip() for c in chunks if c.startswith("Axioms:")]
            assumptions.append("%s: %d theorems; Print Assumptions: %d closed under the global context%s" % (
                pf, len(names), closed, ("; " + " | ".join(a.replace("\n", " ") for a in ax)) if ax else ""))
        else:
            m = re.search(r'File "([^"]+)", line (\d+)', out)
            failures.append({"file": pf, "theorems": names, "where": m.group(0) if m else "", "output": out[-1500:]})
    return obligations, discharged, assumptions, failures


# ------------------------------------------------------------------ extraction cross-check and coqchk
def _coq_sexp(x):
    if isinstance(x, int):
        return "A (%d)%%Z" % x
    return "L [" + "; ".join(_coq_sexp(y) for y in x) + "]"


def kernel_crosscheck(model_name, pairs, n, tmp, entry=None):
    """Re-evaluates a sample of the cases INSIDE Coq (vm_compute) and lets the kernel compare with what the extracted
    OCaml driver answered: Example k : run_Cxx input = driver_output. Proof. vm_compute. reflexivity. Qed.
    -> (number checked, error text or None)"""
    if model_name == "C14":
        return 0, None          # run_C14 takes the float share function supplied by ocaml/driver.ml
    small = [(i, o) for i, o in pairs if i != "()" and len(i) + len(o) < 6000]
    step = max(1, len(small) // n)
    sample = small[::step][:n]
    if not sample:
        return 0, None
    imports = re.search(r"From Clikit Require Import ([^.]*(?:\.[A-Za-z][^.]*)*)\.\n", open(os.path.join(COQ, "theories", "Extract", "Extract.v")).read()).group(1)
    lines = ["From Clikit Require Import %s." % imports]
    for k, (i, o) in enumerate(sample):
        lines.append("Example x%d : %s (%s) = (%s).\nProof. vm_compute. reflexivity. Qed." % (k, entry or ("run_" + model_name), _coq_sexp(from_wire(i)), _coq_sexp(from_wire(o))))
    path = os.path.join(tmp, "crosscheck.v")
    with open(path, "w") as f:
        f.write("\n".join(lines) + "\n")
    rc, out = sh("ulimit -s unlimited 2>/dev/null; timeout 900 coqc -Q %s/theories Clikit %s" % (COQ, path), 1000, cwd=tmp)
    return len(sample), (None if rc == 0 else out[-1500:])


def run_coqchk(prop_files):
    """coqchk -o on the property's compiled files: the independent checker re-checks them and everything they depend on
    and lists the axioms. -> (ok, summary text)"""
    mods = " ".join("Clikit." + pf[:-2].replace("/", ".") for pf in prop_files)
    rc, out = sh("timeout 1500 coqchk -silent -o -Q theories Clikit %s" % mods, 1600, cwd=COQ)
    m = re.search(r"CONTEXT SUMMARY.*", out, flags=re.S)
    summary = (m.group(0) if m else out[-1200:]).strip()
    return rc == 0, re.sub(r"\s+", " ", summary)[:1500]


# ------------------------------------------------------------------ running cases
def run_model(model_name, wires, tmp):
    """wires: list of wire strings. Returns list of decoded observations."""
    if not wires:
        return []
    n = max(1, min(NPROC, len(wires) // 200 + 1))
    shards = [wires[i::n] for i in range(n)]
    procs = []
    for i, sh_ in enumerate(shards):
        fin = os.path.join(tmp, "m_in_%d" % i)
        fout = os.path.join(tmp, "m_out_%d" % i)
        with open(fin, "w") as f:
            f.write("\n".join(sh_) + "\n")
        p = subprocess.Popen("ulimit -s unlimited 2>/dev/null; exec timeout 1800 %s %s < %s > %s" % (DRIVER, model_name, fin, fout), shell=True)
        procs.append((p, fout, len(sh_)))
    outs = []
    for p, fout, k in procs:
        rc = p.wait()
        lines = open(fout).read().split("\n")
        lines = [l for l in lines if l]
        if rc != 0 or len(lines) != k:
            raise RuntimeError("model driver failed rc=%s (%d/%d lines)" % (rc, len(lines), k))
        outs.append(lines)
    res = [None] * len(wires)
    for i in range(n):
        res[i::n] = outs[i]
    return res


def run_impl(prop, cases, tmp, tag="i"):
    """Run the real implementation on the cases in worker subprocesses."""
    if not cases:
        return []
    n = max(1, min(NPROC, len(cases) // 100 + 1))
    shards = [cases[i::n] for i in range(n)]
    env = dict(os.environ)
    env.update({"PYTHONPATH": SRC + os.pathsep + HERE, "PYTHONHASHSEED": "0", "PYTHONDONTWRITEBYTECODE": "1",
                "PYTHONPYCACHEPREFIX": os.path.join(tmp, "pyc"), "CLIKIT_VERIF": "1"})
    env.setdefault("COLUMNS", "80")
    procs = []
    for i, sh_ in enumerate(shards):
        fin = os.path.join(tmp, "%s_in_%d" % (tag, i))
        fout = os.path.join(tmp, "%s_out_%d" % (tag, i))
        with open(fin, "w") as f:
            for c in sh_:
                f.write(json.dumps(c) + "\n")
        p = subprocess.Popen([PY, os.path.join(HERE, "vcheck.py"), "--worker", prop, fin, fout], env=env,
                             stdout=subprocess.DEVNULL, stderr=subprocess.PIPE)
        procs.append((p, fout, len(sh_)))
    outs = []
    for p, fout, k in procs:
        try:
            _, err = p.communicate(timeout=3000)
        except subprocess.TimeoutExpired:
            p.kill()
            err = b"timeout"
        lines = [l for l in open(fout).read().split("\n") if l] if os.path.exists(fout) else []
        obs = [json.loads(l) for l in lines]
        # a worker that died: mark the rest as crashed
        while len(obs) < k:
            obs.append({"fail": ["WORKER-DIED", err.decode("utf8", "replace")[-300:]]})
        outs.append(obs)
    res = [None] * len(cases)
    for i in range(n):
        res[i::n] = outs[i]
    return res


def worker(prop, fin, fout):
    import faulthandler, signal
    mod = importlib.import_module("props." + prop)
    per_case_timeout = getattr(mod, "CASE_TIMEOUT", 20)
    canon_i = getattr(mod, "canon_impl", lambda c, o: o)

    class CaseTimeout(BaseException):
        pass

    def on_alarm(signum, frame):
        raise CaseTimeout()
    signal.signal(signal.SIGALRM, on_alarm)
    n_timeouts = 0
    with open(fout, "w") as out:
        for line in open(fin):
            case = json.loads(line)
            # circuit breaker: a changed implementation that hangs on a whole class of cases must not hang the check. After 3
            # timeouts in this worker the limit drops to 3 s, after 25 the rest of this worker's cases is not run (the check
            # has its violation - impl-run-failed:IMPL-TIMEOUT with the first such case as replay - and exits 1 anyway)
            if n_timeouts >= 25:
                out.write(json.dumps({"fail": ["IMPL-TIMEOUT-SKIPPED"]}) + "\n")
                continue
            signal.alarm(per_case_timeout if n_timeouts < 3 else min(3, per_case_timeout))
            rec = {}
            try:
                obs = mod.run_impl(case)
                ci = canon_i(case, obs)
                rec["w"] = to_wire(ci)
                if hasattr(mod, "wire_from"):
                    # the model's input is taken from what the implementation run saw (frames, tokens, paths)
                    rec["mw"] = to_wire(mod.wire_from(case, obs))
                try:
                    rec["o"] = mod.oracle(case, obs)
                except Exception as e:
                    rec["o"] = "oracle-crashed:%s" % type(e).__name__
                try:
                    k = mod.nontrivial_key(case, obs)
                except Exception:
                    k = None
                rec["k"] = None if k is None else hashlib.md5(json.dumps(k, sort_keys=True).encode()).hexdigest()
            except CaseTimeout:
                rec = {"fail": ["IMPL-TIMEOUT"]}
                n_timeouts += 1
            except BaseException as e:  # harness-level failure: report, do not hide
                rec = {"fail": ["HARNESS-EXC", type(e).__name__, str(e)[:300], traceback.format_exc()[-600:]]}
            finally:
                signal.alarm(0)
            out.write(json.dumps(rec) + "\n")
            out.flush()


class Evaluator:
    def __init__(self, prop, mod, tmp):
        self.prop, self.mod, self.tmp = prop, mod, tmp
        self.k = 0

    def __call__(self, cases):
        """-> list of dict(case, impl, model, diverges, oracle) ; oracle = None or failure-class string"""
        self.k += 1
        mod = self.mod
        t0 = time.time()
        impl = run_impl(self.prop, cases, self.tmp, tag="i%d" % self.k)
        t1 = time.time()
        if hasattr(mod, "wire_from"):
            wires = [i.pop("mw", "()") if "fail" not in i else "()" for i in impl]
        else:
            wires = [to_wire(mod.wire(c)) for c in cases]
        model = run_model(mod.MODEL, wires, self.tmp)
        t2 = time.time()
        if self.k == 1:
            self.pairs = list(zip(wires, [m.strip() for m in model]))
        self.t_impl, self.t_model = t1 - t0, t2 - t1
        res = []
        canon_m = getattr(mod, "canon_model", None)
        canon_mw = getattr(mod, "canon_model_w", None)
        for c, i, m in zip(cases, impl, model):
            if "fail" in i and i["fail"][0] == "IMPL-TIMEOUT-SKIPPED":
                # not run (the worker's circuit breaker, after 25 timeouts): neither a result nor a violation of its own
                res.append({"case": c, "impl_w": json.dumps(i["fail"]), "model_w": m, "diverges": False, "oracle": None, "key": None})
                continue
            if "fail" in i:
                res.append({"case": c, "impl_w": json.dumps(i["fail"]), "model_w": m, "diverges": True,
                            "oracle": "impl-run-failed:%s" % i["fail"][0], "key": None})
                continue
            mw = m.strip()
            if canon_mw is not None:
                mw = canon_mw(c, mw)
            elif canon_m is not None:
                mw = to_wire(canon_m(c, from_wire(mw)))
            res.append({"case": c, "impl_w": i["w"], "model_w": mw, "diverges": i["w"] != mw, "oracle": i["o"], "key": i["k"]})
        return res


# ------------------------------------------------------------------ findings
def load_findings(prop):
    # VERIF_FINDINGS: another findings file (to try a proposed entry; the committed file is read-only for the checks)
    p = os.environ.get("VERIF_FINDINGS") or os.path.join(ROOT, "known_findings.json")
    if not os.path.exists(p):
        return []
    return [f for f in json.load(open(p))["findings"] if f["property"] == prop and f["status"] == "known"]


def match_finding(findings, cls):
    """An entry suppresses exactly the oracle failure classes it names:
       "class": "x"                                   the class x (the original form);
       "classes": ["x", "y"]                          any of the listed classes;
       "class_prefix": "p:", "raw_classes": [...]     a class p:<raw> (or p:<raw1>+<raw2>...) - the oracle reports the clause
                                                      that failed inside the finding's territory - whose raw parts are ALL
                                                      listed: a failure of any other kind on such a case stays a violation."""
    if not isinstance(cls, str):
        return None
    for f in findings:
        if "class" in f and cls == f["class"]:
            return f
        if cls in f.get("classes", ()):
            return f
        pre = f.get("class_prefix")
        if pre and cls.startswith(pre):
            raws = cls[len(pre):].split("+")
            if raws and all(r in f.get("raw_classes", ()) for r in raws):
                return f
    return None


def shrink(ev, mod, case, cls_pred, budget=40):
    """Greedy shrink: keep any smaller candidate for which cls_pred(result) still holds."""
    if not hasattr(mod, "shrink"):
        return case
    cur = case
    for _ in range(budget):
        cands = list(mod.shrink(cur))[:200]
        if not cands:
            break
        rs = ev(cands)
        nxt = None
        for r in rs:
            if cls_pred(r):
                nxt = r["case"]
                break
        if nxt is None:
            break
        cur = nxt
    return cur


def parsed(w):
    try:
        return from_wire(w)
    except Exception:
        return w


def write_replay(prop, kind, tier, seed, r, extra=None):
    os.makedirs(os.path.join(ROOT, "replays"), exist_ok=True)
    body = {"property": prop, "kind": kind, "tier": tier, "seed": seed}
    if r is not None:
        body.update({"case": r["case"], "impl": parsed(r["impl_w"]), "model": parsed(r["model_w"]), "oracle": r["oracle"],
                     "diverges": r["diverges"]})
    if extra:
        body.update(extra)
    h = hashlib.sha1(json.dumps(body, sort_keys=True).encode()).hexdigest()[:10]
    path = os.path.join(ROOT, "replays", "%s-%s.json" % (prop, h))
    body["how_to_replay"] = "bin/check %s --replay %s" % (prop, os.path.relpath(path, ROOT))
    with open(path, "w") as f:
        json.dump(body, f, indent=1)
    return os.path.relpath(path, ROOT)


# ------------------------------------------------------------------ main
def main():
    if sys.argv[1] == "--worker":
        return worker(sys.argv[2], sys.argv[3], sys.argv[4])
    prop = sys.argv[1]
    rest = sys.argv[2:]
    replay = None
    if "--replay" in rest:
        replay = rest[rest.index("--replay") + 1]
        rest = [x for x in rest if x not in ("--replay", replay)]
    tier = rest[0] if rest else os.environ.get("VERIF_TIER", "quick")
    seed = int(os.environ.get("VERIF_SEED", "20260929"))
    t_start = time.time()
    mod = importlib.import_module("props." + prop)
    tmp = tempfile.mkdtemp(prefix="clikit-verif-", dir="/var/tmp")
    log = []
    try:
        rc = run_check(prop, mod, tier, seed, tmp, replay, t_start, log)
    finally:
        shutil.rmtree(tmp, ignore_errors=True)
    sys.exit(rc)


def run_check(prop, mod, tier, seed, tmp, replay, t_start, log):
    violations = []   # (replay_path, suffix)
    known_lines = []
    ok_build, out = build(log)
    bad_words = scan_forbidden()
    if not ok_build:
        print(out[-3000:])
    obligations, discharged, assumptions, failures = (0, 0, [], [])
    if ok_build:
        obligations, discharged, assumptions, failures = check_props(mod.PROP_FILES)
    ev = Evaluator(prop, mod, tmp)

    if replay:
        body = json.load(open(os.path.join(ROOT, replay) if not os.path.isabs(replay) else replay))
        if "case" not in body:
            print("replay names a proof obligation / correspondence only:", body.get("broken"))
            return 1 if (failures or not ok_build) else 0
        r = ev([body["case"]])[0]
        print(json.dumps({"impl": parsed(r["impl_w"]), "model": parsed(r["model_w"]), "diverges": r["diverges"], "oracle": r["oracle"]})[:4000])
        if hasattr(mod, "describe"):
            print(mod.describe(r["case"]))
        bad = r["oracle"] is not None or r["diverges"]
        if bad:
            print("VIOLATION property=%s replay=%s" % (prop, replay))
        return 1 if bad else 0

    rng = random.Random(seed)
    findings = load_findings(prop)
    # corpus first
    cases = []
    cdir = os.path.join(ROOT, "corpus", prop)
    if os.path.isdir(cdir):
        for f in sorted(os.listdir(cdir)):
            cases.append(json.load(open(os.path.join(cdir, f)))["case"])
    n_corpus = len(cases)
    gen_info = {}
    cases.extend(mod.gen(rng, tier, gen_info))
    results = ev(cases)

    n_div = sum(1 for r in results if r["diverges"])
    fails = [r for r in results if r["oracle"] is not None]
    # a recorded finding excuses the oracle failure, not a disagreement with the model: the model mirrors the code as it is,
    # defect included, so a case of a known finding that diverges is looked at like any other divergence
    divs = [r for r in results if r["diverges"] and (r["oracle"] is None or match_finding(findings, r["oracle"]))]

    # --- oracle failures: genuine violations on the real code (unless known)
    seen_cls, known_cls = {}, {}
    for r in fails:
        seen_cls.setdefault(r["oracle"], []).append(r)
    for cls, rs in sorted(seen_cls.items()):
        f = match_finding(findings, cls)
        if f:
            known_cls.setdefault(id(f), (f, {}))[1][cls] = len(rs)
            continue
        small = min(rs, key=lambda r: len(json.dumps(r["case"])))
        sc = shrink(ev, mod, small["case"], lambda x, cls=cls: x["oracle"] == cls)
        rr = ev([sc])[0]
        if rr["oracle"] != cls:
            rr = small
        path = write_replay(prop, "oracle:" + cls, tier, seed, rr,
                            {"describe": mod.describe(rr["case"]) if hasattr(mod, "describe") else None,
                             "cases_in_class": len(rs)})
        violations.append((path, ""))

    for f, per in known_cls.values():
        detail = "" if list(per) == [f.get("class")] else " [%s]" % ", ".join("%s: %d" % kv for kv in sorted(per.items()))
        known_lines.append("KNOWN-FINDING: property=%s %s (%d cases this run)%s" % (prop, f["what"], sum(per.values()), detail))

    # --- correspondence broken but no oracle failure among the diverging cases
    if divs and not violations:
        # a divergence that is fully explained by a known finding class is not a new alarm
        unexplained = []
        for r in divs:
            cls = mod.divergence_class(r) if hasattr(mod, "divergence_class") else None
            if cls and match_finding(findings, cls):
                continue
            unexplained.append(r)
        if unexplained:
            # search: neighbourhood of the diverging cases + fresh random budget
            found = None
            if hasattr(mod, "neighbours"):
                neigh = []
                for r in unexplained[:20]:
                    neigh.extend(list(mod.neighbours(r["case"]))[:100])
                for r in ev(neigh) if neigh else []:
                    if r["oracle"] is not None and not match_finding(findings, r["oracle"]):
                        found = r
                        break
            if found is None:
                rng2 = random.Random(seed + 1)
                extra = list(mod.gen(rng2, "search", {}))
                for r in ev(extra) if extra else []:
                    if r["oracle"] is not None and not match_finding(findings, r["oracle"]):
                        found = r
                        break
            if found is not None:
                path = write_replay(prop, "oracle:" + found["oracle"], tier, seed, found,
                                    {"describe": mod.describe(found["case"]) if hasattr(mod, "describe") else None})
                violations.append((path, ""))
            else:
                small = min(unexplained, key=lambda r: len(json.dumps(r["case"])))
                sc = shrink(ev, mod, small["case"], lambda x: x["diverges"])
                rr = ev([sc])[0]
                if not rr["diverges"]:
                    rr = small
                path = write_replay(prop, "correspondence", tier, seed, rr,
                                    {"broken": "corr:%s (model %s vs implementation)" % (prop, mod.MODEL),
                                     "diverging_cases": len(unexplained),
                                     "describe": mod.describe(rr["case"]) if hasattr(mod, "describe") else None})
                violations.append((path, " no-failing-input-found"))

    # --- proof obligations
    if not ok_build or failures or bad_words:
        if not violations:
            broken = {"broken": "proof-obligation", "build_ok": ok_build, "failures": failures,
                      "forbidden": bad_words, "build_tail": "" if ok_build else out[-1500:]}
            path = write_replay(prop, "proof", tier, seed, None, broken)
            violations.append((path, " no-failing-input-found"))

    # --- the extracted driver against the kernel's own evaluator; the independent checker (thorough)
    xc_n, xc_err = 0, None
    if ok_build and getattr(ev, "pairs", None):
        xc_n, xc_err = kernel_crosscheck(mod.MODEL, ev.pairs, 200 if tier == "thorough" else 30, tmp, getattr(mod, "MODEL_ENTRY", None))
        if xc_err and not violations:
            path = write_replay(prop, "extraction", tier, seed, None,
                                {"broken": "extraction/driver: a case evaluated by vm_compute inside Coq differs from the extracted OCaml driver's answer",
                                 "output": xc_err})
            violations.append((path, " no-failing-input-found"))
    chk_ok, chk_summary = None, None
    if ok_build and tier == "thorough" and not failures:
        chk_ok, chk_summary = run_coqchk(mod.PROP_FILES)
        if not chk_ok and not violations:
            path = write_replay(prop, "coqchk", tier, seed, None, {"broken": "coqchk rejects the compiled property files", "output": chk_summary})
            violations.append((path, " no-failing-input-found"))

    # --- evidence
    keys = set(r["key"] for r in results if r["key"] is not None)
    samples = []
    step = max(1, len(results) // 5)
    for r in results[n_corpus::step][:5]:
        samples.append({"case": (mod.describe(r["case"]) if hasattr(mod, "describe") else r["case"]),
                        "impl_obs": parsed(r["impl_w"]) if len(r["impl_w"]) < 600 else r["impl_w"][:600] + " ..."})
    evidence = {
        "property_id": prop, "tier": tier, "seed": seed, "level": "proof",
        "coverage": {
            "obligations": obligations, "discharged": discharged,
            "checker_cmd": "make -C coq (coqc 8.16.1, full .vo build) && coqc -Q theories Clikit theories/%s" % " ".join(mod.PROP_FILES),
            "trusted_base": [
                "Coq 8.16.1 kernel (vm_compute used in some proofs; no native_compute)",
                "Print Assumptions: " + "; ".join(assumptions),
                "extraction: ExtrOcamlBasic only (bool/option/unit/prod/list/sumbool/sumor), no Extract Constant; N/Z/positive stay Coq datatypes",
                "extraction + driver cross-checked against the kernel: %d cases of this run re-evaluated inside Coq by vm_compute and compared with the driver's answers (%s)" % (
                    xc_n, "all equal" if not xc_err else "MISMATCH") if mod.MODEL != "C14" else
                "extraction cross-check not applicable: run_C14 takes the IEEE share function from ocaml/driver.ml (trusted, tied by the run)",
                "ocaml/driver.ml (S-expression reader/printer, int<->Z) and OCaml 4.13.1",
                "harness/vcheck.py + harness/props/%s.py (generators, implementation runner, canonicalisation, oracle); CPython 3.12" % prop,
            ] + (["coqchk -o (independent checker) on the property files: %s; %s" % ("accepted" if chk_ok else "REJECTED", chk_summary)] if chk_ok is not None else [])
            + list(getattr(mod, "TRUSTED", [])),
            "evaluations": len(results),
            "distinct_nontrivial": len(keys),
            "rule": getattr(mod, "RULE", ""),
            # the correspondence run is a bounded-exhaustive part plus random samples of an unbounded space: never "the
            # finite space enumerated completely" (the unbounded claim is the theorems'); the bounded part is named apart
            "exhaustive": False,
            "bounded_exhaustive_part": bool(gen_info.get("exhaustive", False)),
            "samples": samples,
            "corpus_cases": n_corpus,
            "divergences_model_vs_impl": n_div,
            "oracle_failures": len(fails),
            "known_finding_lines": known_lines,
            "distribution": gen_info.get("distribution", {}),
            "theorems": list(THEOREM_NAMES),
            "timing": {"impl_s": round(getattr(ev, "t_impl", 0), 2), "model_s": round(getattr(ev, "t_model", 0), 2)},
            "source_tree": SRC,
        },
        "assumptions": list(getattr(mod, "ASSUMPTIONS", [])),
        "wall_s": round(time.time() - t_start, 2),
        "violations": len(violations),
    }
    # evidence is about /repo's working tree: a run against another tree (CLIKIT_SRC: seeded changes) leaves it alone
    if os.path.realpath(SRC) == "/repo/src":
        os.makedirs(os.path.join(ROOT, "evidence"), exist_ok=True)
        with open(os.path.join(ROOT, "evidence", prop + ".json"), "w") as f:
            json.dump(evidence, f, indent=1)
    if os.environ.get("VERIF_DEBUG"):
        for r in [r for r in results if r["diverges"]][:int(os.environ["VERIF_DEBUG"])]:
            print("DIVERGES", json.dumps(r["case"])[:300], "\n   impl ", r["impl_w"][:400], "\n   model", r["model_w"][:400])
        for r in fails[:int(os.environ["VERIF_DEBUG"])]:
            print("ORACLE", r["oracle"], json.dumps(r["case"])[:300], "\n   impl ", r["impl_w"][:400])
    for l in known_lines:
        print(l)
    print("%s %s: %d cases (%d distinct non-trivial), %d divergences, %d oracle failures, obligations %d/%d, %.1fs" % (
        prop, tier, len(results), len(keys), n_div, len(fails), discharged, obligations, time.time() - t_start))
    for path, suffix in violations:
        print("VIOLATION property=%s replay=%s%s" % (prop, path, suffix))
    return 1 if violations else 0


if __name__ == "__main__":
    main()
