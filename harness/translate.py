#!/usr/bin/env python3
"""harness/translate.py - a FAIL-CLOSED translator from a small pure subset of Python to Gallina.

    translate.py [--src DIR] [--out DIR] [--check]

Reads the clikit sources below DIR (default $CLIKIT_SRC or /repo/src) with `ast` and regenerates
coq/theories/Generated/GenGate.v and GenFlags.v (definitions only).  Proofs/GenEquivLemmas.v (hand-written)
proves that the generated functions equal the hand models of Model/Gate.v and Model/Flags.v for ALL inputs, so
every bin/setup re-checks the hand models against what the code says now.  A generated file is rewritten only when
its content changes.  --check: write nothing, exit 1 if a file would change.

Python subset (everything else in a translated function or constant module: exit 2, naming file, line, construct):
  constants   NAME = <int expression of literals, earlier constants, & | ^ ~ << >> + - *> at module level (the whole
              module must consist of such assignments and docstrings) or at class level (other class members are left
              alone; a constant must be bound exactly once and not be re-bound by a subclass among the translated classes)
  functions   methods `def m(self, p1, ..)`, no decorators / defaults / *args; body statements:
                if / elif / else, return [e], raise Exc("literal text"), pass, docstring,
                x = e and x |= e (also &= ^= += -= *=) on a local or a parameter,
                super(C, self).m(args) as a statement or as the right-hand side of x = .. (m translated too)
              expressions: int literals, True / False, locals, module constants imported by `from .mod import NAME`,
                self.CONST (class constants through the base-class chain), self._field for the fields DECLARED below,
                & | ^ ~ + - * and << >> by a non-negative constant, == != < <= > >= on integers (no chains),
                and / or / not (value position: operands must be booleans; test position: Python truthiness),
                x is None / x is not None, `a if c else b`, super(C, self).m(args) of a non-raising translated method
  types       int -> Z (Python integers are unbounded and signed: Z.land / Z.lor / Z.lxor / Z.lnot are two's complement
              like Python's), bool -> bool, Optional[int] -> option Z (narrowed by `if x is None`), a method that can
              raise -> res T with T = unit for a method returning None; raise ValueError -> Err ValueError, any other
              exception class is reported as unsupported.  `a >= b` is written (Z.leb b a), `a > b` (Z.ltb b a).
              A field declared 'truthy' stands for the truth value of the attribute and may only be tested.
What is TRUSTED here: this translator (the semantics it gives to the subset), the declared types of parameters and
fields (SPEC below), and that nothing re-binds the constants at run time.
"""
import ast
import hashlib
import os
import re
import sys

ROOT = os.path.dirname(os.path.dirname(os.path.abspath(__file__)))

# ---------------------------------------------------------------------------------------------------------- what to translate
SPEC = [
    {
        "out": "GenGate.v",
        "about": "the verbosity gate (C10): Output._may_write and the flag constants",
        "const_modules": ["clikit/api/io/flags.py"],
        "classes": [("clikit/api/io/output.py", "Output")],
        "class_consts": [],
        "functions": [
            {"file": "clikit/api/io/output.py", "cls": "Output", "name": "_may_write", "coq": "may_write",
             "fields": [("_quiet", "bool"), ("_verbosity", "int")], "params": {"flags": "optint"}, "ret": "bool"},
        ],
    },
    {
        "out": "GenFlags.v",
        "about": "flag validation and default flags of options and arguments (C07)",
        "const_modules": [],
        "classes": [("clikit/api/args/format/abstract_option.py", "AbstractOption"),
                    ("clikit/api/args/format/option.py", "Option"),
                    ("clikit/api/args/format/argument.py", "Argument")],
        "class_consts": ["AbstractOption", "Option", "Argument"],
        "functions": [
            {"file": "clikit/api/args/format/abstract_option.py", "cls": "AbstractOption", "name": "_validate_flags",
             "coq": "abstractoption_validate_flags", "fields": [], "params": {"flags": "int"}, "ret": "none"},
            {"file": "clikit/api/args/format/option.py", "cls": "Option", "name": "_validate_flags",
             "coq": "option_validate_flags", "fields": [], "params": {"flags": "int"}, "ret": "none"},
            {"file": "clikit/api/args/format/argument.py", "cls": "Argument", "name": "_validate_flags",
             "coq": "argument_validate_flags", "fields": [], "params": {"flags": "int"}, "ret": "none"},
            {"file": "clikit/api/args/format/abstract_option.py", "cls": "AbstractOption", "name": "_add_default_flags",
             "coq": "abstractoption_add_default_flags", "fields": [("_short_name", "truthy")], "params": {"flags": "int"},
             "ret": "int"},
            {"file": "clikit/api/args/format/option.py", "cls": "Option", "name": "_add_default_flags",
             "coq": "option_add_default_flags", "fields": [("_short_name", "truthy")], "params": {"flags": "int"},
             "ret": "int"},
            {"file": "clikit/api/args/format/argument.py", "cls": "Argument", "name": "_add_default_flags",
             "coq": "argument_add_default_flags", "fields": [], "params": {"flags": "int"}, "ret": "int"},
        ],
    },
]

TYPES = {"int": "Z", "bool": "bool", "optint": "optZ", "truthy": "truthy"}
COQ_TYPE = {"Z": "Z", "bool": "bool", "optZ": "option Z", "truthy": "bool", "unit": "unit"}
EKIND = {"ValueError": "ValueError"}          # Base/Res.v ekind; every other exception class: unsupported
RESERVED = set("""as at cofix else end exists exists2 fix for forall fun if IF in let match mod return then using where with
Prop Set Type SProp Definition Theorem Lemma Proof Qed tt true false None Some Ok Err bind negb andb orb Z bool option unit res
ValueError""".split())


class Unsupported(Exception):
    pass


def fail(file, node, what):
    raise Unsupported("%s:%d: unsupported construct: %s" % (file, getattr(node, "lineno", 0), what))


def zlit(n):
    return "%d%%Z" % n if n >= 0 else "(%d)%%Z" % n


# ---------------------------------------------------------------------------------------------------------- sources
class Module:
    def __init__(self, src_root, rel):
        self.rel = rel
        self.path = os.path.join(src_root, rel)
        try:
            self.text = open(self.path, encoding="utf-8").read()
        except OSError as e:
            raise Unsupported("%s: cannot read source (%s)" % (rel, e))
        try:
            self.tree = ast.parse(self.text, filename=rel)
        except SyntaxError as e:
            raise Unsupported("%s:%s: syntax error: %s" % (rel, e.lineno, e.msg))

    def segment(self, node):
        return ast.get_source_segment(self.text, node, padded=True)

    def bindings(self, name):
        """how often `name` is bound at module level (assignment, import, def, class; `global` anywhere); conservative"""
        n = 0
        for st in self.tree.body:
            if isinstance(st, (ast.FunctionDef, ast.AsyncFunctionDef, ast.ClassDef)):
                n += st.name == name
                continue
            for sub in ast.walk(st):
                if isinstance(sub, (ast.Import, ast.ImportFrom)):
                    n += sum(1 for a in sub.names if (a.asname or a.name.split(".")[0]) == name or a.name == "*")
                elif isinstance(sub, ast.Name) and isinstance(sub.ctx, (ast.Store, ast.Del)):
                    n += sub.id == name
                elif isinstance(sub, (ast.FunctionDef, ast.AsyncFunctionDef, ast.ClassDef)):
                    n += sub.name == name
        for sub in ast.walk(self.tree):
            if isinstance(sub, (ast.Global, ast.Nonlocal)) and name in sub.names:
                n += 1
        return n

    def imported_from(self, name):
        """-> (relative path of the module `name` is imported from, original name) or None"""
        for st in self.tree.body:
            if isinstance(st, ast.ImportFrom):
                for a in st.names:
                    if (a.asname or a.name) == name:
                        if st.level == 0:
                            base = ""
                        else:
                            base = os.path.dirname(self.rel)
                            for _ in range(st.level - 1):
                                base = os.path.dirname(base)
                        mod = (st.module or "").replace(".", "/")
                        return os.path.normpath(os.path.join(base, mod)) + ".py", a.name
        return None


def const_value(file, node, known):
    """value of an integer constant expression"""
    if isinstance(node, ast.Constant):
        if type(node.value) is int:
            return node.value
        fail(file, node, "constant %r (only integer literals)" % (node.value,))
    if isinstance(node, ast.Name):
        if node.id in known:
            return known[node.id]
        fail(file, node, "name %s in a constant expression (not an earlier integer constant)" % node.id)
    if isinstance(node, ast.UnaryOp):
        v = const_value(file, node.operand, known)
        if isinstance(node.op, ast.Invert):
            return ~v
        if isinstance(node.op, ast.USub):
            return -v
        if isinstance(node.op, ast.UAdd):
            return v
        fail(file, node, "unary operator %s in a constant expression" % type(node.op).__name__)
    if isinstance(node, ast.BinOp):
        a, b = const_value(file, node.left, known), const_value(file, node.right, known)
        op = type(node.op)
        if op in (ast.LShift, ast.RShift) and (b < 0 or b > 4096):
            fail(file, node, "shift by %d in a constant expression" % b)
        table = {ast.BitAnd: lambda: a & b, ast.BitOr: lambda: a | b, ast.BitXor: lambda: a ^ b, ast.LShift: lambda: a << b,
                 ast.RShift: lambda: a >> b, ast.Add: lambda: a + b, ast.Sub: lambda: a - b, ast.Mult: lambda: a * b}
        if op in table:
            return table[op]()
        fail(file, node, "operator %s in a constant expression" % op.__name__)
    fail(file, node, "%s in a constant expression" % type(node).__name__)


def is_docstring(st):
    return isinstance(st, ast.Expr) and isinstance(st.value, ast.Constant) and isinstance(st.value.value, str)


def module_consts(mod):
    """a constants module: nothing but NAME = <int expr> and docstrings"""
    out, known = [], {}
    for st in mod.tree.body:
        if is_docstring(st):
            continue
        if isinstance(st, ast.Assign) and len(st.targets) == 1 and isinstance(st.targets[0], ast.Name):
            name = st.targets[0].id
            if name in known:
                fail(mod.rel, st, "constant %s bound twice" % name)
            known[name] = const_value(mod.rel, st.value, known)
            out.append((name, known[name], st))
        else:
            fail(mod.rel, st, "%s at module level of a constants module" % type(st).__name__)
    return out


class ClassInfo:
    def __init__(self, mod, node):
        self.mod, self.node, self.name = mod, node, node.name
        self.base = None            # ClassInfo of the single base class when it is one of the translated classes
        self.base_name = None
        self.consts, self.methods, self.other = {}, {}, set()
        known = {}
        for st in node.body:
            if isinstance(st, ast.Assign) and len(st.targets) == 1 and isinstance(st.targets[0], ast.Name):
                name = st.targets[0].id
                if name in self.consts or name in self.other:
                    self.other.add(name)            # bound twice: not usable as a constant
                    self.consts.pop(name, None)
                    continue
                try:
                    v = const_value(mod.rel, st.value, known)
                except Unsupported:
                    self.other.add(name)
                    continue
                known[name] = v
                self.consts[name] = (v, st)
            elif isinstance(st, (ast.FunctionDef, ast.AsyncFunctionDef)):
                if st.name in self.methods:
                    self.other.add(st.name)
                self.methods[st.name] = st
            else:
                for sub in ast.walk(st):
                    if isinstance(sub, ast.Name) and isinstance(sub.ctx, ast.Store):
                        self.other.add(sub.id)
                        self.consts.pop(sub.id, None)
        for name in list(self.consts):
            if name in self.methods:
                self.other.add(name)
                del self.consts[name]
        if len(node.bases) == 1 and isinstance(node.bases[0], ast.Name):
            self.base_name = node.bases[0].id
        elif node.bases:
            self.base_name = "?"
        if node.keywords or node.decorator_list:
            fail(mod.rel, node, "class %s with decorators / metaclass keywords" % node.name)

    def chain(self):
        c = self
        while c is not None:
            yield c
            c = c.base


# ---------------------------------------------------------------------------------------------------------- functions
class Cont:
    """what happens when a block falls through"""

    def call(self, env):
        raise NotImplementedError


class FunCont(Cont):
    def __init__(self, f):
        self.f = f

    def call(self, env):
        return self.f(env)


class RecCont(Cont):
    """a continuation that is bound once in the output (let) and records with which variable types it is reached"""

    def __init__(self, tr, node, names, head):
        self.tr, self.node, self.names, self.head, self.envs = tr, node, names, head, []

    def call(self, env):
        for n in self.names:
            if n not in env:
                fail(self.tr.file, self.node, "local %s is bound on some paths only" % n)
        self.envs.append(dict(env))
        if self.head is None:           # the value of the variables themselves
            return self.names[0] if len(self.names) == 1 else "(" + ", ".join(self.names) + ")"
        return self.head if not self.names else "(" + self.head + " " + " ".join(self.names) + ")"

    def merged(self, env):
        out = dict(env)
        for n in self.names:
            ts = set(e[n] for e in self.envs)
            if len(ts) != 1:
                fail(self.tr.file, self.node, "local %s has different types on joining paths (%s)" % (n, ", ".join(sorted(ts))))
            out[n] = ts.pop()
        return out


def assigned_names(stmts):
    out = set()
    for st in stmts:
        for sub in ast.walk(st):
            if isinstance(sub, ast.Name) and isinstance(sub.ctx, (ast.Store, ast.Del)):
                out.add(sub.id)
    return out


def has_terminator(stmts):
    return any(isinstance(sub, (ast.Return, ast.Raise)) for st in stmts for sub in ast.walk(st))


def always_terminates(stmts):
    if not stmts:
        return False
    last = stmts[-1]
    if isinstance(last, (ast.Return, ast.Raise)):
        return True
    if isinstance(last, ast.If):
        return always_terminates(last.body) and always_terminates(last.orelse)
    return False


class FuncTranslator:
    def __init__(self, unit, spec, cls, node):
        self.unit, self.spec, self.cls, self.node = unit, spec, cls, node
        self.mod = cls.mod
        self.file = cls.mod.rel
        self.coq = spec["coq"]
        self.ret = spec["ret"]
        self.fields = {}

    # ---- signature
    def signature(self):
        n, f = self.node, self.file
        if isinstance(n, ast.AsyncFunctionDef):
            fail(f, n, "async def")
        if n.decorator_list:
            fail(f, n, "decorated method %s" % n.name)
        a = n.args
        if a.vararg or a.kwarg or a.kwonlyargs or a.defaults or a.kw_defaults or getattr(a, "posonlyargs", []):
            fail(f, n, "parameters of %s other than plain positional ones without defaults" % n.name)
        names = [x.arg for x in a.args]
        if not names or names[0] != "self":
            fail(f, n, "method %s without a leading self" % n.name)
        params = names[1:]
        if sorted(params) != sorted(self.spec["params"]):
            fail(f, n, "parameters %s of %s differ from the declared ones %s" % (params, n.name, sorted(self.spec["params"])))
        self.params = [(p, TYPES[self.spec["params"][p]]) for p in params]
        self.field_params = []
        for attr, t in self.spec["fields"]:
            v = attr.lstrip("_")
            self.fields[attr] = (v, TYPES[t])
            self.field_params.append((v, TYPES[t]))
        self.locals = set(params) | assigned_names(n.body)
        used = [v for v, _ in self.field_params] + sorted(self.locals)
        for v in used:
            if v in RESERVED or v in self.unit.defined or v.startswith("k_") or not v.isidentifier() or not v.isascii():
                fail(f, n, "name %s (reserved in the generated text)" % v)
        if len(set(used)) != len(used):
            fail(f, n, "a field and a local of %s share the name %s" % (n.name, [v for v in used if used.count(v) > 1][0]))
        for sub in ast.walk(n):
            if isinstance(sub, (ast.Global, ast.Nonlocal)):
                fail(f, sub, type(sub).__name__.lower())
        self.raises = any(isinstance(sub, ast.Raise) for sub in ast.walk(n)) or any(
            self.callee(sub)[0].raises for sub in ast.walk(n) if self.is_super_call(sub))

    def result_type(self):
        t = {"bool": "bool", "int": "Z", "none": "unit"}[self.ret]
        return "res %s" % t if self.raises else t

    def wrap(self, text):
        return "(Ok %s)" % text if self.raises else text

    # ---- calls of translated methods of the base class
    def is_super_call(self, e):
        return (isinstance(e, ast.Call) and isinstance(e.func, ast.Attribute) and isinstance(e.func.value, ast.Call)
                and isinstance(e.func.value.func, ast.Name) and e.func.value.func.id == "super")

    def callee(self, e):
        """-> (translated function, argument nodes)"""
        f, sup = self.file, e.func.value
        if sup.keywords or e.keywords or any(isinstance(a, ast.Starred) for a in e.args):
            fail(f, e, "keyword / starred arguments in a call")
        if sup.args:
            if not (len(sup.args) == 2 and isinstance(sup.args[0], ast.Name) and sup.args[0].id == self.cls.name
                    and isinstance(sup.args[1], ast.Name) and sup.args[1].id == "self"):
                fail(f, e, "super(..) with arguments other than (%s, self)" % self.cls.name)
        if self.mod.bindings("super"):
            fail(f, e, "super is re-bound in this module")
        if self.cls.base is None:
            fail(f, e, "super() in class %s whose base class %s is not among the translated classes" % (self.cls.name, self.cls.base_name))
        m = e.func.attr
        for c in self.cls.base.chain():
            if m in c.methods:
                if m in c.other:
                    fail(f, e, "method %s.%s defined twice" % (c.name, m))
                fn = self.unit.funcs.get((c.name, m))
                if fn is None:
                    fail(f, e, "call of %s.%s, which is not (yet) translated" % (c.name, m))
                return fn, e.args
            if c.base is None and c.base_name not in (None, "object"):
                fail(f, e, "method %s looked up beyond the translated classes (base %s of %s)" % (m, c.base_name, c.name))
        fail(f, e, "call of the unknown method %s" % m)

    def call_text(self, e, env):
        fn, args = self.callee(e)
        if len(args) != len(fn.params):
            fail(self.file, e, "%d arguments for %s (takes %d)" % (len(args), fn.coq, len(fn.params)))
        parts = [fn.coq]
        for attr, (v, t) in fn.fields.items():
            if self.fields.get(attr) != (v, t):
                fail(self.file, e, "%s reads self.%s, which is not declared (with the same type) for %s" % (fn.coq, attr, self.coq))
            parts.append(v)
        for a, (_, t) in zip(args, fn.params):
            txt, ty = self.value(a, env)
            if ty != t:
                fail(self.file, a, "argument of type %s for a parameter of type %s" % (ty, t))
            parts.append(txt)
        return "(" + " ".join(parts) + ")", fn

    # ---- expressions
    def const_ref(self, e, name):
        """self.NAME / cls constant through the chain of translated classes"""
        for c in self.cls.chain():
            if name in c.consts:
                for d in self.unit.classes.values():          # no translated class below or above re-binds it
                    if d is not c and (name in d.consts or name in d.other or name in d.methods) and (
                            c in list(d.chain()) or d in list(c.chain())):
                        fail(self.file, e, "constant %s of %s is re-bound in %s" % (name, c.name, d.name))
                if c.name not in self.unit.const_classes:
                    fail(self.file, e, "constant %s.%s is not among the translated constants" % (c.name, name))
                return "%s_%s" % (c.name, name)
            if name in c.other or name in c.methods:
                fail(self.file, e, "self.%s is not an integer constant (class %s)" % (name, c.name))
            if c.base is None and c.base_name not in (None, "object"):
                fail(self.file, e, "self.%s looked up beyond the translated classes (base %s of %s)" % (name, c.base_name, c.name))
        fail(self.file, e, "self.%s (neither a declared field nor a class constant)" % name)

    def value(self, e, env):
        """-> (text, type) of an expression in value position"""
        f = self.file
        if isinstance(e, ast.Constant):
            if e.value is True:
                return "true", "bool"
            if e.value is False:
                return "false", "bool"
            if type(e.value) is int:
                return zlit(e.value), "Z"
            fail(f, e, "constant %r" % (e.value,))
        if isinstance(e, ast.Name):
            if not isinstance(e.ctx, ast.Load):
                fail(f, e, "name %s in a store/del position" % e.id)
            if e.id in self.locals:
                if e.id not in env:
                    fail(f, e, "local %s may be unbound here" % e.id)
                return e.id, env[e.id]
            return self.module_const(e), "Z"
        if isinstance(e, ast.Attribute):
            if not (isinstance(e.value, ast.Name) and e.value.id == "self" and isinstance(e.ctx, ast.Load)):
                fail(f, e, "attribute .%s of something other than self" % e.attr)
            if "self" in self.locals:
                fail(f, e, "self is re-bound")
            if e.attr in self.fields:
                v, t = self.fields[e.attr]
                if t == "truthy":
                    fail(f, e, "self.%s outside a test (declared as a truth value only)" % e.attr)
                return v, t
            return self.const_ref(e, e.attr), "Z"
        if isinstance(e, ast.UnaryOp):
            if isinstance(e.op, ast.Not):
                return "(negb %s)" % self.truth(e.operand, env), "bool"
            a, t = self.value(e.operand, env)
            if t != "Z":
                fail(f, e, "unary %s on a value of type %s" % (type(e.op).__name__, t))
            if isinstance(e.op, ast.Invert):
                return "(Z.lnot %s)" % a, "Z"
            if isinstance(e.op, ast.USub):
                return "(Z.opp %s)" % a, "Z"
            if isinstance(e.op, ast.UAdd):
                return a, "Z"
            fail(f, e, "unary operator %s" % type(e.op).__name__)
        if isinstance(e, ast.BinOp):
            a, ta = self.value(e.left, env)
            b, tb = self.value(e.right, env)
            if ta != "Z" or tb != "Z":
                fail(f, e, "operator %s on values of type %s and %s (integers only)" % (type(e.op).__name__, ta, tb))
            ops = {ast.BitAnd: "Z.land", ast.BitOr: "Z.lor", ast.BitXor: "Z.lxor", ast.Add: "Z.add", ast.Sub: "Z.sub",
                   ast.Mult: "Z.mul", ast.LShift: "Z.shiftl", ast.RShift: "Z.shiftr"}
            if type(e.op) not in ops:
                fail(f, e, "operator %s" % type(e.op).__name__)
            if isinstance(e.op, (ast.LShift, ast.RShift)):
                # Python raises ValueError for a negative count: only counts that are non-negative constants
                try:
                    n = const_value(f, e.right, {})
                except Unsupported:
                    n = -1
                if n < 0:
                    fail(f, e, "shift by something other than a non-negative integer literal")
            return "(%s %s %s)" % (ops[type(e.op)], a, b), "Z"
        if isinstance(e, ast.Compare):
            return self.compare(e, env), "bool"
        if isinstance(e, ast.BoolOp):
            parts = []
            for v in e.values:
                t, ty = self.value(v, env)
                if ty != "bool":
                    fail(f, v, "operand of type %s of and/or in value position (booleans only; the result would be the operand itself)" % ty)
                parts.append(t)
            return self.fold("andb" if isinstance(e.op, ast.And) else "orb", parts), "bool"
        if isinstance(e, ast.IfExp):
            c = self.truth(e.test, env)
            a, ta = self.value(e.body, env)
            b, tb = self.value(e.orelse, env)
            if ta != tb:
                fail(f, e, "conditional expression with branches of type %s and %s" % (ta, tb))
            return "(if %s then %s else %s)" % (c, a, b), ta
        if self.is_super_call(e):
            txt, fn = self.call_text(e, env)
            if fn.raises:
                fail(f, e, "call of %s, which can raise, inside an expression (only as a statement or as the whole right-hand side)" % fn.coq)
            if fn.ret == "none":
                fail(f, e, "value of %s, which returns None" % fn.coq)
            return txt, {"bool": "bool", "int": "Z"}[fn.ret]
        fail(f, e, type(e).__name__ + (" (call of %s)" % ast.unparse(e.func) if isinstance(e, ast.Call) else ""))

    @staticmethod
    def fold(op, parts):
        out = parts[0]
        for p in parts[1:]:
            out = "(%s %s %s)" % (op, out, p)
        return out

    def module_const(self, e):
        f, name = self.file, e.id
        if self.mod.bindings(name) != 1:
            fail(f, e, "name %s (not a local; bound %d times in the module, expected exactly one import)" % (name, self.mod.bindings(name)))
        imp = self.mod.imported_from(name)
        if imp is None:
            fail(f, e, "name %s (not a local and not imported by `from <constants module> import %s`)" % (name, name))
        rel, orig = imp
        if rel not in self.unit.const_mods:
            fail(f, e, "name %s imported from %s, which is not a translated constants module" % (name, rel))
        if orig not in self.unit.const_mods[rel]:
            fail(f, e, "%s is not an integer constant of %s" % (orig, rel))
        return orig

    def compare(self, e, env):
        f = self.file
        if len(e.ops) != 1:
            fail(f, e, "chained comparison")
        op, l, r = e.ops[0], e.left, e.comparators[0]
        if isinstance(op, (ast.Is, ast.IsNot)):
            if not (isinstance(r, ast.Constant) and r.value is None):
                fail(f, e, "`is` with something other than None")
            a, t = self.value(l, env)
            if t == "optZ":
                yes, no = ("true", "false") if isinstance(op, ast.Is) else ("false", "true")
                return "(match %s with None => %s | Some _ => %s end)" % (a, yes, no)
            if t in ("Z", "bool"):          # an int / a bool is never None
                return "false" if isinstance(op, ast.Is) else "true"
            fail(f, e, "`is None` on a value of type %s" % t)
        a, ta = self.value(l, env)
        b, tb = self.value(r, env)
        if ta != "Z" or tb != "Z":
            fail(f, e, "comparison %s of values of type %s and %s (integers only)" % (type(op).__name__, ta, tb))
        if isinstance(op, ast.Eq):
            return "(Z.eqb %s %s)" % (a, b)
        if isinstance(op, ast.NotEq):
            return "(negb (Z.eqb %s %s))" % (a, b)
        if isinstance(op, ast.Lt):
            return "(Z.ltb %s %s)" % (a, b)
        if isinstance(op, ast.LtE):
            return "(Z.leb %s %s)" % (a, b)
        if isinstance(op, ast.Gt):
            return "(Z.ltb %s %s)" % (b, a)
        if isinstance(op, ast.GtE):
            return "(Z.leb %s %s)" % (b, a)
        fail(f, e, "comparison operator %s" % type(op).__name__)

    def truth(self, e, env):
        """text of bool(e)"""
        if isinstance(e, ast.BoolOp):
            return self.fold("andb" if isinstance(e.op, ast.And) else "orb", [self.truth(v, env) for v in e.values])
        if isinstance(e, ast.UnaryOp) and isinstance(e.op, ast.Not):
            return "(negb %s)" % self.truth(e.operand, env)
        if (isinstance(e, ast.Attribute) and isinstance(e.value, ast.Name) and e.value.id == "self"
                and self.fields.get(e.attr, (None, None))[1] == "truthy" and "self" not in self.locals):
            return self.fields[e.attr][0]
        a, t = self.value(e, env)
        if t == "bool":
            return a
        if t == "Z":
            return "(negb (Z.eqb %s 0%%Z))" % a
        if t == "optZ":
            return "(match %s with None => false | Some v => negb (Z.eqb v 0%%Z) end)" % a
        fail(self.file, e, "truth value of a %s" % t)

    # ---- statements
    def end_cont(self):
        def k(env):
            if self.ret != "none":
                fail(self.file, self.node, "%s can fall off its end (returns None, declared %s)" % (self.node.name, self.ret))
            return self.wrap("tt")
        return FunCont(k)

    def body(self):
        env = dict(self.params)
        return self.block(list(self.node.body), env, self.end_cont())

    def narrowing(self, test, env):
        """`x is None` / `x is not None` on an Optional local -> (name, True when the then-branch is the None case)"""
        if (isinstance(test, ast.Compare) and len(test.ops) == 1 and isinstance(test.ops[0], (ast.Is, ast.IsNot))
                and isinstance(test.left, ast.Name) and test.left.id in self.locals and env.get(test.left.id) == "optZ"
                and isinstance(test.comparators[0], ast.Constant) and test.comparators[0].value is None):
            return test.left.id, isinstance(test.ops[0], ast.Is)
        return None

    def branch(self, st, env, mk_then, mk_else):
        """the two branches of an if statement under its test (with narrowing of an Optional local)"""
        nar = self.narrowing(st.test, env)
        if nar:
            x, then_is_none = nar
            env_some = dict(env)
            env_some[x] = "Z"
            if then_is_none:
                none_t, some_t = mk_then(env), mk_else(env_some)
            else:
                some_t, none_t = mk_then(env_some), mk_else(env)
            return "match %s with\n| None => %s\n| Some %s => %s\nend" % (x, none_t, x, some_t)
        c = self.truth(st.test, env)
        t = mk_then(env)
        if "\n" in t:
            t = "(\n%s)" % indent(t)
        return "if %s\nthen %s\nelse %s" % (c, t, mk_else(env))

    def block(self, stmts, env, k):
        f = self.file
        if not stmts:
            return k.call(env)
        st, rest = stmts[0], stmts[1:]
        if is_docstring(st) or isinstance(st, ast.Pass):
            return self.block(rest, env, k)
        if isinstance(st, (ast.Return, ast.Raise)) and rest:
            fail(f, rest[0], "statement after return / raise (unreachable)")
        if isinstance(st, ast.Return):
            if st.value is None or (isinstance(st.value, ast.Constant) and st.value.value is None):
                if self.ret != "none":
                    fail(f, st, "return without a value in a method declared to return %s" % self.ret)
                return self.wrap("tt")
            if self.ret == "none":
                fail(f, st, "return of a value in a method declared to return None")
            a, t = self.value(st.value, env)
            if t != {"bool": "bool", "int": "Z"}[self.ret]:
                fail(f, st, "return of a value of type %s in a method declared to return %s" % (t, self.ret))
            return self.wrap(a)
        if isinstance(st, ast.Raise):
            if st.cause is not None or st.exc is None:
                fail(f, st, "raise without an exception / with `from`")
            exc = st.exc
            if not (isinstance(exc, ast.Call) and isinstance(exc.func, ast.Name) and not exc.keywords):
                fail(f, st, "raise of something other than ExceptionClass(\"literal text\")")
            for a in exc.args:
                if not (isinstance(a, ast.Constant) and isinstance(a.value, str)):
                    fail(f, a, "exception argument that is not a string literal")
            if exc.func.id not in EKIND:
                fail(f, st, "raise of %s (only %s have a counterpart in the model's ekind)" % (exc.func.id, ", ".join(sorted(EKIND))))
            if exc.func.id in self.locals or self.mod.bindings(exc.func.id):
                fail(f, st, "%s is re-bound in this module" % exc.func.id)
            return "(Err %s)" % EKIND[exc.func.id]
        if isinstance(st, ast.Expr):
            if self.is_super_call(st.value):
                txt, fn = self.call_text(st.value, env)
                if fn.raises:
                    return "bind %s (fun _ =>\n%s)" % (txt, self.block(rest, env, k))
                return self.block(rest, env, k)             # a pure call whose value is dropped
            fail(f, st, "expression statement: %s" % type(st.value).__name__)
        if isinstance(st, (ast.Assign, ast.AugAssign)):
            if isinstance(st, ast.Assign):
                if len(st.targets) != 1 or not isinstance(st.targets[0], ast.Name):
                    fail(f, st, "assignment to something other than one local name")
                x = st.targets[0].id
                if self.is_super_call(st.value):
                    txt, fn = self.call_text(st.value, env)
                    if fn.ret == "none":
                        fail(f, st, "value of %s, which returns None" % fn.coq)
                    t = {"bool": "bool", "int": "Z"}[fn.ret]
                    if fn.raises:
                        env2 = dict(env)
                        env2[x] = t
                        return "bind %s (fun %s =>\n%s)" % (txt, x, self.block(rest, env2, k))
                    a = txt
                else:
                    a, t = self.value(st.value, env)
            else:
                if not isinstance(st.target, ast.Name):
                    fail(f, st, "augmented assignment to something other than a local name")
                x = st.target.id
                ops = {ast.BitOr: "Z.lor", ast.BitAnd: "Z.land", ast.BitXor: "Z.lxor", ast.Add: "Z.add", ast.Sub: "Z.sub",
                       ast.Mult: "Z.mul"}
                if type(st.op) not in ops:
                    fail(f, st, "augmented assignment with operator %s" % type(st.op).__name__)
                if x not in env:
                    fail(f, st, "local %s may be unbound here" % x)
                b, tb = self.value(st.value, env)
                if env[x] != "Z" or tb != "Z":
                    fail(f, st, "augmented assignment on values of type %s and %s (integers only)" % (env[x], tb))
                a, t = "(%s %s %s)" % (ops[type(st.op)], x, b), "Z"
            if x == "self":
                fail(f, st, "assignment to self")
            env2 = dict(env)
            env2[x] = t
            return self.let(x, a, self.block(rest, env2, k))
        if isinstance(st, ast.If):
            return self.if_stmt(st, rest, env, k)
        fail(f, st, "statement %s" % type(st).__name__)

    @staticmethod
    def let(x, a, body):
        if body == x:
            return a
        return "let %s := %s in\n%s" % (x, a, body)

    def if_stmt(self, st, rest, env, k):
        f = self.file
        t_term, e_term = always_terminates(st.body), always_terminates(st.orelse)
        if t_term and e_term and rest:
            fail(f, rest[0], "statement after an if whose branches all return / raise (unreachable)")
        assigned = sorted(assigned_names(st.body) | assigned_names(st.orelse))
        if not has_terminator(st.body) and not has_terminator(st.orelse):
            # only assignments: the if statement computes new values of the assigned locals
            if not assigned:
                self.truth(st.test, env)            # still has to be in the subset
                return self.block(rest, env, k)
            join = RecCont(self, st, assigned, None)
            val = self.branch(st, env, lambda e: self.block(list(st.body), e, join), lambda e: self.block(list(st.orelse), e, join))
            env2 = join.merged(env)
            pat = assigned[0] if len(assigned) == 1 else "'(" + ", ".join(assigned) + ")"
            rest_t = self.block(rest, env2, k)
            if rest_t == join.call(env2):
                return val
            return "let %s :=\n%s in\n%s" % (pat, indent("(" + val + ")"), rest_t)
        if t_term or e_term:
            # at most one branch goes on: no join needed
            cont = FunCont(lambda e: self.block(rest, e, k))
            return self.branch(st, env, lambda e: self.block(list(st.body), e, cont), lambda e: self.block(list(st.orelse), e, cont))
        # both branches can go on, and there are returns / raises inside: the rest is bound once
        name = "k_%d" % st.lineno
        join = RecCont(self, st, assigned, name)
        val = self.branch(st, env, lambda e: self.block(list(st.body), e, join), lambda e: self.block(list(st.orelse), e, join))
        env2 = join.merged(env)
        rest_t = self.block(rest, env2, k)
        if not assigned and re.fullmatch(r"\w+|\(\w+ \w+\)", rest_t):         # a constant: no need to bind it
            return re.sub(r"\b%s\b" % name, lambda _: rest_t, val)
        if assigned:
            binder = "fun %s =>\n%s" % (" ".join("(%s : %s)" % (n, COQ_TYPE[env2[n]]) for n in assigned), rest_t)
        else:
            binder = rest_t
        return "let %s :=\n%s in\n%s" % (name, indent("(" + binder + ")"), val)


def indent(text, by="  "):
    return "\n".join(by + l for l in text.split("\n"))


# ---------------------------------------------------------------------------------------------------------- units
class Unit:
    def __init__(self, src_root, spec):
        self.spec, self.src_root = spec, src_root
        self.mods, self.classes, self.funcs, self.defined = {}, {}, {}, set()
        self.const_mods = {}
        self.const_classes = list(spec["class_consts"])

    def mod(self, rel):
        if rel not in self.mods:
            self.mods[rel] = Module(self.src_root, rel)
        return self.mods[rel]

    def define(self, file, node, name):
        if name in self.defined or name in RESERVED or not name.isidentifier() or not name.isascii():
            fail(file, node, "the generated name %s is taken / reserved" % name)
        self.defined.add(name)

    def generate(self):
        spec = self.spec
        out = []
        head = ["(* GENERATED by harness/translate.py from the clikit sources - DO NOT EDIT: overwritten by every bin/setup.",
                "   %s." % spec["about"],
                "   Proofs/GenEquivLemmas.v proves these definitions equal to the hand models for all inputs.",
                "   Paths are relative to $CLIKIT_SRC (default /repo/src); sha256 is that of the translated source text."]
        # ---- constants modules
        for rel in spec["const_modules"]:
            m = self.mod(rel)
            consts = module_consts(m)
            self.const_mods[rel] = {n: v for n, v, _ in consts}
            sha = hashlib.sha256("\n".join(m.segment(st) for _, _, st in consts).encode()).hexdigest()
            head.append("   constants  %s (module level, lines %s)  sha256 %s" % (rel, ",".join(str(st.lineno) for _, _, st in consts), sha))
            out.append("(* %s *)" % rel)
            for n, v, st in consts:
                self.define(rel, st, n)
                out.append("Definition %s : Z := %s.   (* line %d *)" % (n, zlit(v), st.lineno))
            out.append("")
        # ---- classes
        for rel, cname in spec["classes"]:
            m = self.mod(rel)
            nodes = [st for st in m.tree.body if isinstance(st, ast.ClassDef) and st.name == cname]
            if len(nodes) != 1 or m.bindings(cname) != 1:
                raise Unsupported("%s: class %s is not defined exactly once at module level" % (rel, cname))
            self.classes[cname] = ClassInfo(m, nodes[0])
        for c in self.classes.values():
            if c.base_name in self.classes:
                base = self.classes[c.base_name]
                imp = c.mod.imported_from(c.base_name)
                same_file = c.mod is base.mod
                if not same_file and (imp is None or imp[0] != base.mod.rel or imp[1] != base.name or c.mod.bindings(c.base_name) != 1):
                    fail(c.mod.rel, c.node, "base class %s of %s is not the translated class of that name" % (c.base_name, c.name))
                c.base = base
        for cname in spec["class_consts"]:
            c = self.classes[cname]
            items = sorted(c.consts.items(), key=lambda kv: kv[1][1].lineno)
            sha = hashlib.sha256("\n".join(c.mod.segment(st) for _, (_, st) in items).encode()).hexdigest()
            head.append("   constants  %s class %s (lines %s)  sha256 %s" % (c.mod.rel, cname, ",".join(str(st.lineno) for _, (_, st) in items), sha))
            out.append("(* %s, class %s *)" % (c.mod.rel, cname))
            for n, (v, st) in items:
                self.define(c.mod.rel, st, "%s_%s" % (cname, n))
                out.append("Definition %s_%s : Z := %s.   (* line %d *)" % (cname, n, zlit(v), st.lineno))
            out.append("")
        # ---- functions
        for fs in spec["functions"]:
            c = self.classes[fs["cls"]]
            if c.mod.rel != fs["file"]:
                raise Unsupported("SPEC: %s is not in %s" % (fs["cls"], fs["file"]))
            if fs["name"] not in c.methods or fs["name"] in c.other:
                raise Unsupported("%s:%d: class %s does not define %s exactly once" % (c.mod.rel, c.node.lineno, c.name, fs["name"]))
            node = c.methods[fs["name"]]
            self.define(c.mod.rel, node, fs["coq"])
            tr = FuncTranslator(self, fs, c, node)
            tr.signature()
            body = tr.body()
            seg = c.mod.segment(node)
            sha = hashlib.sha256(seg.encode()).hexdigest()
            head.append("   function   %s %s.%s (line %d) -> %s  sha256 %s" % (c.mod.rel, c.name, node.name, node.lineno, fs["coq"], sha))
            binders = "".join(" (%s : %s)" % (v, COQ_TYPE[t]) for v, t in tr.field_params + tr.params)
            notes = ["%s = %s" % (v, "bool(self.%s)" % a if t == "truthy" else "self.%s" % a) for a, (v, t) in tr.fields.items()]
            out.append("(* %s, %s.%s, line %d%s *)" % (c.mod.rel, c.name, node.name, node.lineno, ("; " + ", ".join(notes)) if notes else ""))
            out.append("Definition %s%s : %s :=\n%s." % (fs["coq"], binders, tr.result_type(), indent(body)))
            out.append("")
            self.funcs[(c.name, node.name)] = tr
        head.append("*)")
        imports = ["From Coq Require Import ZArith Bool."]
        if any(t.raises for t in self.funcs.values()):
            imports.append("From Clikit Require Import Base.Res.")
        return "\n".join(head + imports + [""] + out).rstrip("\n") + "\n"


def main(argv):
    src = os.environ.get("CLIKIT_SRC", "/repo/src")
    out_dir = os.path.join(ROOT, "coq", "theories", "Generated")
    check = False
    args = list(argv)
    while args:
        a = args.pop(0)
        if a == "--src":
            src = args.pop(0)
        elif a == "--out":
            out_dir = args.pop(0)
        elif a == "--check":
            check = True
        else:
            print("usage: translate.py [--src DIR] [--out DIR] [--check]", file=sys.stderr)
            return 2
    results = []
    try:
        for spec in SPEC:
            results.append((spec["out"], Unit(src, spec).generate()))
    except Unsupported as e:
        print("translate.py: FAILED (nothing written): %s" % e, file=sys.stderr)
        return 2
    os.makedirs(out_dir, exist_ok=True)
    changed = 0
    for name, text in results:
        path = os.path.join(out_dir, name)
        old = open(path).read() if os.path.exists(path) else None
        if old != text:
            changed += 1
            if check:
                print("translate.py: %s is out of date" % path)
            else:
                with open(path + ".tmp", "w") as fh:
                    fh.write(text)
                os.replace(path + ".tmp", path)
                print("translate.py: %s regenerated from %s" % (os.path.relpath(path, ROOT), src))
    return 1 if (check and changed) else 0


if __name__ == "__main__":
    sys.exit(main(sys.argv[1:]))
