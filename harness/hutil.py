"""Shared helpers for the per-property harness modules."""


def S(s):
    return [ord(c) for c in s]


def unS(l):
    return "".join(chr(c) for c in l)


def exc_code(e):
    """Exception -> the error-kind code used by the Coq models (Base/Res.v ekind_code)."""
    n = type(e).__name__
    table = {"CannotParseArgsException": 2, "NoSuchOptionException": 3, "NoSuchArgumentException": 4,
             "CannotAddOptionException": 5, "CannotAddArgumentException": 6, "CannotResolveCommandException": 7,
             "NoSuchCommandException": 8}
    if n in table:
        return table[n]
    if isinstance(e, ValueError) and type(e) is ValueError:
        return 1
    other = {"TypeError": 101, "KeyError": 102, "IndexError": 103, "AttributeError": 104}
    return other.get(n, 109)


def err(e):
    return [-1, exc_code(e)]


def enc_val(v):
    """Python value -> the model's pyval wire form (floats as repr text)."""
    if v is None:
        return [0]
    if isinstance(v, bool):
        return [1, 1 if v else 0]
    if isinstance(v, int):
        return [2, v]
    if isinstance(v, str):
        return [3, S(v)]
    if isinstance(v, float):
        return [4, S(repr(v))]
    if isinstance(v, list):
        return [5, [enc_val(x) for x in v]]
    return [9, S(type(v).__name__)]


def dec_val(w):
    t = w[0]
    if t == 0:
        return None
    if t == 1:
        return bool(w[1])
    if t == 2:
        return w[1]
    if t == 3:
        return unS(w[1])
    if t == 4:
        return float(unS(w[1]))
    if t == 5:
        return [dec_val(x) for x in w[1]]
    raise ValueError(w)


def canon_floats(w):
    """Replace float wire values [4, text] by [4, repr(float(text))] so that model text and
    implementation value compare by value (nan by name)."""
    if isinstance(w, list):
        if len(w) == 2 and w[0] == 4 and isinstance(w[1], list) and all(isinstance(c, int) for c in w[1]):
            try:
                return [4, S(repr(float(unS(w[1]))))]
            except ValueError:
                return w
        return [canon_floats(x) for x in w]
    return w


def to_wire(x):
    if isinstance(x, bool):
        return "1" if x else "0"
    if isinstance(x, int):
        return str(x)
    if isinstance(x, str):
        return "(" + " ".join(str(ord(c)) for c in x) + ")"
    if x is None:
        return "()"
    return "(" + " ".join(to_wire(y) for y in x) + ")"


def from_wire(s):
    toks = s.replace("(", " ( ").replace(")", " ) ").split()
    stack = [[]]
    for t in toks:
        if t == "(":
            stack.append([])
        elif t == ")":
            l = stack.pop()
            stack[-1].append(l)
        else:
            stack[-1].append(int(t))
    return stack[0][0]


def canon_floats_w(w):
    """string-level: only lines that contain a float value are parsed"""
    if "(4 (" not in w:
        return w
    return to_wire(canon_floats(from_wire(w)))
