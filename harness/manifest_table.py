"""Per-property manifest entries (bin/mkmanifest turns this into MANIFEST.json)."""
NOTES = ("Machine-checked proof in Coq 8.16.1 about hand-written executable models, tied to /repo's working tree on every run by "
         "differential correspondence (extracted model vs real implementation on the same cases) plus an implementation-side oracle. "
         "See DESIGN.md.")
COMMON = ("Trusted: Coq kernel, ExtrOcamlBasic extraction + ocaml/driver.ml, the Python harness (generator, runner, oracle), CPython. "
          "The theorem speaks about the model; the correspondence run (exhaustive on the stated sub-domain, random beyond) ties it to the code. ")
CHECKS = {
    "C12": {
        "technique": "Coq refinement proof (dispatcher model refines registration-log spec, all op sequences) + exhaustive/random differential correspondence",
        "text": "Theorem dispatch_refines: for every sequence of registrations/dispatches/queries the dispatcher model (with its priority buckets and sort cache) answers every dispatch, get_listeners(e) and has_listeners exactly like a spec that keeps only the registration log and stably sorts by descending priority; spec_order_exact/sorted/order_unique pin the spec down; stop_cuts/no_stop_runs_all give the propagation rule. The model is compared with the real EventDispatcher on all op sequences up to length 4 (quick) / 5 (thorough) over a 17-op alphabet plus random ones up to length 40.",
        "note": COMMON + "get_listeners() (all events) and get_listener_priority are outside the theorem and compared by the tie only. Listeners are distinct callables.",
    },
}
NOT_APPLICABLE = {}
