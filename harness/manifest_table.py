"""Per-property manifest entries (bin/mkmanifest turns this into MANIFEST.json)."""
NOTES = ("Machine-checked proof in Coq 8.16.1 about hand-written executable models, tied to /repo's working tree on every run by "
         "differential correspondence (extracted model vs real implementation on the same cases) plus an implementation-side oracle. "
         "See DESIGN.md.")
COMMON = ("Trusted: Coq kernel, ExtrOcamlBasic extraction + ocaml/driver.ml, the Python harness (generator, runner, oracle), CPython. "
          "The theorem speaks about the model; the correspondence run (exhaustive on the stated sub-domain, random beyond) ties it to the code. ")
CHECKS = {
    "C12": {
        "technique": "Coq refinement proof (dispatcher model refines registration-log spec, all op sequences) + exhaustive/random differential correspondence",
        "text": "Theorem dispatch_refines: for every sequence of registrations/dispatches/queries the dispatcher model (with its priority buckets and sort cache) answers every dispatch, get_listeners(e) and has_listeners exactly like a spec that keeps only the registration log and stably sorts by descending priority; spec_order_exact/sorted/order_unique pin the spec down; stop_cuts/no_stop_runs_all give the propagation rule. The model is compared with the real EventDispatcher on all op sequences up to length 4 (quick) / 5 (thorough) over a 17-op alphabet plus random ones up to length 40.",
        "note": COMMON + "get_listeners() (all events) and get_listener_priority are outside the theorem and compared by the tie only. Listeners are distinct callables.",
    },
}
CHECKS["C10"] = {
    "technique": "Coq proof of the gate law for all flag words (bit lemmas) and of every modelled entry point's gate path + exhaustive differential run over all public write paths found by reflection",
    "text": "Theorems gate_level (for every integer flag word and verbosity >= 0, _may_write = not quiet and verbosity >= lowest requested level), gate_iff (every text-writing entry point of Output/SectionOutput, decorated or not, emits exactly when the gate with the caller's flags allows), gate_monotone, quiet_silent. The tie is exhaustive: 26 entry points (Output, SectionOutput, IO and IO.section(), standard and error) x 5 formatter/stream kinds x quiet x 4 verbosities x 14 flag words, with the set of public writing methods re-discovered by reflection on every run (an unknown one is a violation).",
    "note": COMMON + "Which gate calls guard each method (Model/Gate.v, path) is a hand transcription validated by the exhaustive tie; a section does not inherit quiet/verbosity from its parent output in the code, the property is read per output object.",
}
CHECKS["C07"] = {
    "technique": "Coq proofs over all integer flag words (land/lor as bit tests, Bits.v) and of the int/bool text round trip (Decimal) + exhaustive differential run over 2^13/2^11 flag words, all short names over an 8-letter alphabet, boundary conversions",
    "text": "Theorems opt_accept_iff / arg_accept_iff (construction succeeds iff no documented contradiction, names well-formed with or without dash prefix, default fits the value mode), opt_normal_form / arg_normal_form (exactly one type, one name preference, value-less => no value and no default, multi-valued => requires a value and list default, normalisation only adds bits among 0,1,2,3,7), opt_rejects_with_value_error, conv_typed, conv_int_roundtrip (every integer), conv_bool_roundtrip - all for every integer flag word. The tie is exhaustive over all 2^13 option and 2^11 argument flag words x short name x default kind, all names of length <= 4 over an 8-character alphabet as long/short/alias/argument names, and ~230 boundary + seeded random conversion inputs for 4 types x nullable.",
    "note": COMMON + "Float values and the float text round trip are CPython's (floats are text in the model, compared by value in the harness); int()/float() grammars are modelled for ASCII digits (non-ASCII decimal digits are outside the claimed domain); conversion inputs are None/bool/int/str.",
}
CHECKS["C08"] = {
    "technique": "Coq proofs by induction over the fuelled scanner (termination/totality for all strings, whitespace split, quoting round trip for all expressible token lists, styles and separators) + exhaustive differential run over short strings and random token lists",
    "text": "Theorems tokenize_total (for every string the fuel length+2 suffices and a token list is returned), unquoted_split, roundtrip (every list of expressible tokens, every per-token quote style, every whitespace run before each token and trailing whitespace tokenises back to that list), option_tokens_before_ddash / without_ddash. Tie: all strings up to length 6/7 over {a, space, tab, ', \", backslash, -}, 20k/200k random token lists (all 29 whitespace code points, non-ASCII) in an expressible and an inexpressible stream, argv lists with '--' at every position, the str.isspace() table over the code-point range, and StringArgs vs ArgvArgs through the real parser.",
    "note": COMMON + "The indistinguishability of StringArgs and ArgvArgs for parser and resolver is checked by running both forms through DefaultArgsParser (testing); the theorem part is that both forms share tokens/option_tokens. expressible (Model/Tokenizer.v) is compared with the generator's own predicate on all strings up to length 5 over {a, backslash, ', \"}.",
}
NOT_APPLICABLE = {}
