"""Shared by C01/C02/C05 (and C03/C09): format descriptions, wire encodings, the real-parser runner."""
from hutil import S, unS, err, exc_code, enc_val

# Option flags
NO_VALUE, REQ_V, OPT_V, MULTI_V = 4, 8, 16, 32
O_STR, O_BOOL, O_INT, O_FLOAT, O_NULL = 128, 256, 512, 1024, 2048
# Argument flags
A_REQ, A_OPT, A_MULTI = 1, 2, 4
A_STR, A_BOOL, A_INT, A_FLOAT, A_NULL = 16, 32, 64, 128, 256


def opt(long, short=None, flags=0, default=None):
    return {"k": "o", "long": long, "short": short, "flags": flags, "default": default}


def arg(name, flags=0, default=None):
    return {"k": "a", "name": name, "flags": flags, "default": default}


def cname(name, aliases=()):
    return {"k": "c", "name": name, "aliases": list(aliases)}


def copt(long, short=None, aliases=()):
    return {"k": "co", "long": long, "short": short, "aliases": list(aliases)}


def wire_element(e):
    if e["k"] == "o":
        return [0, [S(e["long"]), [] if e["short"] is None else [S(e["short"])], e["flags"], enc_val(e["default"])]]
    if e["k"] == "a":
        return [2, [S(e["name"]), e["flags"], enc_val(e["default"])]]
    if e["k"] == "c":
        return [3, [S(e["name"]), [S(a) for a in e["aliases"]]]]
    la = [a for a in e["aliases"] if len(a) != 1]
    sa = [a for a in e["aliases"] if len(a) == 1]
    return [1, [S(e["long"]), [] if e["short"] is None else [S(e["short"])], [S(a) for a in la], [S(a) for a in sa]]]


def wire_levels(levels):
    return [[wire_element(e) for e in lvl] for lvl in levels]


def mk_element(e):
    from clikit.api.args.format import Option, Argument, CommandName, CommandOption
    if e["k"] == "o":
        d = e["default"]
        return Option(e["long"], e["short"], e["flags"], None, list(d) if isinstance(d, list) else d)
    if e["k"] == "a":
        d = e["default"]
        return Argument(e["name"], e["flags"], None, list(d) if isinstance(d, list) else d)
    if e["k"] == "c":
        return CommandName(e["name"], list(e["aliases"]))
    return CommandOption(e["long"], e["short"], list(e["aliases"]))


_FMT_CACHE = {}


def mk_format(levels):
    """levels: innermost base first; returns the ArgsFormat of the last level (cached per description)."""
    import json
    from clikit.api.args.format import ArgsFormat
    key = json.dumps(levels, sort_keys=True)
    if key not in _FMT_CACHE:
        base = None
        for lvl in levels:
            base = ArgsFormat([mk_element(e) for e in lvl], base)
        _FMT_CACHE[key] = base
    return _FMT_CACHE[key]


def items(d):
    return [[S(k), enc_val(v)] for k, v in d.items()]


def _res(fn):
    try:
        return [0, enc_val(fn())]
    except Exception as e:
        return err(e)


def observe_args(fmt, a, extra):
    oprobes = []
    for o in fmt.get_options().values():
        oprobes.append(o.long_name)
        if o.short_name:
            oprobes.append(o.short_name)
    oprobes += extra
    names = list(fmt.get_arguments().keys())
    aprobes = names + list(extra) + list(range(len(names) + 1))
    return [items(a.arguments(False)), items(a.arguments(True)), items(a.options(False)), items(a.options(True)),
            [[_res(lambda: a.option(n)), int(a.is_option_set(n))] for n in oprobes],
            [[_res(lambda: a.argument(r)), int(a.is_argument_set(r))] for r in aprobes]]


def parse_once(parser, fmt, tokens, lenient, extra):
    from clikit.args import ArgvArgs
    raw = ArgvArgs(["script"] + list(tokens))
    try:
        a = parser.parse(raw, fmt, lenient)
    except Exception as e:
        return err(e)
    return [0, observe_args(fmt, a, extra)]


# ---------------------------------------------------------------- a pool of small formats
OPTS = {
    "verbose": opt("verbose", "v", NO_VALUE),
    "quiet": opt("quiet", None, NO_VALUE),
    "opt": opt("opt", "o", REQ_V),
    "num": opt("num", "n", REQ_V | O_INT),
    "flt": opt("flt", "f", REQ_V | O_FLOAT),
    "bool": opt("bool", "b", REQ_V | O_BOOL),
    "nul": opt("nul", "u", REQ_V | O_NULL),
    "may": opt("may", "m", OPT_V, "dflt"),
    "mayn": opt("mayn", None, OPT_V | O_INT),
    "mayi": opt("mayi", "i", OPT_V | O_INT, 7),
    "mul": opt("mul", "l", MULTI_V),
    "muli": opt("muli", None, MULTI_V | O_INT),
    "mayb": opt("mayb", "y", OPT_V | O_BOOL | O_NULL),
}
ARGS = {
    "a1": arg("a1", A_REQ),
    "a2": arg("a2", A_OPT, "d2"),
    "ai": arg("ai", A_REQ | A_INT),
    "an": arg("an", A_OPT | A_NULL),
    "am": arg("am", A_MULTI),
    "ami": arg("ami", A_MULTI | A_INT | A_REQ),
    "ao": arg("ao", A_OPT | A_FLOAT, 1.5),
    "cmd11": arg("cmd11", A_REQ),       # collides with the parser's first pseudo-argument name
}
CN1 = [cname("server", ["srv"])]
CN2 = [cname("server", ["srv"]), cname("add", ["a"])]


def F(opts=(), args=(), cns=(), base=None):
    lvl = list(cns) + [OPTS[o] for o in opts] + [ARGS[a] for a in args]
    return ([] if base is None else list(base)) + [lvl]


SMALL_FORMATS = [
    F(),                                             # nothing at all
    F(["verbose"]),
    F(["opt"]), F(["num"]), F(["flt"]), F(["bool"]), F(["nul"]), F(["may"]), F(["mayn"]), F(["mayi"]), F(["mul"]), F(["muli"]), F(["mayb"]),
    F([], ["a1"]), F([], ["a2"]), F([], ["ai"]), F([], ["an"]), F([], ["am"]), F([], ["ami"]), F([], ["a1", "a2"]), F([], ["a1", "am"]),
    F(["verbose", "opt"], ["a1"]), F(["verbose", "may"], ["a1", "a2"]), F(["num", "mul"], ["am"]), F(["mayn", "quiet"], ["ai"]),
    F(["verbose", "quiet", "opt"]), F(["may", "mul"], ["a2"]), F(["verbose", "mayi"], ["a1", "ao"]),
    F(["verbose"], ["a1"], CN1), F(["opt"], ["a1", "a2"], CN1), F([], ["a1"], CN2), F(["verbose", "may"], ["am"], CN2), F([], [], CN1),
    F(["opt"], ["a2"], [], base=F(["verbose"], ["a1"], CN1)),
    F(["mul"], ["am"], [cname("add", ["a"])], base=F(["verbose", "quiet"], ["a1"], CN1)),
    F(["flt", "bool"], ["a1", "ao"]), F(["nul", "mayb"], ["an"]), F(["verbose", "num", "may", "mul", "quiet"], ["a1", "a2", "am"]),
    F(["muli", "mayn"], ["ami"]), F(["verbose"], ["cmd11"], CN1),
]


def fmt_options(levels):
    out, seen = [], set()
    for lvl in reversed(levels):
        for e in lvl:
            if e["k"] == "o" and e["long"] not in seen:
                seen.add(e["long"])
                out.append(e)
    return out


def fmt_args(levels):
    return [e for lvl in levels for e in lvl if e["k"] == "a"]


def fmt_cnames(levels):
    return [e for lvl in levels for e in lvl if e["k"] == "c"]


# ---------------------------------------------------------------- formats drawn from rng (the quantifier of C01/C02/C05)
# 0-5 options over value mode x type x nullable x short-name presence x default kind (none / truthy / falsy / a value of
# another type), 0-4 arguments (required / optional / multi-valued, typed, nullable, with defaults), 0-2 command names with
# 0-2 aliases each, 0-2 base levels.  SMALL_FORMATS above stays as it is (corpus cases and C03/C09 refer to it by index);
# cases over a generated format carry the description itself ("lv").
OPT_NAMES = ["verbose", "quiet", "opt", "num", "flt", "bool", "nul", "may", "mul", "force", "all", "dry-run", "level", "tag", "out", "yes"]
ARG_NAMES = ["a1", "a2", "a3", "a4", "src", "dst", "cmd11", "cmd12", "cmd21", "cmd22"]
CN_POOL = [("server", ["srv", "s"]), ("add", ["a", "new"]), ("remote", ["r", "rem"]), ("list", ["ls", "l"])]
O_TYPE = {"str": O_STR, "bool": O_BOOL, "int": O_INT, "float": O_FLOAT}
A_TYPE = {"str": A_STR, "bool": A_BOOL, "int": A_INT, "float": A_FLOAT}
TRUTHY = {"str": "dflt", "int": 7, "float": 1.5, "bool": True}
FALSY = {"str": "", "int": 0, "float": 0.0, "bool": False}
# a default of another Python type than the declared one (the converter sees it when an optional value is omitted)
CROSS = {"str": [3, True], "int": ["7", True], "float": [2, "2.5"], "bool": [1, 0, "yes"]}


def rand_default(rng, mode, typ):
    if mode == "flag":
        return None
    if mode == "multi":
        return rng.choice([None, None, [], [TRUTHY[typ]], [FALSY[typ], TRUTHY[typ]]])
    pool = [None, TRUTHY[typ], FALSY[typ], FALSY[typ]]
    if mode == "opt":
        pool = pool + [rng.choice(CROSS[typ])]
    return rng.choice(pool)


def rand_opt(rng, long, short, mode=None):
    if mode is None:
        mode = rng.choice(["flag", "flag", "req", "req", "opt", "opt", "multi"])
    typ = rng.choice(["str", "str", "int", "float", "bool"])
    flags = {"flag": rng.choice([NO_VALUE, NO_VALUE, 0]), "req": rng.choice([REQ_V, REQ_V, REQ_V, REQ_V | OPT_V]), "opt": OPT_V,
             "multi": rng.choice([MULTI_V, MULTI_V | REQ_V])}[mode]
    if mode == "flag" and rng.random() < 0.75:
        typ = "str"
    flags |= 0 if (typ == "str" and rng.random() < 0.5) else O_TYPE[typ]
    if rng.random() < (0.15 if mode == "flag" else 0.3):
        flags |= O_NULL
    if rng.random() < 0.15:
        flags |= (2 if short and rng.random() < 0.5 else 1)          # PREFER_SHORT_NAME / PREFER_LONG_NAME
    return opt(long, short, flags, rand_default(rng, mode, typ))


def rand_arg(rng, name, kind):
    """kind: req | opt | multi | reqmulti"""
    typ = rng.choice(["str", "str", "int", "float", "bool"])
    flags = {"req": A_REQ, "opt": rng.choice([A_OPT, A_OPT, 0]), "multi": rng.choice([A_MULTI, A_MULTI | A_OPT]), "reqmulti": A_MULTI | A_REQ}[kind]
    flags |= 0 if (typ == "str" and rng.random() < 0.5) else A_TYPE[typ]
    if rng.random() < 0.3:
        flags |= A_NULL
    default = None
    if kind == "opt":
        default = rng.choice([None, TRUTHY[typ], FALSY[typ], FALSY[typ]])
    elif kind == "multi":
        default = rng.choice([None, [], [TRUTHY[typ]], [FALSY[typ], TRUTHY[typ]]])
    return arg(name, flags, default)


def rand_levels(rng, nopts=None, nargs=None, ncn=None, nbase=None, short_flags=0, short_valued=0):
    """a valid format description (innermost base first).  short_flags / short_valued: at least that many flags / valued
    options with a short name (so that groups '-abc', '-abcoVAL' can be written)"""
    nopts = rng.randint(0, 5) if nopts is None else nopts
    nopts = max(nopts, short_flags + short_valued)
    nargs = rng.randint(0, 4) if nargs is None else nargs
    ncn = rng.choice([0, 0, 1, 1, 2]) if ncn is None else ncn
    nbase = rng.choice([0, 0, 0, 1, 1, 2]) if nbase is None else nbase
    longs = rng.sample(OPT_NAMES, nopts)
    letters = list("abcdefghijklmnopqrstuvwxyzVQN")
    used = set()
    opts = []
    for i, ln in enumerate(longs):
        forced = i < short_flags + short_valued
        mode = "flag" if i < short_flags else (rng.choice(["req", "req", "opt", "multi"]) if i < short_flags + short_valued else None)
        short = None
        if forced or rng.random() < 0.65:
            short = ln[0] if ln[0] not in used and rng.random() < 0.8 else rng.choice([c for c in letters if c not in used])
            used.add(short)
        opts.append(rand_opt(rng, ln, short, mode))
    rng.shuffle(opts)
    # arguments: required ones, then optional ones, then possibly a multi-valued one
    names = rng.sample(ARG_NAMES[:6], nargs) if rng.random() < 0.85 else rng.sample(ARG_NAMES, nargs)
    has_multi = nargs > 0 and rng.random() < 0.45
    m = nargs - (1 if has_multi else 0)
    k_req = rng.randint(0, m)
    kinds = ["req"] * k_req + ["opt"] * (m - k_req)
    if has_multi:
        kinds.append("reqmulti" if k_req == m and rng.random() < 0.4 else "multi")
    args = [rand_arg(rng, n, k) for n, k in zip(names, kinds)]
    # command names: 0-2 aliases each; with a base level the derived format may repeat a command name of the base (the
    # builder accepts that - option and argument names of a base can not be repeated, the builder rejects it)
    cns = []
    for nm, als in rng.sample(CN_POOL, ncn):
        cns.append(cname(nm, als[:rng.choice([0, 1, 1, 2])]))
    if ncn == 2 and nbase > 0 and rng.random() < 0.15:
        cns[1] = cname(cns[0]["name"], [a + "x" for a in cns[0]["aliases"]] or ["again"])
    # distribute over the levels: command names and arguments are cut in order (base first), options go anywhere
    nl = nbase + 1
    def cuts(n):
        c = sorted(rng.randint(0, n) for _ in range(nbase))
        return [0] + c + [n]
    cc, ca = cuts(len(cns)), cuts(len(args))
    if nbase and cns and cc[1] == 0 and rng.random() < 0.6:
        cc[1] = 1                                                  # usually the base holds the first command name
        cc = sorted(cc)
    where = [rng.randrange(nl) for _ in opts]
    levels = []
    for li in range(nl):
        levels.append(cns[cc[li]:cc[li + 1]] + [o for o, w in zip(opts, where) if w == li] + args[ca[li]:ca[li + 1]])
    return levels


def fmt_shape(levels):
    """short text for describe()"""
    def one(e):
        if e["k"] == "o":
            return "--%s%s:%d%s" % (e["long"], "/-" + e["short"] if e["short"] else "", e["flags"], "" if e["default"] is None else "=%r" % (e["default"],))
        if e["k"] == "a":
            return "%s:%d%s" % (e["name"], e["flags"], "" if e["default"] is None else "=%r" % (e["default"],))
        if e["k"] == "c":
            return "%s%s" % (e["name"], "|" + "|".join(e["aliases"]) if e["aliases"] else "")
        return "co:" + e["long"]
    return " < ".join("[" + " ".join(one(e) for e in lvl) + "]" for lvl in levels)


_FMT_BY_INDEX = {}


def case_format(c):
    """the ArgsFormat of a C01/C02 case (cached)"""
    if "lv" in c:
        return mk_format(c["lv"])
    if c["f"] not in _FMT_BY_INDEX:
        _FMT_BY_INDEX[c["f"]] = mk_format(SMALL_FORMATS[c["f"]])
    return _FMT_BY_INDEX[c["f"]]


def case_levels(c):
    """the format description of a C01/C02 case: carried by the case ("lv") or an index into SMALL_FORMATS ("f")"""
    return c["lv"] if "lv" in c else SMALL_FORMATS[c["f"]]
