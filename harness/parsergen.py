"""Shared by C01/C02/C05 (and C03/C09): format descriptions, wire encodings, the real-parser runner."""
from hutil import S, unS, err, exc_code, enc_val

# Option flags
NO_VALUE, REQ_V, OPT_V, MULTI_V = 4, 8, 16, 32
O_STR, O_BOOL, O_INT, O_FLOAT, O_NULL = 128, 256, 512, 1024, 2048
# Argument flags
A_REQ, A_OPT, A_MULTI = 1, 2, 4
A_STR, A_BOOL, A_INT, A_FLOAT, A_NULL = 16, 32, 64, 128, 256


def opt(long, short=None, flags=0, default=None):
    return {"k": "o", "long": long, "short": short, "flags": flags, "default": default}


def arg(name, flags=0, default=None):
    return {"k": "a", "name": name, "flags": flags, "default": default}


def cname(name, aliases=()):
    return {"k": "c", "name": name, "aliases": list(aliases)}


def copt(long, short=None, aliases=()):
    return {"k": "co", "long": long, "short": short, "aliases": list(aliases)}


def wire_element(e):
    if e["k"] == "o":
        return [0, [S(e["long"]), [] if e["short"] is None else [S(e["short"])], e["flags"], enc_val(e["default"])]]
    if e["k"] == "a":
        return [2, [S(e["name"]), e["flags"], enc_val(e["default"])]]
    if e["k"] == "c":
        return [3, [S(e["name"]), [S(a) for a in e["aliases"]]]]
    la = [a for a in e["aliases"] if len(a) != 1]
    sa = [a for a in e["aliases"] if len(a) == 1]
    return [1, [S(e["long"]), [] if e["short"] is None else [S(e["short"])], [S(a) for a in la], [S(a) for a in sa]]]


def wire_levels(levels):
    return [[wire_element(e) for e in lvl] for lvl in levels]


def mk_element(e):
    from clikit.api.args.format import Option, Argument, CommandName, CommandOption
    if e["k"] == "o":
        d = e["default"]
        return Option(e["long"], e["short"], e["flags"], None, list(d) if isinstance(d, list) else d)
    if e["k"] == "a":
        d = e["default"]
        return Argument(e["name"], e["flags"], None, list(d) if isinstance(d, list) else d)
    if e["k"] == "c":
        return CommandName(e["name"], list(e["aliases"]))
    return CommandOption(e["long"], e["short"], list(e["aliases"]))


_FMT_CACHE = {}


def mk_format(levels):
    """levels: innermost base first; returns the ArgsFormat of the last level (cached per description)."""
    import json
    from clikit.api.args.format import ArgsFormat
    key = json.dumps(levels, sort_keys=True)
    if key not in _FMT_CACHE:
        base = None
        for lvl in levels:
            base = ArgsFormat([mk_element(e) for e in lvl], base)
        _FMT_CACHE[key] = base
    return _FMT_CACHE[key]


def items(d):
    return [[S(k), enc_val(v)] for k, v in d.items()]


def _res(fn):
    try:
        return [0, enc_val(fn())]
    except Exception as e:
        return err(e)


def observe_args(fmt, a, extra):
    oprobes = []
    for o in fmt.get_options().values():
        oprobes.append(o.long_name)
        if o.short_name:
            oprobes.append(o.short_name)
    oprobes += extra
    names = list(fmt.get_arguments().keys())
    aprobes = names + list(extra) + list(range(len(names) + 1))
    return [items(a.arguments(False)), items(a.arguments(True)), items(a.options(False)), items(a.options(True)),
            [[_res(lambda: a.option(n)), int(a.is_option_set(n))] for n in oprobes],
            [[_res(lambda: a.argument(r)), int(a.is_argument_set(r))] for r in aprobes]]


def parse_once(parser, fmt, tokens, lenient, extra):
    from clikit.args import ArgvArgs
    raw = ArgvArgs(["script"] + list(tokens))
    try:
        a = parser.parse(raw, fmt, lenient)
    except Exception as e:
        return err(e)
    return [0, observe_args(fmt, a, extra)]


# ---------------------------------------------------------------- a pool of small formats
OPTS = {
    "verbose": opt("verbose", "v", NO_VALUE),
    "quiet": opt("quiet", None, NO_VALUE),
    "opt": opt("opt", "o", REQ_V),
    "num": opt("num", "n", REQ_V | O_INT),
    "flt": opt("flt", "f", REQ_V | O_FLOAT),
    "bool": opt("bool", "b", REQ_V | O_BOOL),
    "nul": opt("nul", "u", REQ_V | O_NULL),
    "may": opt("may", "m", OPT_V, "dflt"),
    "mayn": opt("mayn", None, OPT_V | O_INT),
    "mayi": opt("mayi", "i", OPT_V | O_INT, 7),
    "mul": opt("mul", "l", MULTI_V),
    "muli": opt("muli", None, MULTI_V | O_INT),
    "mayb": opt("mayb", "y", OPT_V | O_BOOL | O_NULL),
}
ARGS = {
    "a1": arg("a1", A_REQ),
    "a2": arg("a2", A_OPT, "d2"),
    "ai": arg("ai", A_REQ | A_INT),
    "an": arg("an", A_OPT | A_NULL),
    "am": arg("am", A_MULTI),
    "ami": arg("ami", A_MULTI | A_INT | A_REQ),
    "ao": arg("ao", A_OPT | A_FLOAT, 1.5),
    "cmd11": arg("cmd11", A_REQ),       # collides with the parser's first pseudo-argument name
}
CN1 = [cname("server", ["srv"])]
CN2 = [cname("server", ["srv"]), cname("add", ["a"])]


def F(opts=(), args=(), cns=(), base=None):
    lvl = list(cns) + [OPTS[o] for o in opts] + [ARGS[a] for a in args]
    return ([] if base is None else list(base)) + [lvl]


SMALL_FORMATS = [
    F(),                                             # nothing at all
    F(["verbose"]),
    F(["opt"]), F(["num"]), F(["flt"]), F(["bool"]), F(["nul"]), F(["may"]), F(["mayn"]), F(["mayi"]), F(["mul"]), F(["muli"]), F(["mayb"]),
    F([], ["a1"]), F([], ["a2"]), F([], ["ai"]), F([], ["an"]), F([], ["am"]), F([], ["ami"]), F([], ["a1", "a2"]), F([], ["a1", "am"]),
    F(["verbose", "opt"], ["a1"]), F(["verbose", "may"], ["a1", "a2"]), F(["num", "mul"], ["am"]), F(["mayn", "quiet"], ["ai"]),
    F(["verbose", "quiet", "opt"]), F(["may", "mul"], ["a2"]), F(["verbose", "mayi"], ["a1", "ao"]),
    F(["verbose"], ["a1"], CN1), F(["opt"], ["a1", "a2"], CN1), F([], ["a1"], CN2), F(["verbose", "may"], ["am"], CN2), F([], [], CN1),
    F(["opt"], ["a2"], [], base=F(["verbose"], ["a1"], CN1)),
    F(["mul"], ["am"], [cname("add", ["a"])], base=F(["verbose", "quiet"], ["a1"], CN1)),
    F(["flt", "bool"], ["a1", "ao"]), F(["nul", "mayb"], ["an"]), F(["verbose", "num", "may", "mul", "quiet"], ["a1", "a2", "am"]),
    F(["muli", "mayn"], ["ami"]), F(["verbose"], ["cmd11"], CN1),
]


def fmt_options(levels):
    out, seen = [], set()
    for lvl in reversed(levels):
        for e in lvl:
            if e["k"] == "o" and e["long"] not in seen:
                seen.add(e["long"])
                out.append(e)
    return out


def fmt_args(levels):
    return [e for lvl in levels for e in lvl if e["k"] == "a"]


def fmt_cnames(levels):
    return [e for lvl in levels for e in lvl if e["k"] == "c"]
