#!/venv/bin/python
"""translate_c05.py [--src DIR]: the fact about the SOURCE that C05's model rests on.

Model/Parser.v's `parse_on st0 f lenient tokens` starts from `ps_empty` whatever `st0` is (Props/C05.v:
`parse_resets_at_entry : parse_on st0 = parse_from ps_empty`, where `parse_from st` is the same body run on a parser
object whose scratch maps hold `st`), so C05's theorems (`parse_ignores_scratch`, `reuse_eq_fresh`) speak for the code
exactly as long as DefaultArgsParser.parse begins by resetting BOTH scratch maps and the parser object carries no other
state.  `reuse_unfixed_refuted` shows what happens otherwise (the behaviour before the repair: only `_arguments` reset).
This check reads clikit/args/default_args_parser.py with `ast` and fails (exit 2 / Unsupported) unless
  * class DefaultArgsParser has a method `parse(self, args, fmt, lenient=False)`;
  * its first two statements (after an optional docstring) are `self._arguments = OrderedDict()` and
    `self._options = OrderedDict()` (either order) - plain assignments of a call without arguments;
  * no method of the class reads or writes an attribute of `self` other than `_arguments` / `_options` (any other state
    kept on the parser object is outside the model), calls of the class's own methods excepted; no class-level
    statements, no `global` / `nonlocal`;
  * `_arguments` / `_options` are rebound nowhere else but in `__init__` (to OrderedDict()).
It is run by harness/props/C05.py in every worker of every `bin/check C05` (on the file the imported class was read
from): a failure is reported as its own oracle class next to whatever the histories show.
Fail-closed: anything it does not recognise is an error."""
import ast, os, sys

HERE = os.path.dirname(os.path.abspath(__file__))
ROOT = os.path.dirname(HERE)


class Unsupported(Exception):
    pass


def _is_self_attr(node, names=None):
    return isinstance(node, ast.Attribute) and isinstance(node.value, ast.Name) and node.value.id == "self" and \
        (names is None or node.attr in names)


def _is_fresh_dict(node):
    return isinstance(node, ast.Call) and isinstance(node.func, ast.Name) and node.func.id == "OrderedDict" and not node.args and not node.keywords


def check(src=None, path=None):
    """src: the directory holding the clikit package (or path: the file itself) -> the attributes reset at entry, in order"""
    if path is None:
        path = os.path.join(src, "clikit", "args", "default_args_parser.py")
    tree = ast.parse(open(path).read(), path)
    cls = [n for n in tree.body if isinstance(n, ast.ClassDef) and n.name == "DefaultArgsParser"]
    if len(cls) != 1:
        raise Unsupported("class DefaultArgsParser not found (or defined twice) in %s" % path)
    cls = cls[0]
    methods = {n.name: n for n in cls.body if isinstance(n, ast.FunctionDef)}
    if any(not isinstance(n, (ast.FunctionDef, ast.Expr)) for n in cls.body):
        raise Unsupported("DefaultArgsParser has class-level statements other than methods and a docstring (class-level state?)")
    if "parse" not in methods:
        raise Unsupported("DefaultArgsParser.parse not found")
    parse = methods["parse"]
    params = [a.arg for a in parse.args.args]
    if params != ["self", "args", "fmt", "lenient"] or parse.args.vararg or parse.args.kwarg or parse.args.kwonlyargs:
        raise Unsupported("DefaultArgsParser.parse has parameters %r" % (params,))
    body = list(parse.body)
    if body and isinstance(body[0], ast.Expr) and isinstance(body[0].value, ast.Constant) and isinstance(body[0].value.value, str):
        body = body[1:]
    reset = []
    for st in body[:2]:
        if not (isinstance(st, ast.Assign) and len(st.targets) == 1 and _is_self_attr(st.targets[0], ("_arguments", "_options"))
                and _is_fresh_dict(st.value)):
            raise Unsupported("line %d: DefaultArgsParser.parse does not start by assigning OrderedDict() to self._arguments and self._options"
                              % getattr(st, "lineno", parse.lineno))
        reset.append(st.targets[0].attr)
    if sorted(reset) != ["_arguments", "_options"]:
        raise Unsupported("DefaultArgsParser.parse resets %r at entry, not both scratch maps" % (reset,))
    # no other state on the object; the scratch maps are rebound only in __init__ and at the start of parse
    for name, fn in methods.items():
        for node in ast.walk(fn):
            if _is_self_attr(node):
                if node.attr in ("_arguments", "_options"):
                    if isinstance(node.ctx, (ast.Store, ast.Del)):
                        ok = (name == "__init__") or (name == "parse" and node.lineno in (body[0].lineno, body[1].lineno))
                        if not ok:
                            raise Unsupported("line %d: %s rebinds self.%s" % (node.lineno, name, node.attr))
                else:
                    # a method call self._xyz(...) is fine; any other attribute is object state outside the model
                    par_ok = any(isinstance(p, ast.Call) and p.func is node for p in ast.walk(fn))
                    if not par_ok or node.attr not in methods:
                        raise Unsupported("line %d: %s uses self.%s - state on the parser object that the model does not have" % (node.lineno, name, node.attr))
            if isinstance(node, (ast.Global, ast.Nonlocal)):
                raise Unsupported("line %d: %s declares global / nonlocal names" % (node.lineno, name))
    if "__init__" in methods:
        for st in methods["__init__"].body:
            if isinstance(st, ast.Expr) and isinstance(st.value, ast.Constant):
                continue
            if not (isinstance(st, ast.Assign) and len(st.targets) == 1 and _is_self_attr(st.targets[0], ("_arguments", "_options")) and _is_fresh_dict(st.value)):
                raise Unsupported("line %d: DefaultArgsParser.__init__ does more than create the two scratch maps" % st.lineno)
    return reset


def main(argv):
    src = os.environ.get("CLIKIT_SRC", "/repo/src")
    if "--src" in argv:
        src = argv[argv.index("--src") + 1]
    try:
        reset = check(src)
    except (Unsupported, OSError, SyntaxError) as e:
        sys.stderr.write("translate_c05: %s\n" % e)
        return 2
    print("DefaultArgsParser.parse resets at entry: %s; no other state on the parser object" % ", ".join("self." + r for r in reset))
    return 0


if __name__ == "__main__":
    sys.exit(main(sys.argv[1:]))
