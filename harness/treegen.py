"""Command-tree descriptions shared by C03 / C09 / C13 / C17: generation, wire form, real application."""
from hutil import S, unS, err, exc_code
import parsergen as G


def cmd(name, aliases=(), default=False, anonymous=False, enabled=True, hidden=False, lenient=False,
        opts=(), args=(), subs=(), desc=None):
    return {"name": name, "aliases": list(aliases), "default": bool(default or anonymous), "anonymous": bool(anonymous),
            "enabled": bool(enabled), "hidden": bool(hidden), "lenient": bool(lenient), "opts": list(opts), "args": list(args),
            "subs": list(subs), "desc": desc}


def wire_cmd(c):
    return [S(c["name"]), [S(a) for a in c["aliases"]], int(c["default"]), int(c["anonymous"]), int(c["enabled"]),
            int(c["lenient"]), [G.wire_element(o)[1] for o in c["opts"]], [G.wire_element(a)[1] for a in c["args"]],
            [wire_cmd(s) for s in c["subs"]]]


def wire_app(t):
    return [[G.wire_element(o)[1] for o in t["opts"]], [G.wire_element(a)[1] for a in t["args"]], [wire_cmd(c) for c in t["cmds"]]]


def _fill(cc, c, handler=None):
    for a in c["aliases"]:
        cc.add_alias(a)
    if c["anonymous"]:
        cc.anonymous()
    elif c["default"]:
        cc.default()
    if not c["enabled"]:
        cc.disable()
    if c["hidden"]:
        cc.hide()
    if c["lenient"]:
        cc.enable_lenient_args_parsing()
    if c.get("desc"):
        cc.set_description(c["desc"])
    for o in c["opts"]:
        d = o["default"]
        cc.add_option(o["long"], o["short"], o["flags"], o.get("desc"), list(d) if isinstance(d, list) else d)
    for a in c["args"]:
        d = a["default"]
        cc.add_argument(a["name"], a["flags"], a.get("desc"), list(d) if isinstance(d, list) else d)
    if handler is not None:
        cc.set_handler(handler(c))
    for s in c["subs"]:
        sc = cc.create_sub_command(s["name"])
        _fill(sc, s, handler)


def mk_config(t, config=None, handler=None):
    from clikit.api.config.application_config import ApplicationConfig
    if config is None:
        from clikit.resolver.default_resolver import DefaultResolver
        config = ApplicationConfig("app", "1.0")
        config.set_command_resolver(DefaultResolver())
    config.set_catch_exceptions(False)
    config.set_terminate_after_run(False)
    for o in t["opts"]:
        d = o["default"]
        config.add_option(o["long"], o["short"], o["flags"], o.get("desc"), list(d) if isinstance(d, list) else d)
    for a in t["args"]:
        config.add_argument(a["name"], a["flags"], a.get("desc"), a["default"])
    for c in t["cmds"]:
        cc = config.create_command(c["name"])
        _fill(cc, c, handler)
    return config


def mk_app(t, config=None, handler=None):
    from clikit import ConsoleApplication
    return ConsoleApplication(mk_config(t, config, handler))


# ---------------------------------------------------------------- generation
NAMES = ["server", "add", "list"]
ALIASES = {"server": ["srv"], "add": ["a"], "list": ["ls"]}
VERBOSE = G.opt("verbose", "v", G.NO_VALUE)
# a global flag whose long and short names coincide with command aliases ("ls" of list, "a" of add):
# option tokens must never be read as command names
LSFLAG = G.opt("ls", "a", G.NO_VALUE)


def rand_elements(rng, used_opts, used_args, depth):
    opts, args = [], []
    pool = [("opt", "o", G.REQ_V, None), ("num", "n", G.REQ_V | G.O_INT, None), ("may", "m", G.OPT_V, "dflt"),
            ("flag", "f", G.NO_VALUE, None), ("mul", "l", G.MULTI_V, None)]
    rng.shuffle(pool)
    for (l, s, fl, d) in pool[:rng.randint(0, 2)]:
        if l not in used_opts:
            used_opts.add(l)
            opts.append(G.opt(l, s, fl, d))
    apool = [("a%d" % depth, G.A_REQ, None), ("b%d" % depth, G.A_OPT, "dv"), ("m%d" % depth, G.A_MULTI, None)]
    n = rng.randint(0, 2)
    kinds = sorted(rng.sample(range(3), n))
    # required before optional before multi keeps the order rules; only add what the base allows
    for k in kinds:
        nm, fl, d = apool[k]
        if used_args.get("multi"):
            break
        if fl & G.A_REQ and used_args.get("optional"):
            continue
        if fl & G.A_MULTI:
            used_args["multi"] = True
        if not (fl & G.A_REQ):
            used_args["optional"] = True
        args.append(G.arg(nm, fl, d))
    return opts, args


def rand_cmd(rng, name, depth, used_opts, used_args, maxdepth):
    used_opts = set(used_opts)
    used_args = dict(used_args)
    opts, args = rand_elements(rng, used_opts, used_args, depth)
    r = rng.random()
    c = cmd(name, ALIASES.get(name, []) if rng.random() < 0.7 else [], default=r < 0.25, anonymous=r < 0.1,
            enabled=rng.random() > 0.12, hidden=rng.random() < 0.15, lenient=rng.random() < 0.08, opts=opts, args=args)
    if depth < maxdepth:
        k = rng.randint(0, 3)
        names = rng.sample(NAMES + ["run"], k)
        c["subs"] = [rand_cmd(rng, n, depth + 1, used_opts, used_args, maxdepth) for n in names]
    return c


def rand_tree(rng, maxdepth=2, distinct=True):
    k = rng.randint(1, 3)
    names = rng.sample(NAMES + ["run"], k)
    t = {"opts": [VERBOSE, LSFLAG], "args": [], "cmds": [rand_cmd(rng, n, 1, {"verbose", "ls"}, {}, maxdepth) for n in names]}
    if not distinct and t["cmds"]:
        # an alias that collides with a sibling's name (the code does not reject it)
        t["cmds"][0]["aliases"] = list(t["cmds"][0]["aliases"]) + [t["cmds"][-1]["name"]]
    return t


def tree_tokens(t):
    """names and aliases occurring anywhere in the tree, known option spellings"""
    names, opts = [], []

    def go(c):
        for n in [c["name"]] + c["aliases"]:
            if n not in names:
                names.append(n)
        for o in c["opts"]:
            opts.append(o)
        for s in c["subs"]:
            go(s)
    for c in t["cmds"]:
        go(c)
    return names, opts


def siblings_distinct(cmds):
    seen = set()
    for c in cmds:
        if not c["enabled"]:
            continue
        for n in [c["name"]] + c["aliases"]:
            if n in seen:
                return False
            seen.add(n)
    return all(siblings_distinct(c["subs"]) for c in cmds if c["enabled"])


# ---------------------------------------------------------------- collisions the code accepts, named paths
COLLISION_KINDS = ["alias-is-later-name", "alias-is-earlier-name", "alias-is-alias", "duplicate-name"]


def _levels(t):
    """every sibling list of the tree with >= 2 commands: (depth, list)"""
    out = []

    def go(cs, depth):
        if len(cs) >= 2:
            out.append((depth, cs))
        for c in cs:
            go(c["subs"], depth + 1)
    go(t["cmds"], 1)
    return out


def collide(rng, t, kind, min_depth=2, max_depth=99):
    """Makes two named, enabled siblings of `t` (at depth >= min_depth; depth 1 = the application's own commands) collide in
    one of COLLISION_KINDS; returns the depth used or None when the tree has no such level.  Console applications validate
    only the NAME of a new top-level command against the names and aliases already there; Command.add_sub_command
    validates nothing ("TODO: Validate command") - so every kind is accepted below the top level, and at the top level
    the kind "alias-is-earlier-name" / "alias-is-alias" is."""
    lv = [(d, cs) for d, cs in _levels(t) if min_depth <= d <= max_depth]
    if not lv:
        return None
    d, cs = rng.choice(lv)
    i, j = sorted(rng.sample(range(len(cs)), 2))
    a, b = cs[i], cs[j]
    for x in (a, b):
        x["enabled"] = True
        if x["anonymous"]:
            x["anonymous"] = False
    if kind == "alias-is-later-name":
        a["aliases"] = list(a["aliases"]) + [b["name"]]
    elif kind == "alias-is-earlier-name":
        b["aliases"] = list(b["aliases"]) + [a["name"]]
    elif kind == "alias-is-alias":
        al = (a["aliases"] or b["aliases"] or ["x"])[0]
        for x in (a, b):
            if al not in x["aliases"]:
                x["aliases"] = list(x["aliases"]) + [al]
    elif kind == "duplicate-name":
        b["name"] = a["name"]
    else:
        raise ValueError(kind)
    return d


def rand_tree_colliding(rng, maxdepth=2, kind=None, min_depth=2, max_depth=99):
    """a random tree with one sibling collision of the given kind at a depth in min_depth..max_depth (see `collide`)"""
    kind = kind or rng.choice(COLLISION_KINDS)
    for _ in range(200):
        t = rand_tree(rng, maxdepth, True)
        if collide(rng, t, kind, min_depth, max_depth) is not None:
            return t
    raise RuntimeError("no tree with two siblings at depth >= %d" % min_depth)


def rand_tree_depth(rng, depth=3):
    """a random tree that has at least one enabled, named path of `depth` commands"""
    for _ in range(500):
        t = rand_tree(rng, depth, True)
        if any(len(p) >= depth for p, _ in named_paths(t)):
            return t
    raise RuntimeError("no tree of depth %d" % depth)


def named_paths(t):
    """every path of enabled, named commands: (list of names, list of the command dicts on it)"""
    out = []

    def go(c, pre, nodes):
        if not c["enabled"] or c["anonymous"]:
            return
        p, n = pre + [c["name"]], nodes + [c]
        out.append((p, n))
        for s in c["subs"]:
            go(s, p, n)
    for c in t["cmds"]:
        go(c, [], [])
    return out
