"""An independent character-level terminal emulator (infinite height, deferred auto-wrap) for the oracles of C15/C16/C19."""
import re

# an SGR sequence (ESC [ params m, also with one parameter) is tried first: it occupies no cell (Base/Term.v: Sgr)
_TOK = re.compile(r"\x1b\[[0-9;]*m|\x1b\[(\d*)([A-Za-z])|.", re.S)


class Term(object):
    def __init__(self, width):
        self.w = width
        self.rows = [[]]
        self.r = 0
        self.c = 0

    def _row(self, r):
        while len(self.rows) <= r:
            self.rows.append([])
        return self.rows[r]

    def put(self, ch):
        if self.c == self.w:
            self.r += 1
            self.c = 0
        row = self._row(self.r)
        while len(row) < self.c:
            row.append(" ")
        if len(row) == self.c:
            row.append(ch)
        else:
            row[self.c] = ch
        self.c += 1

    def feed(self, data):
        for m in _TOK.finditer(data):
            t = m.group(0)
            if t == "\n":
                self.r += 1
                self.c = 0
                self._row(self.r)
            elif t == "\r":
                self.c = 0
            elif t.startswith("\x1b["):
                if m.group(2) is None:
                    continue  # SGR: the look of the next cells only
                n, k = m.group(1), m.group(2)
                if k == "A":
                    self.r = max(0, self.r - int(n or "1"))
                elif k == "J":
                    del self.rows[self.r + 1:]
                    row = self._row(self.r)
                    del row[self.c:]
                elif k == "K":
                    row = self._row(self.r)
                    if n == "2":
                        del row[:]
                    else:
                        del row[self.c:]
                elif k == "G":
                    self.c = max(0, int(n or "1") - 1)
                else:
                    raise ValueError("unknown control sequence %r" % t)
            else:
                self.put(t)

    def screen(self):
        return ["".join(r) for r in self.rows]


def tokens(data):
    """bytes -> the emit tokens of Base/Term.v: [0,c] char, [1] LF, [2] CR, [3,n] up, [4] erase below, [5] erase line,
    [9,seq] an SGR sequence (all its characters)"""
    out = []
    for m in _TOK.finditer(data):
        t = m.group(0)
        if t == "\n":
            out.append([1])
        elif t == "\r":
            out.append([2])
        elif t.startswith("\x1b["):
            if m.group(2) is None:
                out.append([9, [ord(x) for x in t]])
                continue
            n, k = m.group(1), m.group(2)
            if k == "A":
                out.append([3, int(n or "1")])
            elif k == "J":
                out.append([4])
            elif k == "K" and n == "2":
                out.append([5])
            else:
                out.append([8, [ord(x) for x in t]])
        else:
            out.append([0, ord(t)])
    return out


def wrap_rows(line, w):
    if line == "":
        return [""]
    return [line[i:i + w] for i in range(0, len(line), w)]
