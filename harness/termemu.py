"""An independent character-level terminal emulator (infinite height, deferred auto-wrap) for the oracles of C10/C15/C16/C19.

FAIL CLOSED: what the emulator does not model it REJECTS (ValueError -> the case is reported as impl-run-failed), it never treats
an unknown sequence as a known one.
  modelled   printable characters (one cell each), LF (next row, column 0), CR,
             CSI n A (cursor up; no parameter and 0 mean 1, as on xterm), CSI J / CSI 0 J (erase from the cursor to the end of
             the screen), CSI K / 0 K (erase to the end of the row), CSI 1 K (erase from the start of the row through the
             cursor), CSI 2 K (the whole row), CSI n G (column n), CSI ... m (SGR: the pen of the cells written next; every
             parameter must be one of the codes below, the pen is kept per cell)
  rejected   CSI 1 J / 2 J / 3 J (erase above / the whole screen / the scroll-back: a real terminal wipes rows the section
             stack needs), every other CSI final byte, CSI with private ('?') parameters, parameters where none is defined, a lone
             ESC, every C0 control character other than LF and CR (BS, TAB, BEL, VT, FF, NUL ...), DEL
A cursor movement or an erase while a wrap is pending (the cursor stands after the last column) clears the pending wrap and
continues from the last column, as xterm does."""
import re

# CSI: ESC [ parameter bytes (0-9 ; ?) and one final byte; a lone ESC and the C0 controls are tokens of their own
_TOK = re.compile(r"\x1b\[([0-9;?]*)([@-~])|\x1b|.", re.S)

_ATTR_ON = {1: "bold", 2: "dark", 3: "italic", 4: "underlined", 5: "blinking", 7: "inverse", 8: "hidden"}
_ATTR_OFF = {21: ("bold",), 22: ("bold", "dark"), 23: ("italic",), 24: ("underlined",), 25: ("blinking",), 27: ("inverse",),
             28: ("hidden",)}
DEFAULT_PEN = (None, None, ())


def pen_apply(pen, params):
    """the pen after ESC [ params m; ValueError for a parameter that is not a colour / attribute code of ECMA-48 as pastel uses
    them (0, 1-5, 7, 8, 21-25, 27, 28, 30-37, 39, 40-47, 49, 90-97, 100-107)"""
    fg, bg, attrs = pen
    attrs = set(attrs)
    for p in (params.split(";") if params else ["0"]):
        if p == "":
            p = "0"
        if not p.isdigit():
            raise ValueError("SGR parameter not modelled: %r" % params)
        n = int(p)
        if n == 0:
            fg, bg, attrs = None, None, set()
        elif n in _ATTR_ON:
            attrs.add(_ATTR_ON[n])
        elif n in _ATTR_OFF:
            attrs.difference_update(_ATTR_OFF[n])
        elif 30 <= n <= 37 or 90 <= n <= 97:
            fg = n
        elif n == 39:
            fg = None
        elif 40 <= n <= 47 or 100 <= n <= 107:
            bg = n
        elif n == 49:
            bg = None
        else:
            raise ValueError("SGR parameter not modelled: %r" % params)
    return (fg, bg, tuple(sorted(attrs)))


class Term(object):
    def __init__(self, width):
        if width < 1:
            raise ValueError("terminal width %r" % (width,))
        self.w = width
        self.rows = [[]]          # rows of cells; a cell is (character, pen)
        self.r = 0
        self.c = 0
        self.pen = DEFAULT_PEN

    def _row(self, r):
        while len(self.rows) <= r:
            self.rows.append([])
        return self.rows[r]

    def put(self, ch):
        if self.c == self.w:
            self.r += 1
            self.c = 0
        row = self._row(self.r)
        while len(row) < self.c:
            row.append((" ", DEFAULT_PEN))
        if len(row) == self.c:
            row.append((ch, self.pen))
        else:
            row[self.c] = (ch, self.pen)
        self.c += 1

    def _unwrap(self):
        # a pending wrap is dropped by a cursor movement / an erase: the cursor is on the last column
        if self.c == self.w:
            self.c = self.w - 1

    def feed(self, data):
        for m in _TOK.finditer(data):
            t = m.group(0)
            if t == "\n":
                self.r += 1
                self.c = 0
                self._row(self.r)
            elif t == "\r":
                self.c = 0
            elif m.group(2) is not None:
                n, k = m.group(1), m.group(2)
                if k == "m":
                    if "?" in n:
                        raise ValueError("control sequence not modelled: %r" % t)
                    self.pen = pen_apply(self.pen, n)
                    continue
                if not (n == "" or n.isdigit()):
                    raise ValueError("control sequence not modelled: %r" % t)
                if k == "A":
                    self._unwrap()
                    self.r = max(0, self.r - (int(n or "1") or 1))
                elif k == "J":
                    if n not in ("", "0"):
                        # 1 J erases ABOVE the cursor, 2 J / 3 J the whole screen: not "erase below"
                        raise ValueError("control sequence not modelled (erases more than the rows below): %r" % t)
                    self._unwrap()
                    del self.rows[self.r + 1:]
                    row = self._row(self.r)
                    del row[self.c:]
                elif k == "K":
                    self._unwrap()
                    row = self._row(self.r)
                    if n in ("", "0"):
                        del row[self.c:]
                    elif n == "1":
                        for i in range(min(self.c + 1, len(row))):
                            row[i] = (" ", DEFAULT_PEN)
                    elif n == "2":
                        del row[:]
                    else:
                        raise ValueError("control sequence not modelled: %r" % t)
                elif k == "G":
                    self.c = min(self.w - 1, max(0, (int(n or "1") or 1) - 1))
                else:
                    raise ValueError("control sequence not modelled: %r" % t)
            elif t == "\x1b" or ord(t) < 0x20 or ord(t) == 0x7f:
                raise ValueError("control character not modelled: %r" % t)
            else:
                self.put(t)

    def screen(self):
        return ["".join(ch for ch, _ in r) for r in self.rows]

    def pens(self):
        """per row, the pen (fg code, bg code, sorted attribute names) of every cell"""
        return [[p for _, p in r] for r in self.rows]


def tokens(data):
    """bytes -> the emit tokens of Base/Term.v: [0,c] char, [1] LF, [2] CR, [3,n] up n (the parameter as written: ESC[0A is
    [3,0]), [4] erase below (ESC[J, ESC[0J and nothing else), [5] erase line (ESC[2K and nothing else), [9,seq] an SGR sequence
    (all its characters); every other control sequence is kept as it is, [8,seq], so that it can equal no token of the model.
    A lone ESC and control characters are characters (the model has no other reading of them)."""
    out = []
    for m in _TOK.finditer(data):
        t = m.group(0)
        if t == "\n":
            out.append([1])
        elif t == "\r":
            out.append([2])
        elif m.group(2) is not None:
            n, k = m.group(1), m.group(2)
            if k == "m" and "?" not in n:
                out.append([9, [ord(x) for x in t]])
            elif k == "A" and n.isdigit():
                out.append([3, int(n)])
            elif k == "J" and n in ("", "0"):
                out.append([4])
            elif k == "K" and n == "2":
                out.append([5])
            else:
                out.append([8, [ord(x) for x in t]])
        else:
            out.append([0, ord(t)])
    return out


def wrap_rows(line, w):
    if line == "":
        return [""]
    return [line[i:i + w] for i in range(0, len(line), w)]
