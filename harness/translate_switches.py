#!/usr/bin/env python3
"""harness/translate_switches.py - a FAIL-CLOSED translator for the switch logic of DefaultApplicationConfig (C09).

    translate_switches.py [--src DIR] [--out DIR] [--check]

Reads $CLIKIT_SRC/clikit/config/default_application_config.py (default /repo/src) with `ast` and regenerates
coq/theories/Generated/GenSwitches.v from
  * DefaultApplicationConfig.create_io      -> create_io : (token -> bool) -> debug -> out_ansi -> err_ansi -> gio
  * the guard of resolve_help_command       -> help_listener_fires : (token -> bool) -> bool
  * the guard of print_version              -> version_listener_fires : (token -> bool) -> version_set -> has_raw -> bool
Proofs/GenSwitchEquivLemmas.v (hand-written) proves that these equal io_settings / wants_help / the version test of
Model/Switches.v for ALL inputs, so every bin/setup re-checks the hand model of the switches against what the code says now.

create_io is not a pure function: it builds objects and calls setters.  It is read as a straight-line program over FIVE
variables - the formatter handed to the standard output, the formatter handed to the error output, verbosity, quiet,
interactive - and everything in its body must be one of the shapes below; anything else: exit 2 naming file, line, construct
(nothing is written).
  ignorable   `if X is None: X = <StandardInputStream|StandardOutputStream|ErrorOutputStream>()` for the three stream
              parameters; `style_set = application.config.style_set`
  formatters  `output_formatter = ..`, `error_formatter = ..`, `output_formatter = error_formatter = ..` with the value
              PlainFormatter(style_set) | AnsiFormatter(style_set) | AnsiFormatter(style_set, True); only BEFORE the IO is built,
              and both must be definitely assigned when it is built
  the IO      `io = self.io_class(Input(input_stream), Output(output_stream, output_formatter),
              Output(error_stream, error_formatter))` exactly (so each stream gets its own formatter)
  setters     `io.set_verbosity(NAME)` with NAME imported from clikit.api.io.flags, `io.set_quiet(True|False)`,
              `io.set_interactive(True|False)`; only AFTER the IO is built
  control     if / elif / else; `return io` as the last statement
  conditions  args.has_option_token("<literal>"), self.is_debug(), output_stream.supports_ansi(),
              error_stream.supports_ansi(), and / or / not
The state the setters start from is read from the constructors: Output.__init__ must contain `self._quiet = False` and
`self._verbosity = 0` (or NORMAL), Input.__init__ `self._interactive = True` (checked literally, fail closed).
For the two listeners only the guard of their single top-level `if` is translated (atoms: args.has_option_token("<literal>")
with args = event.raw_args, resp. args.is_option_set("version") with args = event.args, raw_args is not None,
raw_args.has_option_token("<literal>") with raw_args = args.raw_args); the body of print_version must end in
`event.handled(True)`, the body of resolve_help_command in `event.stop_propagation()`.
The raw arguments: in BOTH clikit/args/argv_args.py (ArgvArgs) and clikit/args/string_args.py (StringArgs) __init__ must contain
`self._option_tokens = list(itertools.takewhile(lambda arg: arg != '--', self.tokens))`, the property `tokens` must be
`return self._tokens`, and has_option_token must be `return token in self._option_tokens` (checked literally, fail closed);
they are emitted once as option_tokens / has_option_token over an abstract string equality.
TRUSTED: this translator; that IO.set_verbosity / set_quiet / set_interactive store what they are given (observed by the
C09 / C10 ties); that `self.io_class` builds an IO from (input, output, error output) in that order.
"""
import ast
import hashlib
import os
import sys

ROOT = os.path.dirname(os.path.dirname(os.path.abspath(__file__)))
CFG = "clikit/config/default_application_config.py"


class Unsupported(Exception):
    pass


def fail(rel, node, what):
    raise Unsupported("%s:%d: %s" % (rel, getattr(node, "lineno", 0), what))


def strlit(s):
    return "[" + ";".join(str(ord(c)) for c in s) + "]%N"


def is_call(n, func_src):
    return isinstance(n, ast.Call) and ast.unparse(n.func) == func_src and not n.keywords


def cond(rel, n, atoms):
    """Python condition -> Gallina bool term; atoms: callable(node) -> term or None"""
    if isinstance(n, ast.BoolOp):
        op = " || " if isinstance(n.op, ast.Or) else " && "
        return "(" + op.join(cond(rel, v, atoms) for v in n.values) + ")"
    if isinstance(n, ast.UnaryOp) and isinstance(n.op, ast.Not):
        return "(negb %s)" % cond(rel, n.operand, atoms)
    t = atoms(n)
    if t is None:
        fail(rel, n, "condition outside the subset: %s" % ast.unparse(n))
    return t


def token_atom(recv):
    def f(n):
        if is_call(n, recv + ".has_option_token") and len(n.args) == 1 and isinstance(n.args[0], ast.Constant) \
                and isinstance(n.args[0].value, str):
            return "(tok %s (* %s *))" % (strlit(n.args[0].value), n.args[0].value.replace("*)", "* )"))
        return None
    return f


FORMATTERS = {"PlainFormatter(style_set)": "GPlain", "AnsiFormatter(style_set)": "(GAnsi false)",
              "AnsiFormatter(style_set, True)": "(GAnsi true)"}
VARS = ["out_f", "err_f", "verbosity", "quiet", "interactive"]
TUP = "(" + ", ".join(VARS) + ")"


class CreateIO:
    def __init__(self, rel, fn, flag_names):
        self.rel, self.fn, self.flag_names = rel, fn, flag_names

    def atoms(self, n):
        t = token_atom("args")(n)
        if t:
            return t
        if is_call(n, "self.is_debug") and not n.args:
            return "debug"
        if is_call(n, "output_stream.supports_ansi") and not n.args:
            return "out_ansi"
        if is_call(n, "error_stream.supports_ansi") and not n.args:
            return "err_ansi"
        return None

    def block(self, stmts, st, ind):
        """st = dict(assigned=set of formatter variables definitely assigned, io=bool). Returns list of `let` lines."""
        lines = []
        for s in stmts:
            pad = "  " * ind
            src = ast.unparse(s)
            if isinstance(s, ast.If) and isinstance(s.test, ast.Compare) and len(s.test.ops) == 1 \
                    and isinstance(s.test.ops[0], ast.Is) and isinstance(s.test.left, ast.Name) \
                    and s.test.left.id in ("input_stream", "output_stream", "error_stream") \
                    and isinstance(s.test.comparators[0], ast.Constant) and s.test.comparators[0].value is None \
                    and not s.orelse and len(s.body) == 1 and isinstance(s.body[0], ast.Assign) \
                    and ast.unparse(s.body[0]) in ("%s = %s()" % (s.test.left.id, c) for c in
                                                   ("StandardInputStream", "StandardOutputStream", "ErrorOutputStream")):
                continue
            if src == "style_set = application.config.style_set":
                continue
            if isinstance(s, ast.Assign) and all(isinstance(t, ast.Name) and t.id in ("output_formatter", "error_formatter")
                                                 for t in s.targets):
                if st["io"]:
                    fail(self.rel, s, "formatter assigned after the IO was built")
                v = FORMATTERS.get(ast.unparse(s.value))
                if v is None:
                    fail(self.rel, s, "formatter value outside the subset: %s" % ast.unparse(s.value))
                for t in s.targets:
                    var = "out_f" if t.id == "output_formatter" else "err_f"
                    lines.append("%slet %s := %s in" % (pad, var, v))
                    st["assigned"].add(var)
                continue
            if isinstance(s, ast.Assign) and src == ("io = self.io_class(Input(input_stream), Output(output_stream, output_formatter), "
                                                      "Output(error_stream, error_formatter))"):
                if st["io"]:
                    fail(self.rel, s, "the IO is built twice")
                if st["assigned"] != {"out_f", "err_f"}:
                    fail(self.rel, s, "the IO is built before both formatters are definitely assigned")
                st["io"] = True
                continue
            if isinstance(s, ast.Expr) and isinstance(s.value, ast.Call) and not s.value.keywords and len(s.value.args) == 1:
                f, a = ast.unparse(s.value.func), s.value.args[0]
                if f in ("io.set_verbosity", "io.set_quiet", "io.set_interactive"):
                    if not st["io"]:
                        fail(self.rel, s, "setter called before the IO is built")
                    if f == "io.set_verbosity" and isinstance(a, ast.Name) and a.id in self.flag_names:
                        lines.append("%slet verbosity := %s in" % (pad, a.id))
                        continue
                    if f != "io.set_verbosity" and isinstance(a, ast.Constant) and isinstance(a.value, bool):
                        lines.append("%slet %s := %s in" % (pad, f.split("_", 1)[1], "true" if a.value else "false"))
                        continue
                fail(self.rel, s, "call outside the subset: %s" % src)
            if isinstance(s, ast.If):
                c = cond(self.rel, s.test, self.atoms)
                st1 = {"assigned": set(st["assigned"]), "io": st["io"]}
                st2 = {"assigned": set(st["assigned"]), "io": st["io"]}
                b1 = self.block(s.body, st1, ind + 2)
                b2 = self.block(s.orelse, st2, ind + 2)
                if st1["io"] != st2["io"]:
                    fail(self.rel, s, "the IO is built in one branch only")
                st["io"] = st1["io"]
                st["assigned"] = st1["assigned"] & st2["assigned"]
                # variables not definitely assigned on both sides keep a value only if they had one before
                keep = [v for v in VARS if v in ("verbosity", "quiet", "interactive") or v in st["assigned"]]
                for v in ("out_f", "err_f"):
                    if (v in st1["assigned"]) != (v in st2["assigned"]):
                        fail(self.rel, s, "%s is assigned in one branch only" % v)
                tup = "(" + ", ".join(keep) + ")"
                lines.append("%slet '%s :=" % (pad, tup))
                lines.append("%s  if %s" % (pad, c))
                lines.append("%s  then" % pad)
                lines.extend(b1)
                lines.append("%s    %s" % (pad, tup))
                lines.append("%s  else" % pad)
                lines.extend(b2)
                lines.append("%s    %s" % (pad, tup))
                lines.append("%sin" % pad)
                continue
            if isinstance(s, ast.Return):
                if src != "return io" or not st["io"] or s is not self.fn.body[-1]:
                    fail(self.rel, s, "return outside the subset: %s" % src)
                continue
            if isinstance(s, ast.Expr) and isinstance(s.value, ast.Constant) and isinstance(s.value.value, str):
                continue  # docstring
            fail(self.rel, s, "statement outside the subset: %s" % src.splitlines()[0])
        return lines

    def generate(self):
        a = self.fn.args
        names = [x.arg for x in a.args]
        if names != ["self", "application", "args", "input_stream", "output_stream", "error_stream"] or a.vararg or a.kwarg \
                or a.kwonlyargs or self.fn.decorator_list:
            fail(self.rel, self.fn, "create_io has another signature: %s" % names)
        st = {"assigned": set(), "io": False}
        body = self.block(self.fn.body, st, 1)
        if not st["io"] or not isinstance(self.fn.body[-1], ast.Return):
            fail(self.rel, self.fn, "create_io does not end in `return io` after building the IO")
        return body


def find_method(rel, tree, cls, name):
    for n in tree.body:
        if isinstance(n, ast.ClassDef) and n.name == cls:
            ms = [m for m in n.body if isinstance(m, ast.FunctionDef) and m.name == name]
            if len(ms) != 1:
                fail(rel, n, "class %s does not define %s exactly once" % (cls, name))
            return ms[0]
    raise Unsupported("%s: class %s not found" % (rel, cls))


def sha(text, node):
    return hashlib.sha256(ast.get_source_segment(text, node).encode()).hexdigest()


def listener_guard(rel, fn, prelude, atoms, last):
    """the listener is: <prelude assignments>, one `if <guard>:` whose body ends in <last>; -> the guard as a term"""
    body = [s for s in fn.body if not (isinstance(s, ast.Expr) and isinstance(s.value, ast.Constant))]
    pre = [ast.unparse(s) for s in body[:-1]]
    if pre != prelude:
        fail(rel, fn, "%s: statements before the guard are %r, expected %r" % (fn.name, pre, prelude))
    s = body[-1]
    if not isinstance(s, ast.If) or s.orelse:
        fail(rel, s, "%s: the last statement is not a single `if` without else" % fn.name)
    if ast.unparse(s.body[-1]) != last:
        fail(rel, s.body[-1], "%s: the guarded body does not end in %s" % (fn.name, last))
    return cond(rel, s.test, atoms)


def generate(src):
    path = os.path.join(src, CFG)
    text = open(path).read()
    tree = ast.parse(text)
    # flag names imported from clikit.api.io.flags
    flag_names = set()
    for n in tree.body:
        if isinstance(n, ast.ImportFrom) and n.module == "clikit.api.io.flags":
            flag_names |= {a.name for a in n.names if a.asname is None}
    if not {"DEBUG", "VERBOSE", "VERY_VERBOSE"} <= flag_names:
        raise Unsupported("%s: DEBUG / VERBOSE / VERY_VERBOSE are not imported from clikit.api.io.flags" % CFG)
    # constructor defaults
    checks = [("clikit/api/io/output.py", "Output", ["self._quiet = False"], ["self._verbosity = 0", "self._verbosity = NORMAL"]),
              ("clikit/api/io/input.py", "Input", ["self._interactive = True"], None)]
    shas = []
    for rel, cls, must, one_of in checks:
        t2 = open(os.path.join(src, rel)).read()
        init = find_method(rel, ast.parse(t2), cls, "__init__")
        stmts = [ast.unparse(s) for s in init.body]
        for m in must:
            if stmts.count(m) != 1:
                fail(rel, init, "%s.__init__ does not contain `%s` exactly once at top level" % (cls, m))
        if one_of and sum(stmts.count(m) for m in one_of) != 1:
            fail(rel, init, "%s.__init__ does not contain one of %r at top level" % (cls, one_of))
        for s in init.body:
            tgt = ast.unparse(s).split(" = ")[0]
            if tgt in ("self._quiet", "self._verbosity", "self._interactive") and ast.unparse(s) not in must + (one_of or []):
                fail(rel, s, "unexpected initial value: %s" % ast.unparse(s))
        shas.append("   defaults   %s %s.__init__ (line %d)  sha256 %s" % (rel, cls, init.lineno, sha(t2, init)))
    fn = find_method(CFG, tree, "DefaultApplicationConfig", "create_io")
    body = CreateIO(CFG, fn, flag_names).generate()
    hl = find_method(CFG, tree, "DefaultApplicationConfig", "resolve_help_command")
    help_guard = listener_guard(CFG, hl, ["args = event.raw_args", "application = event.application"], token_atom("args"),
                                "event.stop_propagation()")
    vl = find_method(CFG, tree, "DefaultApplicationConfig", "print_version")

    def vatoms(n):
        t = token_atom("raw_args")(n)
        if t:
            return t
        s = ast.unparse(n)
        if s == "args.is_option_set('version')":
            return "version_set"
        if s == "raw_args is not None":
            return "has_raw"
        return None
    version_guard = listener_guard(CFG, vl, ["args = event.args", "raw_args = args.raw_args"], vatoms, "event.handled(True)")
    raw_shas = []
    for rel, cls in (("clikit/args/argv_args.py", "ArgvArgs"), ("clikit/args/string_args.py", "StringArgs")):
        t3 = open(os.path.join(src, rel)).read()
        tr3 = ast.parse(t3)
        init = find_method(rel, tr3, cls, "__init__")
        want = "self._option_tokens = list(itertools.takewhile(lambda arg: arg != '--', self.tokens))"
        stmts = [ast.unparse(x) for x in init.body]
        if stmts.count(want) != 1 or any(x.startswith("self._option_tokens") and x != want for x in stmts):
            fail(rel, init, "%s.__init__ does not set _option_tokens by `%s`" % (cls, want))
        if stmts.index(want) < max(i for i, x in enumerate(stmts) if x.startswith("self._tokens = ")):
            fail(rel, init, "%s.__init__ computes _option_tokens before _tokens is set" % cls)
        for m, want_body in (("tokens", "return self._tokens"), ("has_option_token", "return token in self._option_tokens"),
                        ("option_tokens", "return self._option_tokens")):
            f3 = find_method(rel, tr3, cls, m)
            b3 = [ast.unparse(x) for x in f3.body if not (isinstance(x, ast.Expr) and isinstance(x.value, ast.Constant))]
            if b3 != [want_body]:
                fail(rel, f3, "%s.%s is not `%s`" % (cls, m, want_body))
        for n in ast.walk(tr3):
            if isinstance(n, (ast.Assign, ast.AugAssign, ast.Delete)) and "_option_tokens" in ast.unparse(n) and ast.unparse(n) != want:
                fail(rel, n, "_option_tokens is written elsewhere: %s" % ast.unparse(n))
        raw_shas.append("   raw args   %s %s (__init__ line %d)  sha256 %s" % (rel, cls, init.lineno, hashlib.sha256(t3.encode()).hexdigest()))
    out = []
    out.append("(* GENERATED by harness/translate_switches.py from the clikit sources - DO NOT EDIT: overwritten by every bin/setup.")
    out.append("   the global switches (C09): DefaultApplicationConfig.create_io and the guards of the help and version listeners.")
    out.append("   Proofs/GenSwitchEquivLemmas.v proves these definitions equal to the hand model Model/Switches.v for all inputs.")
    out.append("   Paths are relative to $CLIKIT_SRC (default /repo/src); sha256 is that of the translated source text.")
    for f in (fn, hl, vl):
        out.append("   function   %s DefaultApplicationConfig.%s (line %d)  sha256 %s" % (CFG, f.name, f.lineno, sha(text, f)))
    out.extend(shas)
    out.extend(raw_shas)
    out.append("*)")
    out.append("From Coq Require Import ZArith NArith Bool List.")
    out.append("From Clikit Require Import Generated.GenGate.")
    out.append("Import ListNotations.")
    out.append("")
    out.append("(* ArgvArgs / StringArgs: _option_tokens = list(itertools.takewhile(lambda arg: arg != '--', self.tokens));")
    out.append("   has_option_token(token) = token in self._option_tokens; eqb is Python's == on str *)")
    out.append("Fixpoint takewhile {A} (p : A -> bool) (l : list A) : list A :=")
    out.append("  match l with [] => [] | x :: r => if p x then x :: takewhile p r else [] end.")
    out.append("Definition option_tokens (eqb : list N -> list N -> bool) (tokens : list (list N)) : list (list N) :=")
    out.append("  takewhile (fun arg => negb (eqb arg %s)) tokens." % strlit("--"))
    out.append("Definition has_option_token (eqb : list N -> list N -> bool) (tokens : list (list N)) (token : list N) : bool :=")
    out.append("  existsb (eqb token) (option_tokens eqb tokens).")
    out.append("")
    out.append("(* the formatter handed to an Output: PlainFormatter, or AnsiFormatter with its `forced` argument *)")
    out.append("Inductive gformatter := GPlain | GAnsi (forced : bool).")
    out.append("Record gio := { g_out : gformatter; g_err : gformatter; g_verbosity : Z; g_quiet : bool; g_interactive : bool }.")
    out.append("")
    out.append("(* %s, DefaultApplicationConfig.create_io, line %d; tok t = args.has_option_token(t), debug = self.is_debug()," % (CFG, fn.lineno))
    out.append("   out_ansi / err_ansi = supports_ansi() of the two streams; initial verbosity / quiet / interactive from the constructors *)")
    out.append("Definition create_io (tok : list N -> bool) (debug out_ansi err_ansi : bool) : gio :=")
    out.append("  let verbosity := NORMAL in")
    out.append("  let quiet := false in")
    out.append("  let interactive := true in")
    out.extend(body)
    out.append("  {| g_out := out_f; g_err := err_f; g_verbosity := verbosity; g_quiet := quiet; g_interactive := interactive |}.")
    out.append("")
    out.append("(* %s, the guard of DefaultApplicationConfig.resolve_help_command, line %d (tok t = event.raw_args.has_option_token(t)) *)" % (CFG, hl.lineno))
    out.append("Definition help_listener_fires (tok : list N -> bool) : bool :=\n  %s." % help_guard)
    out.append("")
    out.append("(* %s, the guard of DefaultApplicationConfig.print_version, line %d (version_set = event.args.is_option_set(\"version\")," % (CFG, vl.lineno))
    out.append("   has_raw = event.args.raw_args is not None, tok t = event.args.raw_args.has_option_token(t)); the guarded body ends in event.handled(True) *)")
    out.append("Definition version_listener_fires (tok : list N -> bool) (version_set has_raw : bool) : bool :=\n  %s." % version_guard)
    return "\n".join(out) + "\n"


def main(argv):
    src = os.environ.get("CLIKIT_SRC", "/repo/src")
    out_dir = os.path.join(ROOT, "coq", "theories", "Generated")
    check = False
    args = list(argv)
    while args:
        a = args.pop(0)
        if a == "--src":
            src = args.pop(0)
        elif a == "--out":
            out_dir = args.pop(0)
        elif a == "--check":
            check = True
        else:
            print("usage: translate_switches.py [--src DIR] [--out DIR] [--check]", file=sys.stderr)
            return 2
    try:
        text = generate(src)
    except Unsupported as e:
        print("translate_switches.py: FAILED (nothing written): %s" % e, file=sys.stderr)
        return 2
    os.makedirs(out_dir, exist_ok=True)
    path = os.path.join(out_dir, "GenSwitches.v")
    old = open(path).read() if os.path.exists(path) else None
    if old != text:
        if check:
            print("translate_switches.py: %s is out of date" % path)
            return 1
        with open(path + ".tmp", "w") as fh:
            fh.write(text)
        os.replace(path + ".tmp", path)
        print("translate_switches.py: %s regenerated from %s" % (os.path.relpath(path, ROOT), src))
    return 0


if __name__ == "__main__":
    sys.exit(main(sys.argv[1:]))
