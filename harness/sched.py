"""A deterministic scheduler for two real threads of the implementation (C19): threads only run between
yield points (stream writes, time.sleep, Thread.join, thread start), one at a time, in the order a schedule says."""
import threading
from fractions import Fraction


class Controller(object):
    def __init__(self, t0_ms):
        self.cv = threading.Condition()
        self.clock = t0_ms
        self.state = {}          # name -> "running" | ("yield", kind, arg) | "done"
        self.turn = None
        self.log = []            # (thread name, data) for every stream write
        self.errors = []

    # ---- called by controlled threads
    def yield_point(self, name, kind, arg=None):
        with self.cv:
            self.state[name] = ("yield", kind, arg)
            self.cv.notify_all()
            while self.turn != name:
                self.cv.wait()
            self.turn = None
            self.state[name] = "running"
            if kind == "sleep":
                self.clock += int(round(arg * 1000))

    def finished(self, name):
        with self.cv:
            self.state[name] = "done"
            self.cv.notify_all()

    # ---- called by the controlling thread
    def wait_quiescent(self):
        with self.cv:
            while any(v == "running" for v in self.state.values()):
                if not self.cv.wait(5):
                    raise RuntimeError("scheduler: a thread did not reach a yield point")

    def runnable(self, name):
        v = self.state.get(name)
        if v is None or v == "done":
            return False
        if v[1] == "join":
            return self.state.get("S") == "done"
        return True

    def step(self, name):
        self.wait_quiescent()
        if not self.runnable(name):
            return False
        with self.cv:
            self.turn = name
            self.state[name] = "running"
            self.cv.notify_all()
        self.wait_quiescent()
        return True

    def done(self, name):
        return self.state.get(name) == "done"


def run_auto(t0_ms, interval, start_msg, end_msg, actions, schedule, timeout=5):
    """actions: list of ("set", m) | ("work", ms) | ("raise",); schedule: list of bools (True = spinner)."""
    import time as _time
    import clikit.ui.components.progress_indicator as pi
    from clikit.api.io import Output
    from clikit.io.output_stream import BufferedOutputStream
    from clikit.formatter import AnsiFormatter
    ctl = Controller(t0_ms)
    names = {}

    def me():
        return names.get(threading.current_thread(), "?")

    class Stream(BufferedOutputStream):
        def write(self, string):
            ctl.yield_point(me(), "write", string)
            ctl.log.append((me(), string))
            BufferedOutputStream.write(self, string)

    class CThread(threading.Thread):
        def start(self):
            names[self] = "S"
            orig = self._target

            def target(*a, **k):
                ctl.yield_point("S", "sleep", 0)
                try:
                    orig(*a, **k)
                except BaseException as e:
                    ctl.errors.append(("S", repr(e)))
                finally:
                    ctl.finished("S")
            self._target = target
            with ctl.cv:
                ctl.state["S"] = "running"
            # a thread that never ends (a spinner that is not stopped) must not keep the worker process alive
            self.daemon = True
            threading.Thread.start(self)

        def join(self, timeout=None):
            ctl.yield_point(me(), "join")
            threading.Thread.join(self, 5)

    class Shim(object):
        Event = threading.Event
        Thread = CThread

    class TimeShim(object):
        @staticmethod
        def time():
            return Fraction(ctl.clock, 1000)

        @staticmethod
        def sleep(d):
            ctl.yield_point(me(), "sleep", d)

    old_threading, old_time = pi.threading, pi.time
    pi.threading, pi.time = Shim, TimeShim
    result = {}
    try:
        out = Output(Stream(), AnsiFormatter(forced=True))
        ind = pi.ProgressIndicator(out, None, interval)

        def body():
            try:
                with ind.auto(start_msg, end_msg):
                    for a in actions:
                        if a[0] == "set":
                            ind.set_message(a[1])
                        elif a[0] == "work":
                            pi.time.sleep(Fraction(a[1], 1000))
                        else:
                            raise RuntimeError("body failed")
                result["raised"] = False
            except RuntimeError as e:
                result["raised"] = str(e) == "body failed"
                if not result["raised"]:
                    ctl.errors.append(("M", repr(e)))
            except BaseException as e:
                ctl.errors.append(("M", repr(e)))
            finally:
                ctl.finished("M")
        m = threading.Thread(target=body)
        m.daemon = True
        names[m] = "M"
        with ctl.cv:
            ctl.state["M"] = "running"
        m.start()
        # the model's init: the main thread performs its first write and runs to its next yield
        ctl.step("M")
        for sp in schedule:
            ctl.step("S" if sp else "M")
        fuel = 4 * (len(actions) + 8) + 50
        while fuel > 0:
            ctl.wait_quiescent()
            if ctl.done("M") and (ctl.done("S") or "S" not in ctl.state):
                break
            if ctl.runnable("M"):
                ctl.step("M")
            else:
                ctl.step("S")
            fuel -= 1
        m.join(5)
        alive = [t for t in names if t.is_alive()]
        result.update({"log": list(ctl.log), "errors": list(ctl.errors), "alive": len(alive),
                       "stop": bool(ind._auto_running is not None and ind._auto_running.is_set()),
                       "done": ctl.done("M") and ctl.done("S")})
        return result
    finally:
        pi.threading, pi.time = old_threading, old_time
