"""A deterministic scheduler for two real threads of the implementation (C19): threads only run between
yield points, one at a time, in the order a schedule says.

Two granularities:
  run_auto       COARSE: yield points = stream writes, time.sleep, Thread.join, thread start (the granularity of
                 Model/Spinner.v, entry run_C19);
  run_auto_fine  FINE: additionally every operation on the stop event (set / is_set / clear / wait) and - between the
                 start of the spinner thread and the return of join - every read and write of the indicator's fields
                 `_auto_thread`, `_message`, `_current`, `_started`, `_update_time` (the state the two threads share
                 without a lock).  A thread stops BEFORE the operation and performs it when it is scheduled next, so a
                 schedule decides the order of all accesses to shared state: every check-then-act on those fields can be
                 split by the other thread (the granularity of Model/Spinner2.v, entry run_C19F).

A schedule entry that names a thread which cannot run is never skipped silently: the controller records why
(`skips`: "S:done", "M:done", "M:join" = blocked in join while the spinner lives); any other reason is an error of the
run (`errors`), and so is a thread that does not reach a yield point within 5 s."""
import threading
from fractions import Fraction

SHARED = ("_auto_thread", "_message", "_current", "_started", "_update_time")
EXC_KINDS = {"RuntimeError": RuntimeError, "KeyboardInterrupt": KeyboardInterrupt, "SystemExit": SystemExit, "GeneratorExit": GeneratorExit}


class SchedulerAbort(BaseException):
    """raised inside a controlled thread at its yield point when the run is over and the thread is still waiting"""


class Controller(object):
    def __init__(self, t0_ms):
        self.abort = False
        self.cv = threading.Condition()
        self.clock = t0_ms
        self.state = {}          # name -> "running" | ("yield", kind, arg) | "done"
        self.turn = None
        self.log = []            # (thread name, data) for every stream write
        self.events = []         # every operation performed, in order: (thread name, kind, arg, value)
        self.errors = []
        self.skips = []          # (position, "S:done" | "M:done" | "M:join")
        self.fine = False        # attribute accesses of the main thread are yield points (spinner started, join not returned)
        self.event_flag = None   # the stop event's flag (fine mode)

    # ---- called by controlled threads
    def yield_point(self, name, kind, arg=None):
        with self.cv:
            self.state[name] = ("yield", kind, arg)
            self.cv.notify_all()
            while self.turn != name and not self.abort:
                self.cv.wait()
            if self.abort:
                raise SchedulerAbort()
            self.turn = None
            self.state[name] = "running"
            if kind == "sleep":
                self.clock += int(round(arg * 1000))

    def finished(self, name):
        with self.cv:
            self.state[name] = "done"
            self.cv.notify_all()

    # ---- called by the controlling thread
    def wait_quiescent(self):
        with self.cv:
            while any(v == "running" for v in self.state.values()):
                if not self.cv.wait(5):
                    raise RuntimeError("scheduler: a thread did not reach a yield point")

    def why_not(self, name):
        """None when the thread can be stepped, else the reason"""
        v = self.state.get(name)
        if v is None:
            return "absent"
        if v == "done":
            return "done"
        if v[1] == "join" and self.state.get("S") != "done":
            return "join"
        if v[1] == "waitset" and not self.event_flag:
            return "wait"
        return None

    def runnable(self, name):
        return self.why_not(name) is None

    def step(self, name, pos=None):
        self.wait_quiescent()
        why = self.why_not(name)
        if why is not None:
            tag = "%s:%s" % (name, why)
            if tag in ("S:done", "M:done", "M:join"):
                self.skips.append((pos, tag))
            else:
                self.errors.append(("scheduler", "schedule position %r names thread %s, which cannot run: %s" % (pos, name, why)))
            return False
        with self.cv:
            self.turn = name
            self.state[name] = "running"
            self.cv.notify_all()
        self.wait_quiescent()
        return True

    def done(self, name):
        return self.state.get(name) == "done"


def _drive(ctl, m, schedule, n_actions, fine):
    """the schedule, then: the caller whenever it can run, else the spinner"""
    ctl.step("M", "init")            # the model's init: the caller performs its first write and runs to its next yield
    for i, sp in enumerate(schedule):
        ctl.step("S" if sp else "M", i)
    fuel = (60 * (n_actions + 4) + 200) if fine else (4 * (n_actions + 8) + 50)
    while fuel > 0:
        ctl.wait_quiescent()
        if ctl.done("M") and (ctl.done("S") or "S" not in ctl.state):
            break
        if ctl.runnable("M"):
            ctl.step("M", "completion")
        elif ctl.runnable("S"):
            ctl.step("S", "completion")
        else:
            ctl.errors.append(("scheduler", "deadlock: caller %r, spinner %r" % (ctl.state.get("M"), ctl.state.get("S"))))
            break
        fuel -= 1
    if ctl.done("M"):
        m.join(5)


def run_auto(t0_ms, interval, start_msg, end_msg, actions, schedule, timeout=5, fine=False, values=None, fmt=None):
    """actions: list of ("set", m) | ("work", ms) | ("raise",) | ("raise", kind); schedule: list of bools (True = spinner).
    fine=False: yield points are stream writes, sleeps, join, thread start; fine=True: see the module text."""
    import clikit.ui.components.progress_indicator as pi
    from clikit.api.io import Output
    from clikit.io.output_stream import BufferedOutputStream
    from clikit.formatter import AnsiFormatter
    ctl = Controller(t0_ms)
    names = {}

    def me():
        return names.get(threading.current_thread(), "?")

    def op(kind, arg, value=None):
        ctl.events.append((me(), kind, arg, value))

    class Stream(BufferedOutputStream):
        def write(self, string):
            ctl.yield_point(me(), "write", string)
            ctl.log.append((me(), string))
            op("write", string)
            BufferedOutputStream.write(self, string)

    class CThread(threading.Thread):
        def start(self):
            names[self] = "S"
            orig = self._target

            def target(*a, **k):
                if not fine:
                    ctl.yield_point("S", "sleep", 0)
                try:
                    orig(*a, **k)
                except BaseException as e:
                    ctl.errors.append(("S", repr(e)))
                finally:
                    ctl.finished("S")
            self._target = target
            with ctl.cv:
                ctl.state["S"] = "running"
            # a thread that never ends (a spinner that is not stopped) must not keep the worker process alive
            self.daemon = True
            ctl.fine = fine
            threading.Thread.start(self)

        def join(self, timeout=None):
            ctl.yield_point(me(), "join")
            op("join", None)
            threading.Thread.join(self, 5)
            ctl.fine = False

    class CEvent(object):
        """threading.Event whose operations are scheduling points: the thread stops before the operation"""
        def __init__(self):
            ctl.event_flag = False

        def set(self):
            ctl.yield_point(me(), "ev", "set")
            ctl.event_flag = True
            op("ev", "set")

        def clear(self):
            ctl.yield_point(me(), "ev", "clear")
            ctl.event_flag = False
            op("ev", "clear")

        def is_set(self):
            ctl.yield_point(me(), "ev", "is_set")
            op("ev", "is_set", ctl.event_flag)
            return ctl.event_flag
        isSet = is_set

        def wait(self, timeout=None):
            if timeout is None:
                ctl.yield_point(me(), "waitset")
            else:
                ctl.yield_point(me(), "ev", "wait")
                if not ctl.event_flag:
                    ctl.yield_point(me(), "sleep", timeout)
            op("ev", "wait", ctl.event_flag)
            return ctl.event_flag

    class Shim(object):
        Event = CEvent if fine else threading.Event
        Thread = CThread

    class TimeShim(object):
        @staticmethod
        def time():
            return Fraction(ctl.clock, 1000)

        @staticmethod
        def sleep(d):
            ctl.yield_point(me(), "sleep", d)
            op("sleep", d)

    old_threading, old_time = pi.threading, pi.time
    pi.threading, pi.time = Shim, TimeShim

    class Ind(pi.ProgressIndicator):
        """the indicator with its shared fields watched: every access by one of the two threads is recorded; in fine mode it is a
        scheduling point while both threads exist (from the start of the spinner to the return of join)"""
        def __getattribute__(self, name):
            if name in SHARED and me() != "?":
                if ctl.fine:
                    ctl.yield_point(me(), "rd", name)
                v = object.__getattribute__(self, name)
                op("rd", name, v if isinstance(v, (str, int, bool, type(None))) else (v is not None))
                return v
            return object.__getattribute__(self, name)

        def __setattr__(self, name, value):
            if name in SHARED and me() != "?":
                if ctl.fine:
                    ctl.yield_point(me(), "wr", name)
                op("wr", name, value if isinstance(value, (str, int, bool, type(None))) else (value is not None))
            object.__setattr__(self, name, value)

    result = {}
    try:
        out = Output(Stream(), AnsiFormatter(forced=True))
        ind = Ind(out, fmt, interval, values)

        def body():
            expected = None
            try:
                with ind.auto(start_msg, end_msg):
                    for a in actions:
                        if a[0] == "set":
                            ind.set_message(a[1])
                        elif a[0] == "work":
                            pi.time.sleep(Fraction(a[1], 1000))
                        else:
                            expected = EXC_KINDS[a[1] if len(a) > 1 else "RuntimeError"]("body failed")
                            raise expected
                result["raised"] = False
            except BaseException as e:
                # the body's own exception, and nothing else, must come out of the block
                result["raised"] = e is expected
                if e is not expected:
                    ctl.errors.append(("M", repr(e)))
            finally:
                ctl.finished("M")
        m = threading.Thread(target=body)
        m.daemon = True
        names[m] = "M"
        with ctl.cv:
            ctl.state["M"] = "running"
        m.start()
        _drive(ctl, m, schedule, len(actions), fine)
        alive = [t for t in names if t.is_alive()]
        ev = object.__getattribute__(ind, "_auto_running")
        if fine:
            stop = bool(ctl.event_flag)
        else:
            stop = bool(ev is not None and ev.is_set())
        result.update({"log": list(ctl.log), "errors": list(ctl.errors), "alive": len(alive), "stop": stop,
                       "done": ctl.done("M") and ctl.done("S"), "skips": list(ctl.skips), "events": list(ctl.events)})
        return result
    finally:
        # threads still waiting at a yield point (a spinner that was never stopped, a caller blocked in join) are released
        with ctl.cv:
            ctl.abort = True
            ctl.cv.notify_all()
        for t in list(names):
            threading.Thread.join(t, 1)
        pi.threading, pi.time = old_threading, old_time
