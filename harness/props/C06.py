"""C06 - an args format can never be built into an inconsistent state."""
import itertools
from hutil import S, unS, err, exc_code, enc_val

MODEL = "C06"
PROP_FILES = ["Props/C06.v"]
RULE = ("op sequences over a 29-op alphabet (add option / command option with aliases / argument / command name; set_* "
        "replacements with varied contents: empty, one, a valid pair, a pair whose second element is rejected, three elements) "
        "drawn from a colliding name pool, on 0, 1 and 2 levels of base format (5 chains: one with an empty level on top of a "
        "defining one, one whose base holds an option without short name, a command option without short name but a short alias "
        "and a required multi-valued argument); exhaustive to length 3 (quick) / 4 (thorough) over the 21 core ops x 4 chains and "
        "to length 2 over all 29 ops x 5 chains, seeded random to length 7; after every op the exception class and the full "
        "query vector (command names WITH aliases, positions -2..6) of the builder and of builder.format are compared, the "
        "format finished BEFORE the op is queried again after it (a finished format stays what it was), plus "
        "ArgsFormat(elements, base) for add-only sequences; a family built through CommandConfig.add_option/add_argument/"
        "build_args_format on the same bases (11 configurations, 4 of them colliding within themselves, those on the empty base); "
        "names that differ only in CASE ('f' / 'F', 'bar' / 'Bar'): 8 such elements exhaustive to length 3 on the empty base and on "
        "a base holding 'F' and 'B', and in 30 % of the random sequences; every level of the base chain is asked its full query "
        "vector again after the last op (a base does not change by what is built on top of it); non-trivial = >= 1 rejection or "
        ">= 2 accepted elements; distinct by (bases, ops)")
TRUSTED = ["that a finished format does not change when its builder moves on, and that a base format does not change by what is built "
           "on top of it, are checked on the implementation only (in the model a format is a value)"]
ASSUMPTIONS = ["elements are valid Option/CommandOption/Argument/CommandName objects (their construction is C07)"]

POOL = ["foo", "f", "bar", "b", "cmd", "c", "arg1", "arg2", "multi", "yy", "z", "baz", "other", "arg3", "F", "B", "Foo", "Bar"]
REQ, OPT, MULTI = 1, 2, 4
OPTS = [["foo", "f"], ["bar", "b"], ["foo", None], ["baz", "f"]]
COPTS = [["foo", "f", [], []], ["cmd", "c", ["bar"], ["b"]], ["other", None, ["foo", "yy"], []], ["zz", "z", [], ["f"]],
         ["nos", None, [], ["b"]]]        # no short name of its own, but a one-letter alias (seeded change C06-h)
ARGS = [["arg1", REQ], ["arg2", OPT], ["arg1", OPT], ["multi", MULTI], ["arg3", REQ | MULTI], ["arg3", REQ]]
CNAMES = [["server", ["srv"]], ["add", []]]


def e_opt(o):
    return [0, [S(o[0]), [] if o[1] is None else [S(o[1])], 0, [0]]]


def e_copt(c):
    return [1, [S(c[0]), [] if c[1] is None else [S(c[1])], [S(a) for a in c[2]], [S(a) for a in c[3]]]]


def e_arg(a):
    return [2, [S(a[0]), a[1], [0]]]


def e_cname(c):
    return [3, [S(c[0]), [S(a) for a in c[1]]]]


CORE = ([e_opt(o) for o in OPTS] + [e_copt(c) for c in COPTS] + [e_arg(a) for a in ARGS] + [e_cname(c) for c in CNAMES] +
        [[4, [e_opt(OPTS[1])[1], e_opt(OPTS[3])[1]]], [5, [e_copt(COPTS[1])[1]]],
         [6, [e_arg(ARGS[1])[1], e_arg(ARGS[5])[1]]], [7, [e_cname(CNAMES[1])[1]]]])
# set_* with other contents: nothing at all, a valid pair, three elements
MORE = [[4, []], [4, [e_opt(OPTS[1])[1], e_opt(OPTS[3])[1], e_opt(OPTS[2])[1]]],
        [5, []],
        [6, []], [6, [e_arg(ARGS[0])[1], e_arg(ARGS[1])[1]]], [6, [e_arg(ARGS[0])[1], e_arg(ARGS[1])[1], e_arg(ARGS[3])[1]]],
        [7, []], [7, [e_cname(CNAMES[1])[1], e_cname(CNAMES[0])[1]]]]
ALPHA = CORE + MORE
BASES = [[],
         [[e_opt(OPTS[1]), e_arg(ARGS[0]), e_cname(CNAMES[0])]],
         [[e_copt(["cmd", "c", ["yy"], []]), e_arg(ARGS[0])], [e_opt(OPTS[0]), e_arg(ARGS[1]), e_cname(["server", []])]],
         # an EMPTY level on top of a level that defines things (a format object that lists nothing of its own must still
         # pass on what its base defines: seeded change C06-f)
         [[e_opt(OPTS[0]), e_copt(["cmd", "c", ["yy"], []]), e_arg(ARGS[1]), e_arg(ARGS[3])], []],
         # shapes that otherwise only occur at the top level: an option without short name, a command option without short
         # name of its own but with a short alias, a required multi-valued argument, a command name with an alias
         [[e_opt(OPTS[2]), e_copt(COPTS[4]), e_arg(ARGS[4]), e_cname(CNAMES[0])]]]
# names that differ from others only in CASE (short names 'f' / 'F', long names 'bar' / 'Bar'): distinct names, and 'F' is taken
# once 'F' is there - audit mutant C06-6 exempted upper-case short names from the collision check and nothing was seen
CASED = [e_opt(["qux", "F"]), e_opt(["Foo", "F"]), e_opt(["quux", "f"]), e_opt(["Bar", "B"]), e_copt(["up", "B", [], ["F"]]),
         e_copt(["down", "b", ["Bar"], ["B"]]), e_opt(OPTS[0]), e_opt(OPTS[1])]
CASED_BASE = [[e_opt(["low", "F"]), e_copt(["lowc", "b", [], ["B"]])]]
# a command configuration: name (+ aliases, or anonymous), options and arguments free of collisions among themselves, stacked
# on a base through CommandConfig.build_args_format
CONFIGS = [[CNAMES[0], 0, [OPTS[0]], [ARGS[0]]], [CNAMES[0], 0, [OPTS[1], OPTS[2]], [ARGS[0], ARGS[1]]],
           [CNAMES[1], 0, [], [ARGS[1], ARGS[3]]], [CNAMES[1], 1, [OPTS[3]], [ARGS[4]]], [CNAMES[0], 1, [], []],
           [CNAMES[0], 0, [OPTS[2], OPTS[1]], [ARGS[5], ARGS[1], ARGS[3]]], [CNAMES[1], 0, [OPTS[1]], [ARGS[2]]],
           # configurations that collide WITHIN themselves (Config.add_option / add_argument must refuse the second element)
           [CNAMES[0], 0, [OPTS[0], OPTS[2]], [ARGS[0]]], [CNAMES[1], 0, [OPTS[0], OPTS[3]], []], [CNAMES[1], 0, [], [ARGS[1], ARGS[5]]],
           [CNAMES[0], 1, [OPTS[1]], [ARGS[3], ARGS[1]]]]


def gen(rng, tier, info):
    depth = {"quick": 3, "thorough": 4, "search": 2}[tier]
    nrand = {"quick": 3000, "thorough": 40000, "search": 2000}[tier]
    cases = []
    for bi, b in enumerate(BASES[:4]):
        for k in range(1, depth + 1):
            for seq in itertools.product(CORE, repeat=k):
                cases.append({"bases": b, "ops": list(seq), "every": 0})
    n_core = len(cases)
    for b in BASES:
        for k in (1, 2):
            for seq in itertools.product(ALPHA, repeat=k):
                if b is BASES[4] or any(o in MORE for o in seq):
                    cases.append({"bases": b, "ops": list(seq), "every": 1})
    for b in ([], CASED_BASE):
        for k in (1, 2, 3):
            for seq in itertools.product(CASED, repeat=k):
                cases.append({"bases": b, "ops": list(seq), "every": 1})
    n_ex = len(cases)
    for _ in range(nrand):
        k = rng.randint(3, 7)
        al = ALPHA + CASED[:6] if rng.random() < 0.3 else ALPHA
        cases.append({"bases": rng.choice(BASES + [CASED_BASE]), "ops": [rng.choice(al) for _ in range(k)], "every": 1})
    # through CommandConfig: the same elements as an add-only sequence (name, options, arguments)
    n_cfg = 0
    for b in BASES:
        for ci, (cn, anon, os_, as_) in enumerate(CONFIGS):
            if ci >= 7 and b:
                # a configuration that collides within itself is refused by its own builder, which knows no base: over a
                # base that collides too the element constructor may name another rule first - on the empty base only
                continue
            ops = ([] if anon else [e_cname(cn)]) + [e_opt(o) for o in os_] + [e_arg(a) for a in as_]
            cases.append({"bases": b, "ops": ops, "every": 1, "cfg": [cn, anon, os_, as_]})
            n_cfg += 1
    info["exhaustive"] = True
    info["distribution"] = {"exhaustive_core": n_core, "exhaustive_len2_all_ops": n_ex - n_core, "max_len": depth, "random": nrand,
                            "alphabet": len(ALPHA), "core_alphabet": len(CORE), "base_configs": len(BASES), "command_configs": n_cfg}
    return cases


def wire(c):
    return [c["bases"], c["ops"], [S(p) for p in POOL], c.get("every", 1)]


def describe(c):
    def el(e):
        k, x = e
        if k in (0, 1, 2, 3):
            return ["Option", "CommandOption", "Argument", "CommandName"][k] + repr(_py(e))
        return ["set_options", "set_command_options", "set_arguments", "set_command_names"][k - 4] + repr([_py([k - 4, y]) for y in x])
    return "bases=%s ops=%s" % ([[el(e) for e in lvl] for lvl in c["bases"]], [el(o) for o in c["ops"]])


def _py(e):
    k, x = e
    if k == 0:
        return (unS(x[0]), unS(x[1][0]) if x[1] else None, x[2])
    if k == 1:
        return (unS(x[0]), unS(x[1][0]) if x[1] else None, [unS(a) for a in x[2]] + [unS(a) for a in x[3]])
    if k == 2:
        return (unS(x[0]), x[1])
    return (unS(x[0]), [unS(a) for a in x[1]])


def _mk(e):
    from clikit.api.args.format import Option, CommandOption, Argument, CommandName
    k, x = e
    p = _py(e)
    if k == 0:
        return Option(p[0], p[1], p[2])
    if k == 1:
        return CommandOption(p[0], p[1], p[2])
    if k == 2:
        return Argument(p[0], p[1])
    return CommandName(p[0], p[1])


def _res(fn, enc):
    try:
        return [0, enc(fn())]
    except Exception as e:
        return err(e)


def qvec1(f, incl):
    return [
        [[S(c.string), [S(a) for a in c.aliases]] for c in f.get_command_names(incl)],
        int(f.has_command_names(incl)),
        [[int(f.has_command_option(n, incl)), _res(lambda: f.get_command_option(n, incl), lambda c: S(c.long_name))] for n in POOL],
        [S(c.long_name) for c in f.get_command_options(incl)],
        int(f.has_command_options(incl)),
        [[int(f.has_argument(n, incl)), _res(lambda: f.get_argument(n, incl), lambda a: S(a.name))] for n in POOL],
        [[int(f.has_argument(i, incl)), _res(lambda: f.get_argument(i, incl), lambda a: S(a.name))] for i in POSITIONS],
        [[S(n), int(a.is_required()), int(a.is_multi_valued())] for n, a in f.get_arguments(incl).items()],
        [int(f.has_multi_valued_argument(incl)), int(f.has_optional_argument(incl)), int(f.has_required_argument(incl)), int(f.has_arguments(incl))],
        [[int(f.has_option(n, incl)), _res(lambda: f.get_option(n, incl), lambda o: S(o.long_name))] for n in POOL],
        [S(n) for n in f.get_options(incl)],
        int(f.has_options(incl)),
    ]


POSITIONS = [-2, -1, 0, 1, 2, 3, 4, 5, 6]


def qvec(f):
    return [qvec1(f, True), qvec1(f, False)]


def _via_config(c, base):
    """the format CommandConfig.build_args_format(base) makes of the case's command configuration"""
    from clikit.api.config.command_config import CommandConfig
    cn, anon, os_, as_ = c["cfg"]
    cfg = CommandConfig(cn[0])
    for a in cn[1]:
        cfg.add_alias(a)
    if anon:
        cfg.anonymous()
    for o in os_:
        cfg.add_option(o[0], o[1], 0)
    for a in as_:
        cfg.add_argument(a[0], a[1])
    return cfg.build_args_format(base)


_BASE_BEFORE = {}


def run_impl(c):
    import json
    from clikit.api.args.format import ArgsFormat, ArgsFormatBuilder
    base = None
    levels = []
    try:
        for lvl in c["bases"]:
            base = ArgsFormat([_mk(e) for e in lvl], base)
            levels.append(base)
    except Exception as e:
        return [-3, exc_code(e)]
    # what every level of the base chain answers before anything is built on top of it (a function of the description:
    # computed once per description and worker); asked again after the last op
    bkey = json.dumps(c["bases"])
    if bkey not in _BASE_BEFORE:
        _BASE_BEFORE[bkey] = [qvec(l) for l in levels]
    b = ArgsFormatBuilder(base)
    steps = []
    add_only = True
    for oi, o in enumerate(c["ops"]):
        k, x = o
        e = None
        observed = c.get("every", 1) or oi == len(c["ops"]) - 1
        pre = qvec(b) if (k <= 3 and observed) else None
        # the format finished BEFORE this op, and what it answers now ...
        fin = b.format if observed else None
        fin_v = qvec(fin) if observed else None
        try:
            if k == 0:
                b.add_option(_mk(o))
            elif k == 1:
                b.add_command_option(_mk(o))
            elif k == 2:
                b.add_argument(_mk(o))
            elif k == 3:
                b.add_command_name(_mk(o))
            else:
                add_only = False
                objs = [_mk([k - 4, y]) for y in x]
                [b.set_options, b.set_command_options, b.set_arguments, b.set_command_names][k - 4](*objs)
        except Exception as ex:
            e = exc_code(ex)
        if observed:
            # ... and after the builder moved on
            steps.append([[] if e is None else [e], qvec(b), qvec(b.format), pre, 1 if qvec(fin) == fin_v else 0])
        else:
            steps.append([[] if e is None else [e]])
    tail = []
    if add_only:
        tail = [_res(lambda: ArgsFormat([_mk(o) for o in c["ops"]], base), qvec)]
    via = [_res(lambda: _via_config(c, base), qvec)] if c.get("cfg") else None
    bases_same = 1 if [qvec(l) for l in levels] == _BASE_BEFORE[bkey] else 0
    if c.get("cfg"):
        # what the model's ArgsFormat(elements, base) is compared with is the format built through the configuration
        return [0, steps, via, tail, bases_same]
    return [0, steps, tail, bases_same]


def canon_impl(c, o):
    if o[0] != 0:
        return o
    return [o[0], [st[:3] for st in o[1]], o[2]]


def _names_of(e):
    """every name an option / command option goes by"""
    k, x = e
    if k == 0:
        return [unS(x[0])] + [unS(s) for s in x[1]]
    if k == 1:
        return [unS(x[0])] + [unS(s) for s in x[1]] + [unS(a) for a in x[2]] + [unS(a) for a in x[3]]
    return []


def _wf(v):
    """property clauses on one query vector (include_base=True half)"""
    t = v[0]
    for (hco, gco), (ho, go) in zip(t[2], t[9]):
        if hco and ho:
            return "name-denotes-option-and-command-option"
        if bool(hco) != (gco[0] == 0) or bool(ho) != (go[0] == 0):
            return "has-get-disagree"
    args = t[7]
    multis = [i for i, a in enumerate(args) if a[2]]
    if len(multis) > 1 or (multis and multis[0] != len(args) - 1):
        return "multi-valued-argument-not-last-or-not-unique"
    seen_optional = False
    for a in args:
        if not a[1]:
            seen_optional = True
        elif seen_optional:
            return "required-argument-after-optional"
    for half in v:
        names = [a[0] for a in half[7]]
        for i, (h, g) in zip(POSITIONS, half[6]):
            exp = 0 <= i < len(names)
            if bool(h) != exp or (exp and g != [0, names[i]]) or (not exp and g[0] == 0):
                return "positional-lookup-disagrees-with-listing"
            if not exp and g != [-1, 4]:
                return "positional-lookup-wrong-exception:%d" % g[1]
        for n, (h, g) in zip(POOL, half[5]):
            if bool(h) != (S(n) in names) or (h and g != [0, S(n)]):
                return "named-argument-lookup-disagrees-with-listing"
        hm, hopt, hreq, hargs = half[8]
        if bool(hm) != any(a[2] for a in half[7]) or bool(hopt) != any(not a[1] for a in half[7]) or \
           bool(hreq) != any(a[1] for a in half[7]) or bool(hargs) != bool(half[7]):
            return "argument-predicates-disagree-with-listing"
        if bool(half[11]) != bool(half[10]) or bool(half[4]) != bool(half[3]) or bool(half[1]) != bool(half[0]):
            return "has-listing-disagree"
    return None


def oracle(c, o):
    if o[0] != 0:
        return "base-construction-failed:%d" % o[1]
    if o[-1] == 0:
        return "base-format-changed-by-what-was-built-on-top-of-it"
    prev = None
    any_err = False
    # every name the base levels and the accepted additions so far use for an option or a command option (tracked while
    # the history has additions only: a replacement drops an unknown part of it)
    taken = set(n for lvl in c["bases"] for el in lvl for n in _names_of(el))
    for op, st in zip(c["ops"], o[1]):
        e = st[0]
        if e and e[0] not in (5, 6):
            return "wrong-exception:%d" % e[0]
        if e:
            any_err = True
        if taken is not None:
            if op[0] > 3:
                taken = None
            elif not e:
                mine = _names_of(op)
                if any(n in taken for n in mine):
                    return "accepted-a-name-that-already-identifies-an-option"
                taken.update(mine)
        if len(st) == 1:
            prev = None
            continue
        e, bv, fv, pre, fin_same = st
        if e and op[0] <= 3 and pre is not None and bv != pre:
            return "rejected-add-changed-builder"
        if not fin_same:
            return "finished-format-changed-when-its-builder-moved-on"
        if op[0] >= 4:
            # a replacement: what the builder lists of its own afterwards is what it was handed (up to the rejected
            # element, when one was rejected) - nothing older survives
            own = bv[1]
            given = [unS(y[0]) for y in op[1]]
            listed = {4: [unS(n) for n in own[10]], 5: [unS(n) for n in own[3]], 6: [unS(a[0]) for a in own[7]],
                      7: [unS(n[0]) for n in own[0]]}[op[0]]
            if op[0] == 5:
                listed = [n for i, n in enumerate(listed) if n not in listed[:i]]      # listed once per name and alias
            if (listed != given) if not e else (listed != given[:len(listed)]):
                return "replacement-keeps-or-loses-elements"
        if bv != fv:
            return "format-disagrees-with-builder"
        w = _wf(bv)
        if w:
            return w
        prev = bv
    if o[2]:
        r = o[2][0]
        if (r[0] != 0) != any_err:
            return "element-constructor-rules-differ"
        if r[0] == 0 and o[1] and r[1] != o[1][-1][2]:
            return "element-constructor-format-differs"
    if c.get("cfg") and o[3] and o[3][0] != o[2][0]:
        return "configuration-built-format-differs-from-element-constructor"
    return None


def nontrivial_key(c, o):
    if o[0] == 0:
        errs = sum(1 for st in o[1] if st[0])
        if errs >= 1 or len(o[1]) - errs >= 2:
            return [c["bases"], c["ops"]]
    return None


def shrink(c):
    ops = c["ops"]
    if c.get("cfg"):
        return
    for i in range(len(ops)):
        yield {"bases": c["bases"], "ops": ops[:i] + ops[i + 1:], "every": 1}
    if c["bases"]:
        yield {"bases": c["bases"][:-1], "ops": ops, "every": 1}
