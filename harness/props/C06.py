"""C06 - an args format can never be built into an inconsistent state."""
import itertools
from hutil import S, unS, err, exc_code, enc_val

MODEL = "C06"
PROP_FILES = ["Props/C06.v"]
RULE = ("op sequences over a 20-op alphabet (add option / command option with aliases / argument / command name, set_* "
        "replacements) drawn from a colliding name pool, on 0, 1 and 2 levels of base format (one chain with an empty level on top of a defining one); exhaustive to length 3 (quick) / 4 "
        "(thorough), seeded random to length 7; after every op the exception class and the full query vector of the builder and of "
        "builder.format are compared, plus ArgsFormat(elements, base) for add-only sequences; non-trivial = >= 1 rejection or >= 2 "
        "accepted elements; distinct by (bases, ops)")
TRUSTED = []
ASSUMPTIONS = ["elements are valid Option/CommandOption/Argument/CommandName objects (their construction is C07)"]

POOL = ["foo", "f", "bar", "b", "cmd", "c", "arg1", "arg2", "multi", "yy", "z", "baz", "other", "arg3"]
REQ, OPT, MULTI = 1, 2, 4
OPTS = [["foo", "f"], ["bar", "b"], ["foo", None], ["baz", "f"]]
COPTS = [["foo", "f", [], []], ["cmd", "c", ["bar"], ["b"]], ["other", None, ["foo", "yy"], []], ["zz", "z", [], ["f"]],
         ["nos", None, [], ["b"]]]        # no short name of its own, but a one-letter alias (seeded change C06-h)
ARGS = [["arg1", REQ], ["arg2", OPT], ["arg1", OPT], ["multi", MULTI], ["arg3", REQ | MULTI], ["arg3", REQ]]
CNAMES = [["server", ["srv"]], ["add", []]]


def e_opt(o):
    return [0, [S(o[0]), [] if o[1] is None else [S(o[1])], 0, [0]]]


def e_copt(c):
    return [1, [S(c[0]), [] if c[1] is None else [S(c[1])], [S(a) for a in c[2]], [S(a) for a in c[3]]]]


def e_arg(a):
    return [2, [S(a[0]), a[1], [0]]]


def e_cname(c):
    return [3, [S(c[0]), [S(a) for a in c[1]]]]


ALPHA = ([e_opt(o) for o in OPTS] + [e_copt(c) for c in COPTS] + [e_arg(a) for a in ARGS] + [e_cname(c) for c in CNAMES] +
         [[4, [e_opt(OPTS[1])[1], e_opt(OPTS[3])[1]]], [5, [e_copt(COPTS[1])[1]]],
          [6, [e_arg(ARGS[1])[1], e_arg(ARGS[5])[1]]], [7, [e_cname(CNAMES[1])[1]]]])
BASES = [[],
         [[e_opt(OPTS[1]), e_arg(ARGS[0]), e_cname(CNAMES[0])]],
         [[e_copt(["cmd", "c", ["yy"], []]), e_arg(ARGS[0])], [e_opt(OPTS[0]), e_arg(ARGS[1]), e_cname(["server", []])]],
         # an EMPTY level on top of a level that defines things (a format object that lists nothing of its own must still
         # pass on what its base defines: seeded change C06-f)
         [[e_opt(OPTS[0]), e_copt(["cmd", "c", ["yy"], []]), e_arg(ARGS[1]), e_arg(ARGS[3])], []]]


def gen(rng, tier, info):
    depth = {"quick": 3, "thorough": 4, "search": 2}[tier]
    nrand = {"quick": 3000, "thorough": 40000, "search": 2000}[tier]
    cases = []
    for bi, b in enumerate(BASES):
        for k in range(1, depth + 1):
            for seq in itertools.product(ALPHA, repeat=k):
                cases.append({"bases": b, "ops": list(seq), "every": 0})
    n_ex = len(cases)
    for _ in range(nrand):
        k = rng.randint(depth + 1, 7)
        cases.append({"bases": rng.choice(BASES), "ops": [rng.choice(ALPHA) for _ in range(k)], "every": 1})
    info["exhaustive"] = True
    info["distribution"] = {"exhaustive": n_ex, "max_len": depth, "random": nrand, "alphabet": len(ALPHA), "base_configs": len(BASES)}
    return cases


def wire(c):
    return [c["bases"], c["ops"], [S(p) for p in POOL], c.get("every", 1)]


def describe(c):
    def el(e):
        k, x = e
        if k in (0, 1, 2, 3):
            return ["Option", "CommandOption", "Argument", "CommandName"][k] + repr(_py(e))
        return ["set_options", "set_command_options", "set_arguments", "set_command_names"][k - 4] + repr([_py([k - 4, y]) for y in x])
    return "bases=%s ops=%s" % ([[el(e) for e in lvl] for lvl in c["bases"]], [el(o) for o in c["ops"]])


def _py(e):
    k, x = e
    if k == 0:
        return (unS(x[0]), unS(x[1][0]) if x[1] else None, x[2])
    if k == 1:
        return (unS(x[0]), unS(x[1][0]) if x[1] else None, [unS(a) for a in x[2]] + [unS(a) for a in x[3]])
    if k == 2:
        return (unS(x[0]), x[1])
    return (unS(x[0]), [unS(a) for a in x[1]])


def _mk(e):
    from clikit.api.args.format import Option, CommandOption, Argument, CommandName
    k, x = e
    p = _py(e)
    if k == 0:
        return Option(p[0], p[1], p[2])
    if k == 1:
        return CommandOption(p[0], p[1], p[2])
    if k == 2:
        return Argument(p[0], p[1])
    return CommandName(p[0], p[1])


def _res(fn, enc):
    try:
        return [0, enc(fn())]
    except Exception as e:
        return err(e)


def qvec1(f, incl):
    return [
        [S(c.string) for c in f.get_command_names(incl)],
        int(f.has_command_names(incl)),
        [[int(f.has_command_option(n, incl)), _res(lambda: f.get_command_option(n, incl), lambda c: S(c.long_name))] for n in POOL],
        [S(c.long_name) for c in f.get_command_options(incl)],
        int(f.has_command_options(incl)),
        [[int(f.has_argument(n, incl)), _res(lambda: f.get_argument(n, incl), lambda a: S(a.name))] for n in POOL],
        [[int(f.has_argument(i, incl)), _res(lambda: f.get_argument(i, incl), lambda a: S(a.name))] for i in range(6)],
        [[S(n), int(a.is_required()), int(a.is_multi_valued())] for n, a in f.get_arguments(incl).items()],
        [int(f.has_multi_valued_argument(incl)), int(f.has_optional_argument(incl)), int(f.has_required_argument(incl)), int(f.has_arguments(incl))],
        [[int(f.has_option(n, incl)), _res(lambda: f.get_option(n, incl), lambda o: S(o.long_name))] for n in POOL],
        [S(n) for n in f.get_options(incl)],
        int(f.has_options(incl)),
    ]


def qvec(f):
    return [qvec1(f, True), qvec1(f, False)]


def run_impl(c):
    from clikit.api.args.format import ArgsFormat, ArgsFormatBuilder
    base = None
    try:
        for lvl in c["bases"]:
            base = ArgsFormat([_mk(e) for e in lvl], base)
    except Exception as e:
        return [-3, exc_code(e)]
    b = ArgsFormatBuilder(base)
    steps = []
    add_only = True
    for oi, o in enumerate(c["ops"]):
        k, x = o
        e = None
        pre = qvec(b) if (k <= 3 and (c.get("every", 1) or oi == len(c["ops"]) - 1)) else None
        try:
            if k == 0:
                b.add_option(_mk(o))
            elif k == 1:
                b.add_command_option(_mk(o))
            elif k == 2:
                b.add_argument(_mk(o))
            elif k == 3:
                b.add_command_name(_mk(o))
            else:
                add_only = False
                objs = [_mk([k - 4, y]) for y in x]
                [b.set_options, b.set_command_options, b.set_arguments, b.set_command_names][k - 4](*objs)
        except Exception as ex:
            e = exc_code(ex)
        if c.get("every", 1) or oi == len(c["ops"]) - 1:
            steps.append([[] if e is None else [e], qvec(b), qvec(b.format), pre])
        else:
            steps.append([[] if e is None else [e]])
    tail = []
    if add_only:
        tail = [_res(lambda: ArgsFormat([_mk(o) for o in c["ops"]], base), qvec)]
    return [0, steps, tail]


def canon_impl(c, o):
    if o[0] != 0:
        return o
    return [o[0], [st[:3] for st in o[1]], o[2]]


def _wf(v):
    """property clauses on one query vector (include_base=True half)"""
    t = v[0]
    for (hco, gco), (ho, go) in zip(t[2], t[9]):
        if hco and ho:
            return "name-denotes-option-and-command-option"
        if bool(hco) != (gco[0] == 0) or bool(ho) != (go[0] == 0):
            return "has-get-disagree"
    args = t[7]
    multis = [i for i, a in enumerate(args) if a[2]]
    if len(multis) > 1 or (multis and multis[0] != len(args) - 1):
        return "multi-valued-argument-not-last-or-not-unique"
    seen_optional = False
    for a in args:
        if not a[1]:
            seen_optional = True
        elif seen_optional:
            return "required-argument-after-optional"
    for half in v:
        names = [a[0] for a in half[7]]
        for i, (h, g) in enumerate(half[6]):
            exp = i < len(names)
            if bool(h) != exp or (exp and g != [0, names[i]]) or (not exp and g[0] == 0):
                return "positional-lookup-disagrees-with-listing"
        for n, (h, g) in zip(POOL, half[5]):
            if bool(h) != (S(n) in names) or (h and g != [0, S(n)]):
                return "named-argument-lookup-disagrees-with-listing"
        hm, hopt, hreq, hargs = half[8]
        if bool(hm) != any(a[2] for a in half[7]) or bool(hopt) != any(not a[1] for a in half[7]) or \
           bool(hreq) != any(a[1] for a in half[7]) or bool(hargs) != bool(half[7]):
            return "argument-predicates-disagree-with-listing"
        if bool(half[11]) != bool(half[10]) or bool(half[4]) != bool(half[3]) or bool(half[1]) != bool(half[0]):
            return "has-listing-disagree"
    return None


def oracle(c, o):
    if o[0] != 0:
        return "base-construction-failed:%d" % o[1]
    prev = None
    any_err = False
    for op, st in zip(c["ops"], o[1]):
        e = st[0]
        if e and e[0] not in (5, 6):
            return "wrong-exception:%d" % e[0]
        if e:
            any_err = True
        if len(st) == 1:
            prev = None
            continue
        e, bv, fv, pre = st
        if e and op[0] <= 3 and pre is not None and bv != pre:
            return "rejected-add-changed-builder"
        if bv != fv:
            return "format-disagrees-with-builder"
        w = _wf(bv)
        if w:
            return w
        prev = bv
    if o[2]:
        r = o[2][0]
        if (r[0] != 0) != any_err:
            return "element-constructor-rules-differ"
        if r[0] == 0 and o[1] and r[1] != o[1][-1][2]:
            return "element-constructor-format-differs"
    return None


def nontrivial_key(c, o):
    if o[0] == 0:
        errs = sum(1 for st in o[1] if st[0])
        if errs >= 1 or len(o[1]) - errs >= 2:
            return [c["bases"], c["ops"]]
    return None


def shrink(c):
    ops = c["ops"]
    for i in range(len(ops)):
        yield {"bases": c["bases"], "ops": ops[:i] + ops[i + 1:], "every": 1}
    if c["bases"]:
        yield {"bases": c["bases"][:-1], "ops": ops, "every": 1}
