"""C17 - what is rendered does not depend on what was processed before."""
import itertools, json, copy
from hutil import S, unS, err, exc_code
import parsergen as G
import treegen as T
import props.C09 as C09

MODEL = "C17"
PROP_FILES = ["Props/C17.v"]
RULE = ("one DefaultApplicationConfig application run on every sequence of 2 (quick) / 3 (thorough) command lines drawn from 15 line "
        "kinds per tree (valid, with arguments, unknown command, help <cmd>, <cmd> -h, help <cmd> --num=abc, <cmd> --num=abc -h (the help resolver's lenient re-parse raises), version, unknown "
        "option, too many arguments, handler raising), random sequences of 4-6, each run compared with a freshly built application; "
        "all orders of constructing the predefined table styles (+ customisations) then rendering one table with each; every "
        "component rendered twice; non-trivial = runs of different kinds in one history; distinct by (tree, lines). Trees with DUPLICATE "
        "sibling names (Command.add_sub_command keeps both, the collections resolve the last): grp{x strict, x lenient} in both orders, "
        "three x, an anonymous default x beside a named x, two default x, aliases, a third level, a disabled top-level twin, random "
        "trees with one sub-command doubled (leniency flipped); per tree the history 'p extra; help p; p extra; p --help; p extra' for "
        "every doubled path p, all sequences of 2 / 3 lines of the pool of those paths, random histories; every handler is tagged with "
        "the position of its configuration (which sibling ran is observed), the effective leniency of every configuration after the "
        "history is compared with a fresh application; an enabled top-level twin is refused by both sides")
TRUSTED = ["'rendering twice gives identical output' is trivially true of a functional model: carried by the correspondence run (testing)"]
ASSUMPTIONS = []


def ensure_num(t):
    """the first command the pool addresses gets a typed option (--num, INTEGER) unless the name is taken in its subtree:
    'help <cmd> --num=abc' then makes the lenient re-parse of the help resolver RAISE (seeded change C17-d)"""
    def names(c):
        out = [o["long"] for o in c["opts"]] + [o["short"] for o in c["opts"] if o["short"]]
        for s_ in c["subs"]:
            out += names(s_)
        return out
    for c in t["cmds"][1:]:
        if c["enabled"] and not c["anonymous"]:
            taken = names(c) + [o["long"] for o in t["opts"]] + [o["short"] for o in t["opts"] if o["short"]]
            if "num" not in taken and "u" not in taken:
                c["opts"] = list(c["opts"]) + [G.opt("num", "u", G.REQ_V | G.O_INT, None)]
            return t
    return t


def line_pool(t, rng):
    ps = C09.paths(t)
    lines = [[], ["zz"], ["--version"], ["help"]]
    for p, args in ps[:3]:
        vals = ["x"] * sum(1 for a in args if a["flags"] & G.A_REQ)
        lines += [p + vals, p + vals + ["-h"], ["help"] + p, ["help"] + p + ["--num=abc"], p + vals + ["--num=abc", "-h"], p + vals + ["--nosuch"],
                  p + vals + ["e1", "e2", "e3", "e4"], p + vals + ["boom"], p + ["--num=abc"], p + vals + ["-V"]]
    out, seen = [], set()
    for l in lines:
        if tuple(l) not in seen:
            seen.add(tuple(l))
            out.append(l)
    return out


# ---------------------------------------------------------------- duplicate sibling names
def _x(lenient, desc, **kw):
    return T.cmd("x", lenient=lenient, desc=desc, **kw)


def _grp(subs, **kw):
    return T.cmd("grp", subs=subs, desc="a group", **kw)


def _dtree(cmds):
    return {"opts": list(C09.GLOBAL_OPTS), "args": [], "cmds": [C09.HELP_CMD] + cmds}


def fixed_dup_trees():
    """(tree, paths the histories address); the tree of the model's Example runs_independent_duplicate_subcommands first"""
    out = []
    out.append((_dtree([_grp([_x(False, "strict x"), _x(True, "lenient x")])]), [["grp", "x"]]))
    out.append((_dtree([_grp([_x(True, "lenient x"), _x(False, "strict x")])]), [["grp", "x"]]))
    out.append((_dtree([_grp([_x(False, "strict x 1"), _x(True, "lenient x 2"), _x(False, "strict x 3")])]), [["grp", "x"]]))
    # one name path, two command objects: "help grp" reaches the anonymous default x, "help grp x" the named one
    out.append((_dtree([_grp([_x(False, "anonymous default strict x", anonymous=True), _x(True, "named lenient x")])]),
                [["grp"], ["grp", "x"]]))
    out.append((_dtree([_grp([_x(True, "named lenient x"), _x(False, "anonymous default strict x", anonymous=True)])]),
                [["grp"], ["grp", "x"]]))
    # two default sub-commands of one name: the default collection holds the last
    out.append((_dtree([_grp([_x(True, "default lenient x", default=True), _x(False, "default strict x", default=True)])]),
                [["grp"], ["grp", "x"]]))
    out.append((_dtree([_grp([_x(False, "default strict x", default=True), _x(True, "plain lenient x")])]),
                [["grp"], ["grp", "x"]]))
    # the alias of the first sibling leads to the name, the name to the last sibling
    out.append((_dtree([_grp([_x(False, "strict x alias y", aliases=["y"]), _x(True, "lenient x", args=[G.arg("b2", G.A_OPT, "dv")])])]),
                [["grp", "x"], ["grp", "y"]]))
    # a third level: grp x resolves to the second x, its y to the last y there
    out.append((_dtree([_grp([_x(False, "x 1", subs=[T.cmd("y", lenient=False, desc="y 1.1"), T.cmd("y", lenient=True, desc="y 1.2")]),
                              _x(True, "x 2", subs=[T.cmd("y", lenient=True, desc="y 2.1"), T.cmd("y", lenient=False, desc="y 2.2")])])]),
                [["grp", "x", "y"], ["grp", "x"]]))
    # top level: a twin is accepted only when it is disabled
    out.append((_dtree([_grp([_x(True, "x of the disabled twin")], enabled=False),
                        _grp([_x(False, "strict x"), _x(True, "lenient x")])]), [["grp", "x"]]))
    out.append((_dtree([_grp([_x(False, "strict x"), _x(True, "lenient x")]),
                        _grp([_x(True, "x of the disabled twin")], enabled=False)]), [["grp", "x"]]))
    return out


def random_dup_tree(rng):
    """a seeded tree in which one enabled named sub-command is doubled: same name, leniency flipped, at the front or at the end"""
    for _ in range(200):
        t = C09.default_tree(rng, 2)
        cands = []
        for ci, c in enumerate(t["cmds"]):
            if ci == 0 or not c["enabled"] or c["anonymous"]:
                continue
            for s_ in c["subs"]:
                if s_["enabled"] and not s_["anonymous"]:
                    cands.append((c, s_))
        if not cands:
            continue
        c, s_ = rng.choice(cands)
        twin = json.loads(json.dumps(s_))
        twin["lenient"] = not s_["lenient"]
        twin["desc"] = "the twin"
        if rng.random() < 0.3:
            twin["default"] = not s_["default"]
        if rng.random() < 0.3:
            twin["aliases"] = []
        subs = list(c["subs"])
        if rng.random() < 0.5:
            subs.append(twin)
        else:
            subs.insert(0, twin)
        c["subs"] = subs
        return t, [[c["name"], s_["name"]], [c["name"]]]
    raise RuntimeError("no tree with a sub-command")


def resolve_sibling(cmds, n):
    """what a named collection built from these siblings returns for the token n (CommandCollection.get: the name index, then
    the alias index -> name -> the command filed under that name): the LAST enabled named sibling of the name"""
    named = [c for c in cmds if c["enabled"] and not c["anonymous"]]
    byname = [c for c in named if c["name"] == n]
    if byname:
        return byname[-1]
    owners = [c for c in named if n in c["aliases"]]
    if not owners:
        return None
    return [c for c in named if c["name"] == owners[-1]["name"]][-1]


def resolved_args(t, p):
    """the arguments (inherited + own) of the command the named collections resolve along p"""
    cmds, args = t["cmds"], []
    for n in p:
        hit = resolve_sibling(cmds, n)
        if hit is None:
            return args
        args = args + hit["args"]
        cmds = hit["subs"]
    return args


def dup_pool(t, focus):
    lines = [[]]
    for p in focus[:2]:
        vals = ["x"] * sum(1 for a in resolved_args(t, p) if a["flags"] & G.A_REQ)
        lines += [p + vals + ["extra"], ["help"] + p, p + vals + ["--help"], p + vals, ["help"] + p + ["--num=abc"],
                  p + vals + ["--num=abc", "-h"]]
    out, seen = [], set()
    for l in lines:
        if tuple(l) not in seen:
            seen.add(tuple(l))
            out.append(l)
    return out


def dup_history(t, p):
    vals = ["x"] * sum(1 for a in resolved_args(t, p) if a["flags"] & G.A_REQ)
    e = p + vals + ["extra"]
    return [e, ["help"] + p, e, p + vals + ["--help"], e]


def gen_dups(rng, tier):
    cases = []
    trees = [(ensure_num(json.loads(json.dumps(t))), f) for t, f in fixed_dup_trees()]
    for _ in range({"quick": 4, "thorough": 16, "search": 2}[tier]):
        t, f = random_dup_tree(rng)
        trees.append((ensure_num(t), f))
    depth = {"quick": 2, "thorough": 3, "search": 2}[tier]
    for t, focus in trees:
        for p in focus:
            cases.append({"k": 0, "tree": t, "lines": dup_history(t, p), "dup": 1})
        pool = dup_pool(t, focus)[:10]
        for k in range(2, depth + 1):
            for seq in itertools.product(range(len(pool)), repeat=k):
                cases.append({"k": 0, "tree": t, "lines": [pool[i] for i in seq], "dup": 1})
        for _ in range({"quick": 30, "thorough": 200, "search": 10}[tier]):
            cases.append({"k": 0, "tree": t, "lines": [rng.choice(pool) for _ in range(rng.randint(4, 6))], "dup": 1})
    # an ENABLED top-level twin: the application cannot be built (CannotAddCommandException), on both sides
    bad = _dtree([_grp([_x(False, "strict x")]), _grp([_x(True, "lenient x")])])
    cases.append({"k": 0, "tree": bad, "lines": [["grp", "x"]], "dup": 1})
    return cases, len(trees)


STYLE_OPS = ["borderless", "compact", "ascii", "solid"]


def gen(rng, tier, info):
    ntrees = {"quick": 10, "thorough": 40, "search": 4}[tier]
    depth = {"quick": 2, "thorough": 3, "search": 2}[tier]
    cases = []
    for ti in range(ntrees):
        t = ensure_num(C09.default_tree(rng, 2))
        pool = line_pool(t, rng)[:17]
        for k in range(2, depth + 1):
            for seq in itertools.product(range(len(pool)), repeat=k):
                cases.append({"k": 0, "tree": t, "lines": [pool[i] for i in seq]})
        for _ in range({"quick": 100, "thorough": 600, "search": 30}[tier]):
            cases.append({"k": 0, "tree": t, "lines": [rng.choice(pool) for _ in range(rng.randint(4, 6))]})
    dups, n_dup_trees = gen_dups(rng, tier)
    cases.extend(dups)
    n_runs = len(cases)
    for perm in itertools.permutations(range(4)):
        for custom in (None, 0, 2):
            cases.append({"k": 1, "order": list(perm), "custom": custom})
    for comp in ("table", "apphelp", "cmdhelp", "paragraph", "labeled", "nameversion", "progress", "trace"):
        cases.append({"k": 2, "comp": comp})
    info["exhaustive"] = True
    info["distribution"] = {"trees": ntrees, "trees_with_duplicate_sibling_names": n_dup_trees, "histories_on_them": len(dups),
                            "run_histories": n_runs, "style_orders": 72, "components": 8}
    return cases


def wire(c):
    if c["k"] == 0:
        return [0, T.wire_app(c["tree"]), [[S(t) for t in l] for l in c["lines"]]]
    return [1]


def describe(c):
    if c["k"] == 0:
        return "lines in order: %r on tree with commands %r" % (c["lines"], [x["name"] for x in c["tree"]["cmds"]])
    return repr(c)


def _obs(r):
    return [r["status"], r["out"], r["err"], r["handler"], r["seen"], r["answer"], None if r["exc"] is None else type(r["exc"]).__name__]


ROWS = [["ISBN", "Title", "Author"], ["99921-58-10-7", "Divine Comedy", "Dante Alighieri"], ["9971-5-0210-0", "A Tale of Two Cities, a rather long title that wraps", "Charles Dickens"]]


def _render_table(style):
    from clikit.io import BufferedIO
    from clikit.ui.components import Table
    io = BufferedIO()
    t = Table(style)
    t.set_header_row(list(ROWS[0]))
    t.add_rows([list(r) for r in ROWS[1:]])
    t.render(io)
    return io.fetch_output()


def _configs(config):
    """every command configuration of the application except the built-in help command, with its position among ALL the
    configurations given (disabled ones count), depth first"""
    out = []

    def go(cc, pos):
        out.append((pos, cc))
        for i, sc in enumerate(cc.sub_command_configs):
            go(sc, pos + [i])
    for i, cc in enumerate([x for x in config.command_configs if x.name != "help"]):
        go(cc, [i])
    return out


class _Tagged(object):
    """the handler of one configuration, telling which configuration it belongs to"""

    def __init__(self, inner, tag, rec):
        self.inner, self.tag, self.rec = inner, tag, rec

    def handle(self, args, io, command):
        self.rec["tag"] = self.tag
        return self.inner.handle(args, io, command)


def _fresh(tree):
    key = json.dumps(tree, sort_keys=True)
    C09._APPS.pop(key, None)
    app, config, rec = C09._mk(tree)
    for pos, cc in _configs(config):
        cc.set_handler(_Tagged(cc.handler, ".".join(map(str, pos)), rec))
    return app, config, rec


def _leniency(config):
    return [[".".join(map(str, pos)), bool(cc.is_lenient_args_parsing_enabled())] for pos, cc in _configs(config)]


def _touched(config):
    return [".".join(map(str, pos)) for pos, cc in _configs(config) if cc._lenient_args_parsing is not None]


def _expected_tags(tree, path):
    """positions (among all configurations given) a handler run reported under the name path may belong to: down the path the
    last enabled named sibling of each name; the last step may also be the last enabled DEFAULT sibling of that name"""
    if path is None:
        return None
    cmds = [c for c in tree["cmds"] if c["name"] != "help"]
    pos = []
    for k, n in enumerate(path):
        idx = [i for i, c in enumerate(cmds) if c["enabled"] and not c["anonymous"] and c["name"] == n]
        if k == len(path) - 1:
            dflt = [i for i, c in enumerate(cmds) if c["enabled"] and c["default"] and c["name"] == n]
            return [".".join(map(str, pos + [i[-1]])) for i in (idx, dflt) if i]
        if not idx:
            return []
        pos.append(idx[-1])
        cmds = cmds[idx[-1]]["subs"]
    return []


def _classify_shadowed(tree, toks, action):
    """C09's classifier knows the help pages of the commands the sub-command collections list (one per name); a page of a
    command that is only reachable as a default sub-command (an anonymous x beside a named x) is looked up here"""
    from clikit.io import BufferedIO
    from clikit.ui.help import CommandHelp
    app, config, rec = C09._mk(tree)
    text = C09._SGR.sub("", C09._run(tree, toks, True)["out"])
    seen, hits = set(), []

    def go(cmd):
        if id(cmd) in seen:
            return
        seen.add(id(cmd))
        io = BufferedIO()
        CommandHelp(cmd).render(io)
        if io.fetch_output() == text:
            hits.append(cmd.full_name.split(" "))
        for coll in (cmd.sub_commands, cmd.named_sub_commands, cmd.default_sub_commands):
            for s_ in coll:
                go(s_)
    for coll in (app.commands, app.named_commands, app.default_commands):
        for cmd in coll:
            go(cmd)
    if hits:
        return [1, [S(p) for p in hits[0]]]
    return action


def run_impl(c):
    import os
    os.environ["COLUMNS"] = "80"
    if c["k"] == 0:
        tree = c["tree"]
        try:
            app, config, rec = _fresh(tree)
        except (Exception, SystemExit) as e:
            # the configuration is refused (a second enabled top-level command of one name): nothing to run.  With
            # catch_exceptions on, ConsoleApplication.__init__ reports and exits; the exception itself is seen with it off
            if isinstance(e, SystemExit):
                try:
                    T.mk_app({"opts": [], "args": [], "cmds": [x for x in tree["cmds"] if x["name"] != "help"]})
                except Exception as e2:
                    e = e2
            return [[-3, exc_code(e)], [], [], None]
        len0 = _leniency(config)
        reused = []
        for l in c["lines"]:
            r = C09._run(tree, l, True)
            reused.append(_obs(r) + [rec.get("tag")])
        len1 = _leniency(config)
        touched = _touched(config)
        fresh = []
        for l in c["lines"]:
            app2, config2, rec2 = _fresh(tree)
            fresh.append(_obs(C09._run(tree, l, True)) + [rec2.get("tag")])
        # classification of each run for the comparison with the model: through C09's classifier on a fresh application
        cls = []
        for l in c["lines"]:
            C09._APPS.pop(json.dumps(tree, sort_keys=True), None)
            C09._PAGES.pop(json.dumps(tree, sort_keys=True), None)
            o = C09.run_impl({"tree": tree, "toks": l, "k": -1})
            a = C09.canon_impl(None, o)[1:]
            if a[1][0] == 9:
                a = [a[0], _classify_shadowed(tree, l, a[1])]
            cls.append(a)
        return [[0, cls], reused, fresh, {"len0": len0, "len1": len1, "touched": touched,
                                          "expected_tags": [_expected_tags(tree, x[3]) for x in reused]}]
    if c["k"] == 1:
        from clikit.ui.style import TableStyle
        makers = {"borderless": TableStyle.borderless, "compact": TableStyle.compact, "ascii": TableStyle.ascii, "solid": TableStyle.solid}
        styles = []
        for i in c["order"]:
            styles.append((STYLE_OPS[i], makers[STYLE_OPS[i]]()))
        if c["custom"] is not None:
            styles[c["custom"]][1].border_style.line_vc_char = "!"
            styles[c["custom"]][1].border_style.line_hc_char = "~"
        got = {}
        for j, (n, s) in enumerate(styles):
            if c["custom"] is not None and j == c["custom"]:
                continue
            got[n] = _render_table(s)
        return [[1], got]
    from clikit.io import BufferedIO
    outs = []
    comp = c["comp"]
    before_after = None
    for _ in range(2):
        io = BufferedIO()
        if comp == "table":
            from clikit.ui.components import Table
            from clikit.ui.style import TableStyle
            if not outs:
                t = Table(TableStyle.solid())
                t.set_header_row(list(ROWS[0]))
                t.add_rows([list(r) for r in ROWS[1:]])
                c["_t"] = t
                before_after = [copy.deepcopy(t._rows), copy.deepcopy(t._header_row)]
            c["_t"].render(io)
            if outs:
                before_after += [copy.deepcopy(c["_t"]._rows), copy.deepcopy(c["_t"]._header_row)]
        elif comp in ("apphelp", "cmdhelp"):
            import random
            from clikit.ui.help import ApplicationHelp, CommandHelp
            if not outs:
                tree = C09.default_tree(random.Random(5), 2)
                c["_app"] = C09._mk(tree)[0]
            app = c["_app"]
            (ApplicationHelp(app) if comp == "apphelp" else CommandHelp(list(app.commands)[-1])).render(io)
        elif comp == "paragraph":
            from clikit.ui.components import Paragraph
            if not outs:
                c["_p"] = Paragraph("Lorem ipsum dolor sit amet, consetetur sadipscing elitr, sed diam nonumy eirmod tempor invidunt ut labore et dolore magna")
            c["_p"].render(io)
        elif comp == "labeled":
            from clikit.ui.components import LabeledParagraph
            if not outs:
                c["_p"] = LabeledParagraph("Label", "Lorem ipsum dolor sit amet, consetetur sadipscing elitr, sed diam nonumy eirmod tempor invidunt ut labore")
            c["_p"].render(io)
        elif comp == "nameversion":
            from clikit.ui.components import NameVersion
            from clikit.api.config.application_config import ApplicationConfig
            if not outs:
                c["_p"] = NameVersion(ApplicationConfig("tool", "2.1"))
            c["_p"].render(io)
        elif comp == "progress":
            from clikit.ui.components import ProgressBar
            bar = ProgressBar(io, 10, 0)
            bar.start()
            bar.advance(3)
            outs.append(io.fetch_error())
            continue
        else:
            from clikit.ui.components.exception_trace import ExceptionTrace
            if not outs:
                try:
                    raise RuntimeError("failed <b>here</b>")
                except RuntimeError as e:
                    c["_e"] = e
            ExceptionTrace(c["_e"]).render(io)
        outs.append(io.fetch_output() + io.fetch_error())
    return [[1], outs, before_after]


def canon_impl(c, o):
    return o[0]


def canon_model_w(c, w):
    from hutil import from_wire, to_wire
    m = from_wire(w)
    if m[0] != 0 or c["k"] != 0:
        return w
    out = []
    for st, a in m[1]:
        if a[0] == 2:
            a = [5, a[1]]
        out.append([st, a])
    return to_wire([0, out])


_FRESH = {}


def oracle(c, o):
    if c["k"] == 0:
        reused, fresh = o[1], o[2]
        for i, (a, b) in enumerate(zip(reused, fresh)):
            if a != b:
                names = ["status", "stdout", "stderr", "handler", "settings-seen", "answer", "escaped-exception", "which-sibling-ran"]
                which = [n for n, x, y in zip(names, a, b) if x != y]
                return "run-%d-differs-from-fresh-application:%s" % (i + 1, ",".join(which))
        st = o[3]
        if st is not None:
            if st["len0"] != st["len1"]:
                return "leniency-of-a-command-changed-by-the-history"
            for a, exp in zip(reused, st["expected_tags"]):
                if a[3] is not None and a[7] not in exp:
                    return "handler-of-another-sibling-ran"
        return None
    if c["k"] == 1:
        from clikit.ui.style import TableStyle
        for n, text in o[1].items():
            if n not in _FRESH:
                # what a table rendered with that predefined style looks like when nothing else was ever constructed
                # cannot be recomputed in this process: compare all orders against each other through a module-level table
                _FRESH[n] = text
            if _FRESH[n] != text:
                return "style-rendering-depends-on-other-styles:" + n
        return None
    outs = o[1]
    if outs[0] != outs[1]:
        return "second-render-differs:" + c["comp"]
    if o[2] is not None and (o[2][0] != o[2][2] or o[2][1] != o[2][3]):
        return "render-modified-the-table"
    return None


def nontrivial_key(c, o):
    if c["k"] == 0:
        kinds = set(json.dumps(x[1][0] if isinstance(x[1], list) else x) for x in o[0][1])
        if len(kinds) >= 2:
            return [json.dumps(c["tree"], sort_keys=True), c["lines"]]
        return None
    return [c.get("order"), c.get("custom"), c.get("comp")]
