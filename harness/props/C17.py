"""C17 - what is rendered does not depend on what was processed before."""
import itertools, json, copy
from hutil import S, unS, err, exc_code
import parsergen as G
import treegen as T
import props.C09 as C09

MODEL = "C17"
PROP_FILES = ["Props/C17.v"]
RULE = ("one DefaultApplicationConfig application run on every sequence of 2 (quick) / 3 (thorough) command lines drawn from 15 line "
        "kinds per tree (valid, with arguments, unknown command, help <cmd>, <cmd> -h, help <cmd> --num=abc, <cmd> --num=abc -h (the help resolver's lenient re-parse raises), version, unknown "
        "option, too many arguments, handler raising), random sequences of 4-6, each run compared with a freshly built application; "
        "all orders of constructing the predefined table styles (+ customisations) then rendering one table with each; every "
        "component rendered twice; non-trivial = runs of different kinds in one history; distinct by (tree, lines)")
THEOREMS = ["runs_independent", "leniency_restored", "styles_independent"]
TRUSTED = ["'rendering twice gives identical output' is trivially true of a functional model: carried by the correspondence run (testing)"]
ASSUMPTIONS = []


def ensure_num(t):
    """the first command the pool addresses gets a typed option (--num, INTEGER) unless the name is taken in its subtree:
    'help <cmd> --num=abc' then makes the lenient re-parse of the help resolver RAISE (seeded change C17-d)"""
    def names(c):
        out = [o["long"] for o in c["opts"]] + [o["short"] for o in c["opts"] if o["short"]]
        for s_ in c["subs"]:
            out += names(s_)
        return out
    for c in t["cmds"][1:]:
        if c["enabled"] and not c["anonymous"]:
            taken = names(c) + [o["long"] for o in t["opts"]] + [o["short"] for o in t["opts"] if o["short"]]
            if "num" not in taken and "u" not in taken:
                c["opts"] = list(c["opts"]) + [G.opt("num", "u", G.REQ_V | G.O_INT, None)]
            return t
    return t


def line_pool(t, rng):
    ps = C09.paths(t)
    lines = [[], ["zz"], ["--version"], ["help"]]
    for p, args in ps[:3]:
        vals = ["x"] * sum(1 for a in args if a["flags"] & G.A_REQ)
        lines += [p + vals, p + vals + ["-h"], ["help"] + p, ["help"] + p + ["--num=abc"], p + vals + ["--num=abc", "-h"], p + vals + ["--nosuch"],
                  p + vals + ["e1", "e2", "e3", "e4"], p + vals + ["boom"], p + ["--num=abc"], p + vals + ["-V"]]
    out, seen = [], set()
    for l in lines:
        if tuple(l) not in seen:
            seen.add(tuple(l))
            out.append(l)
    return out


STYLE_OPS = ["borderless", "compact", "ascii", "solid"]


def gen(rng, tier, info):
    ntrees = {"quick": 10, "thorough": 40, "search": 4}[tier]
    depth = {"quick": 2, "thorough": 3, "search": 2}[tier]
    cases = []
    for ti in range(ntrees):
        t = ensure_num(C09.default_tree(rng, 2))
        pool = line_pool(t, rng)[:17]
        for k in range(2, depth + 1):
            for seq in itertools.product(range(len(pool)), repeat=k):
                cases.append({"k": 0, "tree": t, "lines": [pool[i] for i in seq]})
        for _ in range({"quick": 100, "thorough": 600, "search": 30}[tier]):
            cases.append({"k": 0, "tree": t, "lines": [rng.choice(pool) for _ in range(rng.randint(4, 6))]})
    n_runs = len(cases)
    for perm in itertools.permutations(range(4)):
        for custom in (None, 0, 2):
            cases.append({"k": 1, "order": list(perm), "custom": custom})
    for comp in ("table", "apphelp", "cmdhelp", "paragraph", "labeled", "nameversion", "progress", "trace"):
        cases.append({"k": 2, "comp": comp})
    info["exhaustive"] = True
    info["distribution"] = {"trees": ntrees, "run_histories": n_runs, "style_orders": 72, "components": 8}
    return cases


def wire(c):
    if c["k"] == 0:
        return [0, T.wire_app(c["tree"]), [[S(t) for t in l] for l in c["lines"]]]
    return [1]


def describe(c):
    if c["k"] == 0:
        return "lines in order: %r on tree with commands %r" % (c["lines"], [x["name"] for x in c["tree"]["cmds"]])
    return repr(c)


def _obs(r):
    return [r["status"], r["out"], r["err"], r["handler"], r["seen"], r["answer"], None if r["exc"] is None else type(r["exc"]).__name__]


ROWS = [["ISBN", "Title", "Author"], ["99921-58-10-7", "Divine Comedy", "Dante Alighieri"], ["9971-5-0210-0", "A Tale of Two Cities, a rather long title that wraps", "Charles Dickens"]]


def _render_table(style):
    from clikit.io import BufferedIO
    from clikit.ui.components import Table
    io = BufferedIO()
    t = Table(style)
    t.set_header_row(list(ROWS[0]))
    t.add_rows([list(r) for r in ROWS[1:]])
    t.render(io)
    return io.fetch_output()


def run_impl(c):
    import os
    os.environ["COLUMNS"] = "80"
    if c["k"] == 0:
        tree = c["tree"]
        C09._APPS.pop(json.dumps(tree, sort_keys=True), None)
        reused = []
        actions = []
        for l in c["lines"]:
            r = C09._run(tree, l, True)
            reused.append(_obs(r))
        fresh = []
        for l in c["lines"]:
            C09._APPS.pop(json.dumps(tree, sort_keys=True), None)
            fresh.append(_obs(C09._run(tree, l, True)))
        # classification of each run for the comparison with the model: through C09's classifier on a fresh application
        cls = []
        for l in c["lines"]:
            C09._APPS.pop(json.dumps(tree, sort_keys=True), None)
            C09._PAGES.pop(json.dumps(tree, sort_keys=True), None)
            o = C09.run_impl({"tree": tree, "toks": l, "k": -1})
            cls.append(C09.canon_impl(None, o)[1:])
        return [[0, cls], reused, fresh]
    if c["k"] == 1:
        from clikit.ui.style import TableStyle
        makers = {"borderless": TableStyle.borderless, "compact": TableStyle.compact, "ascii": TableStyle.ascii, "solid": TableStyle.solid}
        styles = []
        for i in c["order"]:
            styles.append((STYLE_OPS[i], makers[STYLE_OPS[i]]()))
        if c["custom"] is not None:
            styles[c["custom"]][1].border_style.line_vc_char = "!"
            styles[c["custom"]][1].border_style.line_hc_char = "~"
        got = {}
        for j, (n, s) in enumerate(styles):
            if c["custom"] is not None and j == c["custom"]:
                continue
            got[n] = _render_table(s)
        return [[1], got]
    from clikit.io import BufferedIO
    outs = []
    comp = c["comp"]
    before_after = None
    for _ in range(2):
        io = BufferedIO()
        if comp == "table":
            from clikit.ui.components import Table
            from clikit.ui.style import TableStyle
            if not outs:
                t = Table(TableStyle.solid())
                t.set_header_row(list(ROWS[0]))
                t.add_rows([list(r) for r in ROWS[1:]])
                c["_t"] = t
                before_after = [copy.deepcopy(t._rows), copy.deepcopy(t._header_row)]
            c["_t"].render(io)
            if outs:
                before_after += [copy.deepcopy(c["_t"]._rows), copy.deepcopy(c["_t"]._header_row)]
        elif comp in ("apphelp", "cmdhelp"):
            import random
            from clikit.ui.help import ApplicationHelp, CommandHelp
            if not outs:
                tree = C09.default_tree(random.Random(5), 2)
                c["_app"] = C09._mk(tree)[0]
            app = c["_app"]
            (ApplicationHelp(app) if comp == "apphelp" else CommandHelp(list(app.commands)[-1])).render(io)
        elif comp == "paragraph":
            from clikit.ui.components import Paragraph
            if not outs:
                c["_p"] = Paragraph("Lorem ipsum dolor sit amet, consetetur sadipscing elitr, sed diam nonumy eirmod tempor invidunt ut labore et dolore magna")
            c["_p"].render(io)
        elif comp == "labeled":
            from clikit.ui.components import LabeledParagraph
            if not outs:
                c["_p"] = LabeledParagraph("Label", "Lorem ipsum dolor sit amet, consetetur sadipscing elitr, sed diam nonumy eirmod tempor invidunt ut labore")
            c["_p"].render(io)
        elif comp == "nameversion":
            from clikit.ui.components import NameVersion
            from clikit.api.config.application_config import ApplicationConfig
            if not outs:
                c["_p"] = NameVersion(ApplicationConfig("tool", "2.1"))
            c["_p"].render(io)
        elif comp == "progress":
            from clikit.ui.components import ProgressBar
            bar = ProgressBar(io, 10, 0)
            bar.start()
            bar.advance(3)
            outs.append(io.fetch_error())
            continue
        else:
            from clikit.ui.components.exception_trace import ExceptionTrace
            if not outs:
                try:
                    raise RuntimeError("failed <b>here</b>")
                except RuntimeError as e:
                    c["_e"] = e
            ExceptionTrace(c["_e"]).render(io)
        outs.append(io.fetch_output() + io.fetch_error())
    return [[1], outs, before_after]


def canon_impl(c, o):
    return o[0]


def canon_model_w(c, w):
    from hutil import from_wire, to_wire
    m = from_wire(w)
    if m[0] != 0 or c["k"] != 0:
        return w
    out = []
    for st, a in m[1]:
        if a[0] == 2:
            a = [5, a[1]]
        out.append([st, a])
    return to_wire([0, out])


_FRESH = {}


def oracle(c, o):
    if c["k"] == 0:
        reused, fresh = o[1], o[2]
        for i, (a, b) in enumerate(zip(reused, fresh)):
            if a != b:
                names = ["status", "stdout", "stderr", "handler", "settings-seen", "answer", "escaped-exception"]
                which = [n for n, x, y in zip(names, a, b) if x != y]
                return "run-%d-differs-from-fresh-application:%s" % (i + 1, ",".join(which))
        return None
    if c["k"] == 1:
        from clikit.ui.style import TableStyle
        for n, text in o[1].items():
            if n not in _FRESH:
                # what a table rendered with that predefined style looks like when nothing else was ever constructed
                # cannot be recomputed in this process: compare all orders against each other through a module-level table
                _FRESH[n] = text
            if _FRESH[n] != text:
                return "style-rendering-depends-on-other-styles:" + n
        return None
    outs = o[1]
    if outs[0] != outs[1]:
        return "second-render-differs:" + c["comp"]
    if o[2] is not None and (o[2][0] != o[2][2] or o[2][1] != o[2][3]):
        return "render-modified-the-table"
    return None


def nontrivial_key(c, o):
    if c["k"] == 0:
        kinds = set(json.dumps(x[1][0] if isinstance(x[1], list) else x) for x in o[0][1])
        if len(kinds) >= 2:
            return [json.dumps(c["tree"], sort_keys=True), c["lines"]]
        return None
    return [c.get("order"), c.get("custom"), c.get("comp")]
