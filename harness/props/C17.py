"""C17 - what is rendered does not depend on what was processed before."""
import itertools, json, copy
from hutil import S, unS, err, exc_code
import parsergen as G
import treegen as T
import props.C09 as C09

MODEL = "C17"
PROP_FILES = ["Props/C17.v"]
RULE = ("one DefaultApplicationConfig application run on every sequence of 2 command lines (thorough: 3) drawn from a pool of up to 28 "
        "lines per tree - for the first two command paths p: p, p -h, help p, help p --num=abc, p --num=abc -h (the help resolver's "
        "lenient re-parse raises), p --nosuch, too many arguments, p boom (the handler raises), p --num=abc, p -V, and the IO switches "
        "p -q, p -vvv, p --ansi, p -n, p with its own option and a valid value, p boom -vvv (a trace at debug verbosity inside the run); "
        "plus the empty line, an unknown command, --version, help - every sequence of 3 over a core of 8 of them also in the quick tier, "
        "random sequences of 4-6, each run compared with a freshly built application: status, both streams, the command that ran, the "
        "ARGUMENTS AND OPTIONS its handler was given, the IO settings it saw; the classification compared with the model is that of the "
        "runs on the REUSED application; histories in which ONE raw-arguments object is run twice in a row (its tokens before / after "
        "each run recorded); sequences of creating 1-4 predefined table styles, customising one of them (every public field of "
        "TableStyle and BorderStyle, one at a time and all at once) and rendering a table with each - compared with the model's heap of "
        "style objects and with the same style made in a FRESH interpreter process; every component rendered twice, an error trace at "
        "debug verbosity twice and once more after a second exception from the same file (compared with a fresh process); non-trivial = runs of different kinds in one history; distinct by (tree, lines). Trees with DUPLICATE "
        "sibling names (Command.add_sub_command keeps both, the collections resolve the last): grp{x strict, x lenient} in both orders, "
        "three x, an anonymous default x beside a named x, two default x, aliases, a third level, a disabled top-level twin, random "
        "trees with one sub-command doubled (leniency flipped); per tree the history 'p extra; help p; p extra; p --help; p extra' for "
        "every doubled path p, all sequences of 2 / 3 lines of the pool of those paths, random histories; every handler is tagged with "
        "the position of its configuration (which sibling ran is observed), the effective leniency of every configuration after the "
        "history is compared with a fresh application; an enabled top-level twin is refused by both sides")
TRUSTED = ["'rendering twice gives identical output' is trivially true of a functional model: carried by the correspondence run (testing)"]
ASSUMPTIONS = []


def ensure_num(t):
    """the first command the pool addresses gets a typed option (--num, INTEGER) unless the name is taken in its subtree:
    'help <cmd> --num=abc' then makes the lenient re-parse of the help resolver RAISE (seeded change C17-d)"""
    def names(c):
        out = [o["long"] for o in c["opts"]] + [o["short"] for o in c["opts"] if o["short"]]
        for s_ in c["subs"]:
            out += names(s_)
        return out
    for c in t["cmds"][1:]:
        if c["enabled"] and not c["anonymous"]:
            taken = names(c) + [o["long"] for o in t["opts"]] + [o["short"] for o in t["opts"] if o["short"]]
            if "num" not in taken and "u" not in taken:
                c["opts"] = list(c["opts"]) + [G.opt("num", "u", G.REQ_V | G.O_INT, None)]
            return t
    return t


def path_lines(t, p, args):
    """the line kinds addressing the command path p (its required arguments filled in)"""
    vals = ["x"] * sum(1 for a in args if a["flags"] & G.A_REQ)
    own = C09._own_option_tokens(t, p)
    lines = [p + vals, p + vals + ["-h"], ["help"] + p, ["help"] + p + ["--num=abc"], p + vals + ["--num=abc", "-h"], p + vals + ["--nosuch"],
             p + vals + ["e1", "e2", "e3", "e4"], p + vals + ["boom"], p + ["--num=abc"], p + vals + ["-V"],
             # IO switches: what one run sets must not be there in the next
             p + vals + ["-q"], p + vals + ["-vvv"], p + vals + ["--ansi"], p + vals + ["-n"], p + vals + ["boom", "-vvv"]]
    # what a handler does to the formatter of its run (a style added, a tag left open) must not reach the next run
    lines += [p + vals + ["style", "--ansi"], p + vals + ["usezz", "--ansi"], p + vals + ["opentag", "--ansi"], p + vals + ["style"], p + vals + ["usezz"]]
    if own:
        lines.append(p + own + vals)              # the command's own option with a valid value
    # a help request for a line the strict parse refuses, and that line itself (seeded change C17-g)
    lines.append(["help"] + p + vals + ["e1", "e2", "e3", "e4"])
    if vals:
        lines.append(p)
    core = [p + vals, ["help"] + p, p + vals + ["-h"], p + vals + ["-vvv"], p + vals + ["-q"], p + vals + ["boom"],
            ["help"] + p + ["--num=abc"], (p + own + vals) if own else (p + vals + ["--nosuch"])]
    return lines, core


def _dedup(lines):
    out, seen = [], set()
    for l in lines:
        if tuple(l) not in seen:
            seen.add(tuple(l))
            out.append(l)
    return out


def line_pool(t, rng):
    """(pool, core): every line kind for the first command path, the core kinds for the second; the core of the first path"""
    ps = C09.paths(t)
    lines = [[], ["zz"], ["--version"], ["help"]]
    core = []
    for i, (p, args) in enumerate(ps[:2]):
        full, c8 = path_lines(t, p, args)
        lines += full if i == 0 else c8
        if i == 0:
            core = c8
    return _dedup(lines), (_dedup(core) or lines[:4])


# ---------------------------------------------------------------- duplicate sibling names
def _x(lenient, desc, **kw):
    return T.cmd("x", lenient=lenient, desc=desc, **kw)


def _grp(subs, **kw):
    return T.cmd("grp", subs=subs, desc="a group", **kw)


def _dtree(cmds):
    return {"opts": list(C09.GLOBAL_OPTS), "args": [], "cmds": [C09.HELP_CMD] + cmds}


def fixed_dup_trees():
    """(tree, paths the histories address); the tree of the model's Example runs_independent_duplicate_subcommands first"""
    out = []
    out.append((_dtree([_grp([_x(False, "strict x"), _x(True, "lenient x")])]), [["grp", "x"]]))
    out.append((_dtree([_grp([_x(True, "lenient x"), _x(False, "strict x")])]), [["grp", "x"]]))
    out.append((_dtree([_grp([_x(False, "strict x 1"), _x(True, "lenient x 2"), _x(False, "strict x 3")])]), [["grp", "x"]]))
    # one name path, two command objects: "help grp" reaches the anonymous default x, "help grp x" the named one
    out.append((_dtree([_grp([_x(False, "anonymous default strict x", anonymous=True), _x(True, "named lenient x")])]),
                [["grp"], ["grp", "x"]]))
    out.append((_dtree([_grp([_x(True, "named lenient x"), _x(False, "anonymous default strict x", anonymous=True)])]),
                [["grp"], ["grp", "x"]]))
    # two default sub-commands of one name: the default collection holds the last
    out.append((_dtree([_grp([_x(True, "default lenient x", default=True), _x(False, "default strict x", default=True)])]),
                [["grp"], ["grp", "x"]]))
    out.append((_dtree([_grp([_x(False, "default strict x", default=True), _x(True, "plain lenient x")])]),
                [["grp"], ["grp", "x"]]))
    # the alias of the first sibling leads to the name, the name to the last sibling
    out.append((_dtree([_grp([_x(False, "strict x alias y", aliases=["y"]), _x(True, "lenient x", args=[G.arg("b2", G.A_OPT, "dv")])])]),
                [["grp", "x"], ["grp", "y"]]))
    # a third level: grp x resolves to the second x, its y to the last y there
    out.append((_dtree([_grp([_x(False, "x 1", subs=[T.cmd("y", lenient=False, desc="y 1.1"), T.cmd("y", lenient=True, desc="y 1.2")]),
                              _x(True, "x 2", subs=[T.cmd("y", lenient=True, desc="y 2.1"), T.cmd("y", lenient=False, desc="y 2.2")])])]),
                [["grp", "x", "y"], ["grp", "x"]]))
    # top level: a twin is accepted only when it is disabled
    out.append((_dtree([_grp([_x(True, "x of the disabled twin")], enabled=False),
                        _grp([_x(False, "strict x"), _x(True, "lenient x")])]), [["grp", "x"]]))
    out.append((_dtree([_grp([_x(False, "strict x"), _x(True, "lenient x")]),
                        _grp([_x(True, "x of the disabled twin")], enabled=False)]), [["grp", "x"]]))
    return out


def random_dup_tree(rng):
    """a seeded tree in which one enabled named sub-command is doubled: same name, leniency flipped, at the front or at the end"""
    for _ in range(200):
        t = C09.default_tree(rng, 2)
        cands = []
        for ci, c in enumerate(t["cmds"]):
            if ci == 0 or not c["enabled"] or c["anonymous"]:
                continue
            for s_ in c["subs"]:
                if s_["enabled"] and not s_["anonymous"]:
                    cands.append((c, s_))
        if not cands:
            continue
        c, s_ = rng.choice(cands)
        twin = json.loads(json.dumps(s_))
        twin["lenient"] = not s_["lenient"]
        twin["desc"] = "the twin"
        if rng.random() < 0.3:
            twin["default"] = not s_["default"]
        if rng.random() < 0.3:
            twin["aliases"] = []
        subs = list(c["subs"])
        if rng.random() < 0.5:
            subs.append(twin)
        else:
            subs.insert(0, twin)
        c["subs"] = subs
        return t, [[c["name"], s_["name"]], [c["name"]]]
    raise RuntimeError("no tree with a sub-command")


def resolve_sibling(cmds, n):
    """what a named collection built from these siblings returns for the token n (CommandCollection.get: the name index, then
    the alias index -> name -> the command filed under that name): the LAST enabled named sibling of the name"""
    named = [c for c in cmds if c["enabled"] and not c["anonymous"]]
    byname = [c for c in named if c["name"] == n]
    if byname:
        return byname[-1]
    owners = [c for c in named if n in c["aliases"]]
    if not owners:
        return None
    return [c for c in named if c["name"] == owners[-1]["name"]][-1]


def resolved_args(t, p):
    """the arguments (inherited + own) of the command the named collections resolve along p"""
    cmds, args = t["cmds"], []
    for n in p:
        hit = resolve_sibling(cmds, n)
        if hit is None:
            return args
        args = args + hit["args"]
        cmds = hit["subs"]
    return args


def dup_pool(t, focus):
    lines = [[]]
    for p in focus[:2]:
        vals = ["x"] * sum(1 for a in resolved_args(t, p) if a["flags"] & G.A_REQ)
        lines += [p + vals + ["extra"], ["help"] + p, p + vals + ["--help"], p + vals, ["help"] + p + ["--num=abc"],
                  p + vals + ["--num=abc", "-h"]]
    out, seen = [], set()
    for l in lines:
        if tuple(l) not in seen:
            seen.add(tuple(l))
            out.append(l)
    return out


def dup_history(t, p):
    vals = ["x"] * sum(1 for a in resolved_args(t, p) if a["flags"] & G.A_REQ)
    e = p + vals + ["extra"]
    return [e, ["help"] + p, e, p + vals + ["--help"], e]


def gen_dups(rng, tier):
    cases = []
    trees = [(ensure_num(json.loads(json.dumps(t))), f) for t, f in fixed_dup_trees()]
    for _ in range({"quick": 4, "thorough": 16, "search": 2}[tier]):
        t, f = random_dup_tree(rng)
        trees.append((ensure_num(t), f))
    depth = {"quick": 2, "thorough": 3, "search": 2}[tier]
    for t, focus in trees:
        for p in focus:
            cases.append({"k": 0, "tree": t, "lines": dup_history(t, p), "dup": 1})
        pool = dup_pool(t, focus)[:10]
        for k in range(2, depth + 1):
            for seq in itertools.product(range(len(pool)), repeat=k):
                cases.append({"k": 0, "tree": t, "lines": [pool[i] for i in seq], "dup": 1})
        for _ in range({"quick": 30, "thorough": 200, "search": 10}[tier]):
            cases.append({"k": 0, "tree": t, "lines": [rng.choice(pool) for _ in range(rng.randint(4, 6))], "dup": 1})
    # an ENABLED top-level twin: the application cannot be built (CannotAddCommandException), on both sides
    bad = _dtree([_grp([_x(False, "strict x")]), _grp([_x(True, "lenient x")])])
    cases.append({"k": 0, "tree": bad, "lines": [["grp", "x"]], "dup": 1})
    return cases, len(trees)


STYLE_OPS = ["borderless", "compact", "ascii", "solid"]
B_FIELDS = ["line_ht_char", "line_hc_char", "line_hb_char", "line_vl_char", "line_vc_char", "line_vr_char",
            "corner_tl_char", "corner_tr_char", "corner_bl_char", "corner_br_char",
            "crossing_c_char", "crossing_l_char", "crossing_t_char", "crossing_r_char", "crossing_b_char"]
T_FIELDS = ["padding_char", "header_cell_format", "cell_format", "header_cell_style", "cell_style"]
SPEC_A = ["red", None, True, False, False, False, False, False, False]        # fg bg bold underlined italic dark blinking inverse hidden
SPEC_B = [None, "blue", False, True, False, False, False, False, False]
SPEC_C = ["green", None, False, False, False, True, False, False, False]


def custom_ops(i):
    """one operation per public field of TableStyle and of its BorderStyle, all on style i"""
    ops = [["tset", i, 0, "."], ["tset", i, 1, "[{}]"], ["tset", i, 2, "({})"], ["tset", i, 3, SPEC_A], ["tset", i, 4, SPEC_B],
           ["dalign", i, 2], ["align", i, 1, 1], ["align", i, 0, 2], ["aappend", i, 1]]
    ops += [["bset", i, k, "#*~:!;^`',%&$@?"[k]] for k in range(len(B_FIELDS))]
    ops.append(["bstyle", i, SPEC_C])
    return ops


def _old_style_case(c):
    """the earlier case format {order, custom}: construct in that order, customise two border characters of one"""
    ops = [["mk", p] for p in c["order"]]
    if c.get("custom") is not None:
        ops += [["bset", c["custom"], 4, "!"], ["bset", c["custom"], 1, "~"]]
    ops += [["render", j] for j in range(len(c["order"])) if j != c.get("custom")]
    return ops


def style_ops(c):
    return c["ops"] if "ops" in c else _old_style_case(c)


def gen_styles(rng, tier):
    cases = []
    # every order of constructing the four presets; nothing customised / everything customised on one of them
    for perm in itertools.permutations(range(4)):
        for custom in ((None, 0, 2) if tier != "thorough" else (None, 0, 1, 2, 3)):
            ops = [["mk", p] for p in perm]
            if custom is not None:
                ops += custom_ops(custom)
            cases.append({"k": 1, "ops": ops + [["render", j] for j in range(4)]})
    # 1-3 presets (a preset may never have been constructed when another is rendered)
    for n in (1, 2, 3):
        for perm in itertools.permutations(range(4), n):
            for custom in (None, 0):
                ops = [["mk", p] for p in perm] + (custom_ops(custom) if custom is not None else [])
                cases.append({"k": 1, "ops": ops + [["render", j] for j in range(n)]})
    # one field at a time: style 0 customised, another preset beside it, and the SAME preset constructed again afterwards
    pairs = [(3, 0), (0, 1), (1, 0), (2, 3)] if tier != "thorough" else [(a, b) for a in range(4) for b in range(4) if a != b]
    for a, b in pairs:
        for op in custom_ops(0):
            if tier != "thorough" and op[0] == "bset" and op[2] not in (1, 4, 10, 0, 14):
                continue
            cases.append({"k": 1, "ops": [["mk", a], ["mk", b], op, ["render", 1], ["mk", a], ["render", 2], ["render", 0]]})
    # customisation before the other styles exist; the same style rendered twice
    for a in range(4):
        cases.append({"k": 1, "ops": [["mk", a]] + custom_ops(0) + [["mk", b] for b in range(4)] + [["render", j] for j in (0, 1, 2, 3, 4, 0)]})
    # random sequences
    for _ in range({"quick": 40, "thorough": 400, "search": 10}[tier]):
        ops, n = [], 0
        for _ in range(rng.randint(3, 9)):
            r = rng.random()
            if n == 0 or r < 0.35:
                ops.append(["mk", rng.randrange(4)])
                n += 1
            elif r < 0.8:
                op = list(rng.choice(custom_ops(rng.randrange(n))))
                ops.append(op)
            else:
                ops.append(["render", rng.randrange(n)])
        cases.append({"k": 1, "ops": ops + [["render", j] for j in range(n)]})
    return cases


def wire_sop(op):
    from hutil import enc_val
    k = op[0]
    if k == "mk":
        return [0, op[1]]
    if k == "tset":
        return [1, op[1], op[2], enc_val(op[3])]
    if k == "dalign":
        return [2, op[1], op[2]]
    if k == "align":
        return [3, op[1], op[2], op[3]]
    if k == "aappend":
        return [4, op[1], op[2]]
    if k == "bset":
        return [5, op[1], op[2], enc_val(op[3])]
    if k == "bstyle":
        return [6, op[1], enc_val(op[2])]
    return [7, op[1]]


def line_pool_second_core(t):
    ps = C09.paths(t)
    return path_lines(t, ps[1][0], ps[1][1])[1] if len(ps) > 1 else []


def gen(rng, tier, info):
    ntrees = {"quick": 6, "thorough": 24, "search": 3}[tier]
    cases = []
    n_same = 0
    for ti in range(ntrees):
        t = ensure_num(C09.default_tree(rng, 2))
        pool, core = line_pool(t, rng)
        for seq in itertools.product(range(len(pool)), repeat=2):
            cases.append({"k": 0, "tree": t, "lines": [pool[i] for i in seq]})
        # A;B;A and the like: exhaustive over the core kinds of the first path (thorough: of both paths, and the four
        # lines that name no command)
        tri = core if tier != "thorough" else _dedup(pool[:4] + core + line_pool_second_core(t))
        for seq in itertools.product(range(len(tri)), repeat=3):
            cases.append({"k": 0, "tree": t, "lines": [tri[i] for i in seq]})
        for _ in range({"quick": 60, "thorough": 600, "search": 20}[tier]):
            cases.append({"k": 0, "tree": t, "lines": [rng.choice(pool) for _ in range(rng.randint(4, 6))]})
        # ONE raw-arguments object handed to run() twice in a row
        for l in pool:
            cases.append({"k": 0, "tree": t, "lines": [l], "same": 1})
            n_same += 1
        for _ in range({"quick": 20, "thorough": 200, "search": 5}[tier]):
            cases.append({"k": 0, "tree": t, "lines": [rng.choice(pool) for _ in range(rng.randint(2, 3))], "same": 1})
            n_same += 1
    dups, n_dup_trees = gen_dups(rng, tier)
    cases.extend(dups)
    n_runs = len(cases)
    styles = gen_styles(rng, tier)
    cases.extend(styles)
    comps = []
    for comp in ("table", "apphelp", "cmdhelp", "paragraph", "labeled", "nameversion", "progress", "trace", "trace_debug"):
        c = {"k": 2, "comp": comp}
        if comp in ("apphelp", "cmdhelp"):
            c["tree"] = C09.default_tree(rng, 2)
        comps.append(c)
    for tb in ("borderless", "compact", "ascii"):
        comps.append({"k": 2, "comp": "table", "style": tb})
    cases.extend(comps)
    info["exhaustive"] = True
    info["distribution"] = {"trees": ntrees, "trees_with_duplicate_sibling_names": n_dup_trees, "histories_on_them": len(dups),
                            "run_histories": n_runs, "histories_with_one_raw_args_object_run_twice": n_same,
                            "style_sequences": len(styles), "components": len(comps)}
    return cases


def wire(c):
    if c["k"] == 0:
        # same: every line is ONE raw-arguments object handed to run() twice
        return [2 if c.get("same") else 0, T.wire_app(c["tree"]), [[S(t) for t in l] for l in c["lines"]]]
    if c["k"] == 1:
        return [1, [wire_sop(op) for op in style_ops(c)]]
    return [3]


def describe(c):
    if c["k"] == 0:
        return "lines in order%s: %r on tree with commands %r" % (" (each: one raw-arguments object run twice)" if c.get("same") else "",
                                                                     c["lines"], [x["name"] for x in c["tree"]["cmds"]])
    if c["k"] == 1:
        return "table styles: %r" % (style_ops(c),)
    return repr({k: v for k, v in c.items() if k != "tree"})


def _obs(r):
    return [r["status"], r["out"], r["err"], r["handler"], r["seen"], r["answer"], None if r["exc"] is None else type(r["exc"]).__name__]


OBS_NAMES = ["status", "stdout", "stderr", "handler", "settings-seen", "answer", "escaped-exception", "which-sibling-ran", "handler-arguments"]


def _run_raw(tree, raw, catch=True):
    """C09._run with the raw-arguments object given by the caller (so that one object can be handed to run() twice)"""
    from clikit.io.output_stream import BufferedOutputStream
    from clikit.io.input_stream import StringInputStream
    app, config, rec = C09._mk(tree)
    rec.clear()
    if C09._WATCH:
        C09._WATCH[0] = rec
    config.set_catch_exceptions(catch)
    out, errs = BufferedOutputStream(), BufferedOutputStream()
    exc = None
    try:
        st = app.run(raw, StringInputStream("typed\n"), out, errs)
    except Exception as e:
        st, exc = None, e
    return {"status": st, "exc": exc, "out": out.fetch(), "err": errs.fetch(), "handler": rec.get("handler"),
            "answer": rec.get("answer"), "seen": rec.get("seen")}


ROWS = [["ISBN", "Title", "Author"], ["99921-58-10-7", "Divine Comedy", "Dante Alighieri"], ["9971-5-0210-0", "A Tale of Two Cities, a rather long title that wraps", "Charles Dickens"]]


def _render_table(style):
    from clikit.io import BufferedIO
    from clikit.ui.components import Table
    io = BufferedIO()
    t = Table(style)
    t.set_header_row(list(ROWS[0]))
    t.add_rows([list(r) for r in ROWS[1:]])
    t.render(io)
    return io.fetch_output()


def _configs(config):
    """every command configuration of the application except the built-in help command, with its position among ALL the
    configurations given (disabled ones count), depth first"""
    out = []

    def go(cc, pos):
        out.append((pos, cc))
        for i, sc in enumerate(cc.sub_command_configs):
            go(sc, pos + [i])
    for i, cc in enumerate([x for x in config.command_configs if x.name != "help"]):
        go(cc, [i])
    return out


class _Tagged(object):
    """the handler of one configuration, telling which configuration it belongs to"""

    def __init__(self, inner, tag, rec):
        self.inner, self.tag, self.rec = inner, tag, rec

    def handle(self, args, io, command):
        self.rec["tag"] = self.tag
        # what the handler is GIVEN: arguments and options with and without defaults, every lookup by name / position
        self.rec["args"] = G.observe_args(command.args_format, args, [])
        return self.inner.handle(args, io, command)


def _fresh(tree):
    key = json.dumps(tree, sort_keys=True)
    C09._APPS.pop(key, None)
    app, config, rec = C09._mk(tree)
    for pos, cc in _configs(config):
        cc.set_handler(_Tagged(cc.handler, ".".join(map(str, pos)), rec))
    return app, config, rec


def _leniency(config):
    return [[".".join(map(str, pos)), bool(cc.is_lenient_args_parsing_enabled())] for pos, cc in _configs(config)]


def _touched(config):
    return [".".join(map(str, pos)) for pos, cc in _configs(config) if cc._lenient_args_parsing is not None]


def _expected_tags(tree, path):
    """positions (among all configurations given) a handler run reported under the name path may belong to: down the path the
    last enabled named sibling of each name; the last step may also be the last enabled DEFAULT sibling of that name"""
    if path is None:
        return None
    cmds = [c for c in tree["cmds"] if c["name"] != "help"]
    pos = []
    for k, n in enumerate(path):
        idx = [i for i, c in enumerate(cmds) if c["enabled"] and not c["anonymous"] and c["name"] == n]
        if k == len(path) - 1:
            dflt = [i for i, c in enumerate(cmds) if c["enabled"] and c["default"] and c["name"] == n]
            return [".".join(map(str, pos + [i[-1]])) for i in (idx, dflt) if i]
        if not idx:
            return []
        pos.append(idx[-1])
        cmds = cmds[idx[-1]]["subs"]
    return []


def _classify_shadowed(tree, toks, action):
    """C09's classifier knows the help pages of the commands the sub-command collections list (one per name); a page of a
    command that is only reachable as a default sub-command (an anonymous x beside a named x) is looked up here"""
    from clikit.io import BufferedIO
    from clikit.ui.help import CommandHelp
    app, config, rec = C09._mk(tree)
    text = C09._SGR.sub("", C09._run(tree, toks, True)["out"])
    seen, hits = set(), []

    def go(cmd):
        if id(cmd) in seen:
            return
        seen.add(id(cmd))
        io = BufferedIO()
        CommandHelp(cmd).render(io)
        if io.fetch_output() == text:
            hits.append(cmd.full_name.split(" "))
        for coll in (cmd.sub_commands, cmd.named_sub_commands, cmd.default_sub_commands):
            for s_ in coll:
                go(s_)
    for coll in (app.commands, app.named_commands, app.default_commands):
        for cmd in coll:
            go(cmd)
    if hits:
        return [1, [S(p) for p in hits[0]]]
    return action


def _mk_style_obj(spec):
    from clikit.api.formatter import Style
    if spec is None:
        return None
    s = Style()
    if spec[0] is not None:
        s.fg(spec[0])
    if spec[1] is not None:
        s.bg(spec[1])
    s.bold(spec[2]).underlined(spec[3]).italic(spec[4]).dark(spec[5]).blinking(spec[6]).inverse(spec[7]).hidden(spec[8])
    return s


def _enc_style(s):
    from hutil import enc_val
    if s is None:
        return enc_val(None)
    return enc_val([s.foreground_color, s.background_color, bool(s.is_bold()), bool(s.is_underlined()), bool(s.is_italic()),
                    bool(s.is_dark()), bool(s.is_blinking()), bool(s.is_inverse()), bool(s.is_hidden())])


def _style_view(s):
    """every public field of the style object and of the border object it refers to (the model's enc_view)"""
    from hutil import enc_val
    b = s.border_style
    return [enc_val(s.padding_char), enc_val(s.header_cell_format), enc_val(s.cell_format), list(s.column_alignments),
            s.default_column_alignment, _enc_style(s.header_cell_style), _enc_style(s.cell_style),
            [enc_val(getattr(b, f)) for f in B_FIELDS], _enc_style(b.style)]


def _render_styled(style):
    """the fixed table with that style, on an output that decorates (cell and border styles show)"""
    from clikit.io import BufferedIO
    from clikit.formatter import AnsiFormatter
    from clikit.ui.components import Table
    io = BufferedIO(formatter=AnsiFormatter(forced=True))
    t = Table(style)
    t.set_header_row(list(ROWS[0]))
    t.add_rows([list(r) for r in ROWS[1:]])
    t.render(io)
    return io.fetch_output()


def _style_apply(ops):
    """runs the operations on real style objects -> for every render: [view, text]"""
    from clikit.ui.style import TableStyle
    makers = [TableStyle.borderless, TableStyle.compact, TableStyle.ascii, TableStyle.solid]
    styles, outs = [], []
    for op in ops:
        k = op[0]
        if k == "mk":
            styles.append(makers[op[1]]())
            continue
        if op[1] >= len(styles):
            if k == "render":
                outs.append(None)
            continue
        s = styles[op[1]]
        if k == "tset":
            setattr(s, T_FIELDS[op[2]], _mk_style_obj(op[3]) if op[2] >= 3 else op[3])
        elif k == "dalign":
            s.default_column_alignment = op[2]
        elif k == "align":
            s.set_column_alignment(op[2], op[3])
        elif k == "aappend":
            s.column_alignments.append(op[2])
        elif k == "bset":
            setattr(s.border_style, B_FIELDS[op[2]], op[3])
        elif k == "bstyle":
            s.border_style.style = _mk_style_obj(op[2])
        else:
            outs.append([_style_view(s), _render_styled(s)])
    return outs


def _own_ops(ops, upto, i):
    """the operations before position `upto` that concern style i alone: its creation and what names it, renumbered 0"""
    own, n = [], 0
    for op in ops[:upto]:
        if op[0] == "mk":
            if n == i:
                own.append(op)
            n += 1
        elif op[0] != "render" and op[1] == i:
            own.append([op[0], 0] + list(op[2:]))
    return own


_REF = {}


def _fresh_process(fn, arg):
    """props.C17.<fn>(arg) evaluated in a NEW interpreter process (same sources, nothing constructed before)"""
    import subprocess, sys
    code = "import json,sys; import props.C17 as m; print(json.dumps(getattr(m, sys.argv[1])(json.loads(sys.argv[2]))))"
    out = subprocess.run([sys.executable, "-c", code, fn, json.dumps(arg)], stdout=subprocess.PIPE, stderr=subprocess.PIPE, timeout=60)
    if out.returncode != 0:
        raise RuntimeError("fresh process failed: " + out.stderr.decode("utf8", "replace")[-300:])
    return json.loads(out.stdout.decode("utf8"))


def _style_reference(own):
    key = json.dumps(own)
    if key not in _REF:
        _REF[key] = _fresh_process("_style_apply", own + [["render", 0]])[0]
    return _REF[key]


# ---------------------------------------------------------------- error traces at debug verbosity
_TRACE_SRC = (
    "def first(x):\n"
    "    y = x + 1\n"
    "    raise RuntimeError('first <b>failure</b>')\n"
    "\n"
    "\n"
    "def second(x):\n"
    "    z = [x,\n"
    "         x * 2]\n"
    "    raise ValueError('second failure in the same file')\n")


def _trace_seq(arg):
    """[path of a module with two failing functions, which of them to call in order] -> the trace of each failure rendered
    at DEBUG verbosity (a new ExceptionTrace and a new io every time)"""
    import importlib.util
    from clikit.io import BufferedIO
    from clikit.api.io.flags import DEBUG
    from clikit.ui.components.exception_trace import ExceptionTrace
    path, seq = arg
    spec = importlib.util.spec_from_file_location("c17_trace_mod", path)
    m = importlib.util.module_from_spec(spec)
    spec.loader.exec_module(m)
    outs = []
    for name in seq:
        try:
            getattr(m, name)(1)
        except Exception as e:
            io = BufferedIO()
            io.set_verbosity(DEBUG)
            ExceptionTrace(e).render(io)
            outs.append(io.fetch_output() + io.fetch_error())
    return outs


_FRESH_OBS = {}


def run_impl(c):
    import os
    os.environ["COLUMNS"] = "80"
    if c["k"] == 0:
        tree = c["tree"]
        try:
            app, config, rec = _fresh(tree)
        except (Exception, SystemExit) as e:
            # the configuration is refused (a second enabled top-level command of one name): nothing to run.  With
            # catch_exceptions on, ConsoleApplication.__init__ reports and exits; the exception itself is seen with it off
            if isinstance(e, SystemExit):
                try:
                    T.mk_app({"opts": [], "args": [], "cmds": [x for x in tree["cmds"] if x["name"] != "help"]})
                except Exception as e2:
                    e = e2
            return [[-3, exc_code(e)], [], [], None]
        from clikit.args import ArgvArgs
        key = json.dumps(tree, sort_keys=True)
        same = bool(c.get("same"))
        lines = [l for l in c["lines"] for _ in range(2 if same else 1)]
        len0 = _leniency(config)
        reused, rawlog = [], []
        raw = None
        for j, l in enumerate(lines):
            if not same or j % 2 == 0:
                raw = ArgvArgs(["script"] + list(l))        # same: one object for two consecutive runs
            before = list(raw.tokens)
            r = _run_raw(tree, raw, True)
            rawlog.append([before, list(raw.tokens), list(l)])
            reused.append(_obs(r) + [rec.get("tag"), rec.get("args") if r["handler"] is not None else None])
        len1 = _leniency(config)
        touched = _touched(config)
        # classification of each run for the comparison with the model: C09's classifier, on the REUSED application (its
        # own runs of the line - with and without catching, without the quiet switch - lengthen the history further)
        cls = []
        for l, ro in zip(lines, reused):
            o = C09.run_impl({"tree": tree, "toks": l, "k": -1})
            a = C09.canon_impl(None, o)[1:]
            if a[1][0] == 9:
                a = [a[0], _classify_shadowed(tree, l, a[1])]
            # the arguments the handler of the reused run was given (None: no handler ran)
            cls.append(a + [[] if ro[8] is None else [ro[8]]])
        # what a freshly built application gives for the line (once per line and worker process: a function of the line)
        fresh = []
        for l in lines:
            fk = (key, tuple(l))
            if fk not in _FRESH_OBS:
                app2, config2, rec2 = _fresh(tree)
                r = _run_raw(tree, ArgvArgs(["script"] + list(l)), True)
                _FRESH_OBS[fk] = _obs(r) + [rec2.get("tag"), rec2.get("args") if r["handler"] is not None else None]
            fresh.append(_FRESH_OBS[fk])
        C09._APPS.pop(key, None)
        return [[0, cls], reused, fresh, {"len0": len0, "len1": len1, "touched": touched, "raw": rawlog,
                                          "expected_tags": [_expected_tags(tree, x[3]) for x in reused]}]
    if c["k"] == 1:
        ops = style_ops(c)
        got = _style_apply(ops)
        # what each rendered style looks like when it alone was ever constructed, in a fresh interpreter process
        refs, n = [], 0
        for pos, op in enumerate(ops):
            if op[0] == "render":
                refs.append(None if got[n] is None else _style_reference(_own_ops(ops, pos, op[1])))
                n += 1
        return [[1, [[] if g is None else [g[0]] for g in got]], [None if g is None else g[1] for g in got], refs]
    from clikit.io import BufferedIO
    outs = []
    comp = c["comp"]
    before_after = None
    if comp == "trace_debug":
        import tempfile, shutil
        d = tempfile.mkdtemp(prefix="clikit-verif-c17-", dir="/var/tmp")
        try:
            path = os.path.join(d, "c17_trace_mod.py")
            with open(path, "w") as f:
                f.write(_TRACE_SRC)
            # the same failure twice, another failure from the same file, the first again; each alone in a fresh process
            outs = _trace_seq([path, ["first", "first", "second", "first"]])
            refs = [_fresh_process("_trace_seq", [path, [n]])[0] for n in ("first", "second")]
        finally:
            shutil.rmtree(d, True)
        return [[3], outs, None, refs]
    for _ in range(2):
        io = BufferedIO()
        if comp == "table":
            from clikit.ui.components import Table
            from clikit.ui.style import TableStyle
            if not outs:
                t = Table(getattr(TableStyle, c.get("style", "solid"))())
                t.set_header_row(list(ROWS[0]))
                t.add_rows([list(r) for r in ROWS[1:]])
                c["_t"] = t
                before_after = [copy.deepcopy(t._rows), copy.deepcopy(t._header_row)]
            c["_t"].render(io)
            if outs:
                before_after += [copy.deepcopy(c["_t"]._rows), copy.deepcopy(c["_t"]._header_row)]
        elif comp in ("apphelp", "cmdhelp"):
            from clikit.ui.help import ApplicationHelp, CommandHelp
            if not outs:
                import random
                # the tree comes with the case (drawn from the run's generator); cases filed before carry none
                tree = c["tree"] if "tree" in c else C09.default_tree(random.Random(5), 2)
                c["_app"] = C09._mk(tree)[0]
            app = c["_app"]
            (ApplicationHelp(app) if comp == "apphelp" else CommandHelp(list(app.commands)[-1])).render(io)
        elif comp == "paragraph":
            from clikit.ui.components import Paragraph
            if not outs:
                c["_p"] = Paragraph("Lorem ipsum dolor sit amet, consetetur sadipscing elitr, sed diam nonumy eirmod tempor invidunt ut labore et dolore magna")
            c["_p"].render(io)
        elif comp == "labeled":
            from clikit.ui.components import LabeledParagraph
            if not outs:
                c["_p"] = LabeledParagraph("Label", "Lorem ipsum dolor sit amet, consetetur sadipscing elitr, sed diam nonumy eirmod tempor invidunt ut labore")
            c["_p"].render(io)
        elif comp == "nameversion":
            from clikit.ui.components import NameVersion
            from clikit.api.config.application_config import ApplicationConfig
            if not outs:
                c["_p"] = NameVersion(ApplicationConfig("tool", "2.1"))
            c["_p"].render(io)
        elif comp == "progress":
            from clikit.ui.components import ProgressBar
            bar = ProgressBar(io, 10, 0)
            bar.start()
            bar.advance(3)
            outs.append(io.fetch_error())
            continue
        else:
            from clikit.ui.components.exception_trace import ExceptionTrace
            if not outs:
                try:
                    raise RuntimeError("failed <b>here</b>")
                except RuntimeError as e:
                    c["_e"] = e
            ExceptionTrace(c["_e"]).render(io)
        outs.append(io.fetch_output() + io.fetch_error())
    return [[3], outs, before_after]


def canon_impl(c, o):
    return o[0]


def canon_model_w(c, w):
    from hutil import from_wire, to_wire
    m = from_wire(w)
    if m[0] != 0 or c["k"] != 0:
        return w
    out = []
    for st, a, args in m[1]:
        if a[0] == 2:
            a = [5, a[1]]
        out.append([st, a, args])
    return to_wire([0, out])


def oracle(c, o):
    if c["k"] == 0:
        reused, fresh = o[1], o[2]
        st = o[3]
        if st is not None:
            # a run must leave the raw arguments it was handed as they were (the caller may hand them to run() again)
            for i, (before, after, line) in enumerate(st.get("raw", [])):
                if before != line or after != line:
                    return "raw-arguments-altered-by-the-run"
        for i, (a, b) in enumerate(zip(reused, fresh)):
            if a != b:
                which = [n for n, x, y in zip(OBS_NAMES, a, b) if x != y]
                return "run-%d-differs-from-fresh-application:%s" % (i + 1, ",".join(which))
        if st is not None:
            if st["len0"] != st["len1"]:
                return "leniency-of-a-command-changed-by-the-history"
            for a, exp in zip(reused, st["expected_tags"]):
                if a[3] is not None and a[7] not in exp:
                    return "handler-of-another-sibling-ran"
        return None
    if c["k"] == 1:
        # a style renders as it does in a process in which it alone was ever made (and customised the same way)
        ops = style_ops(c)
        renders = [op[1] for op in ops if op[0] == "render"]
        for j, view, text, ref in zip(renders, o[0][1], o[1], o[2]):
            if ref is None:
                continue
            if view[0] != ref[0]:
                return "style-fields-depend-on-other-styles"
            if text != ref[1]:
                return "style-rendering-depends-on-other-styles"
        return None
    outs = o[1]
    if c["comp"] == "trace_debug":
        ref_first, ref_second = o[3]
        if outs[0] != outs[1]:
            return "second-render-differs:trace_debug"
        if outs[0] != ref_first or outs[3] != ref_first or outs[2] != ref_second:
            return "trace-depends-on-earlier-traces"
        return None
    if outs[0] != outs[1]:
        return "second-render-differs:" + c["comp"]
    if o[2] is not None and (o[2][0] != o[2][2] or o[2][1] != o[2][3]):
        return "render-modified-the-table"
    return None


def nontrivial_key(c, o):
    if c["k"] == 0:
        kinds = set(json.dumps(x[1][0] if isinstance(x[1], list) else x) for x in o[0][1])
        if len(kinds) >= 2:
            return [json.dumps(c["tree"], sort_keys=True), c["lines"]]
        return None
    return [c.get("order"), c.get("custom"), c.get("comp"), c.get("ops"), c.get("style")]
