"""C10 - quiet and verbosity gate every write path identically."""
import itertools, os
from hutil import S, unS, err
import termemu

MODEL = "C10"
MODEL_ENTRY = "run_C10S"        # the driver's entry for C10 (Model/GatedSection.v): run_C10 and, next to it, the two-section sequences
PROP_FILES = ["Props/C10.v"]
W = 10                          # terminal width of the two-section sequences ("older content" takes two rows)
RULE = ("exhaustive product: entry point (Output / SectionOutput / IO std+err / IO.section() std+err, every public writing "
        "method found by reflection) x formatter (forced ANSI, unforced ANSI on plain stream, Plain, Null, unforced ANSI on an "
        "ANSI-capable stream) x quiet x verbosity {0,1,2,4} x flags {None,0..9,-1,2^40+1,2^40+4}; non-trivial = a text-writing "
        "entry point with flags not None/0; distinct by the whole tuple.  Two-section sequences (kind later): two sections on one "
        "stream at width 10 (forced ANSI / ANSI stream / plain), the newer one optionally written to first, then both given quiet x "
        "verbosity, then newer.write|write_line|overwrite|clear|clear(1) with every flags value (refused or not), then the older one "
        "re-opened and older.write|write_line|overwrite|clear; the model (Model/GatedSection.v) computes the bytes of each of the "
        "two phases, every section's content and row count and the screen; compared with the implementation byte for byte.  Random "
        "gated sequences (4000 quick / 40000 thorough): 1-3 sections, 3-14 calls out of flagged write / write_line of marked texts "
        "(plain, wrapped, tagged, two lines, empty), overwrite, clear / clear(1) / clear(2), indent, set_quiet, set_verbosity; the "
        "stream is observed after every call and compared call by call; the oracle decides allowed / refused from quiet, verbosity "
        "and flags alone and asks: no byte from a refused call, no mark of a refused text anywhere in the stream, and (decorated) "
        "screen = stacked contents; non-trivial = at least one refused call")
TRUSTED = ["which gate calls guard each method body (Model/Gate.v path) is a transcription, checked by this exhaustive tie",
           "harness/translate.py (fail-closed translator of a pure subset of Python, driven by ast; its reading of that subset and the "
           "declared types of self._quiet / self._verbosity / flags are trusted) regenerates coq/theories/Generated/GenGate.v from "
           "Output._may_write and the constants of api/io/flags.py in the source tree on every run (bin/setup), and the theorems "
           "may_write_matches_source, gate_constants_match_source re-check the hand model (Model/Gate.v may_write) against them for "
           "every quiet, verbosity and flags: a second tie of model and code next to the differential run"]
ASSUMPTIONS = ["verbosity is one of NORMAL/VERBOSE/VERY_VERBOSE/DEBUG (set_verbosity enforces it)",
               "gated_screen_is_stack: the texts of the ALLOWED writes are good markup (C15's class), the refused ones may be "
               "anything; refused_call_is_invisible / refused_text_never_appears: none"]
# finding made by this model, repaired in /repo a112510: SectionOutput.clear() / overwrite() of a quiet decorated section emitted
# nothing but cut the recorded content.  The oracle's claim "a refused call leaves no trace" is made for every call.

METHS = ["write", "write_line", "write_raw", "write_line_raw", "overwrite", "clear"]
IO_METHS = {"write": (0, 0), "write_line": (0, 1), "write_raw": (0, 2), "write_line_raw": (0, 3),
            "error": (1, 0), "error_line": (1, 1), "error_raw": (1, 2), "error_line_raw": (1, 3)}
FLAGS = [None, 0, 1, 2, 3, 4, 5, 6, 7, 8, 9, -1, 2 ** 40 + 1, 2 ** 40 + 4]
VERBS = [0, 1, 2, 4]
FMTS = 5
# targets: 0 Output, 1 SectionOutput, 2 IO, 3 IO.section()
ENTRY = ([(0, None, m) for m in range(4)] + [(1, None, m) for m in range(6)] +
         [(2, n, None) for n in IO_METHS] + [(3, n, None) for n in IO_METHS])


def gen(rng, tier, info):
    cases = [{"reflect": 1}, {"consts": 1}]
    for (t, ion, m) in ENTRY:
        for fmt in range(FMTS):
            for q in (0, 1):
                for v in VERBS:
                    for f in FLAGS:
                        for via_io in ((0, 1) if t >= 2 else (0,)):
                            cases.append({"t": t, "ion": ion, "m": m, "fmt": fmt, "q": q, "v": v, "f": f, "via": via_io})
    # a refused write must not show up LATER either: two sections on one stream, a write into the newer one (refused or
    # not), then an operation on the older one, which redraws what is below it (seeded change C10-g)
    n_later = 0
    for fmt in (0, 4, 2):
        for q in (0, 1):
            for v in VERBS:
                for f in FLAGS:
                    for m1 in ("write", "write_line", "overwrite"):
                        for m2 in ("write", "write_line", "overwrite", "clear"):
                            cases.append({"later": 1, "fmt": fmt, "q": q, "v": v, "f": f, "m1": m1, "m2": m2})
                            n_later += 1
    # the newer section HAS content when it is silenced (pre): clear / clear(1) / overwrite have something to act on, a refused
    # write stands next to content that is printed again
    for fmt in (0, 4, 2):
        for q in (0, 1):
            for v in VERBS:
                for m1 in ("write", "write_line", "overwrite", "clear", "clear1"):
                    for f in (FLAGS if m1 in ("write", "write_line") else [None]):
                        for m2 in ("write", "write_line", "overwrite", "clear"):
                            cases.append({"later": 1, "pre": 1, "fmt": fmt, "q": q, "v": v, "f": f, "m1": m1, "m2": m2})
                            n_later += 1
    # random gated sequences: 1-3 sections created on the way, flagged writes of marked texts (plain, wrapped, tagged, two
    # lines, empty), overwrite, clear / clear(1) / clear(2), indent, set_quiet, set_verbosity; the stream is looked at after
    # EVERY call
    nseq = {"quick": 4000, "thorough": 40000, "search": 1000}[tier]
    for _ in range(nseq):
        cases.append({"later": 1, "fmt": rng.choice((0, 0, 4, 2)), "ops": seq_ops(rng)})
    info["exhaustive"] = True
    info["distribution"] = {"entry_points": len(ENTRY), "formatters": FMTS, "flags": len(FLAGS), "cases": len(cases),
                            "two_section_sequences": n_later, "random_gated_sequences": nseq}
    return cases


def kind_meth(case):
    t = case["t"]
    if t in (0, 1):
        return t, case["m"]
    stream, m = IO_METHS[case["ion"]]
    return (0 if t == 2 else 1), m


def is_ansi(case):
    return case["fmt"] in (0, 4)


def sty(tag=None, fg=None, bg=None, attrs=0):
    return {"tag": tag, "fg": fg, "bg": bg, "attrs": attrs}


def default_set():
    """clikit's DefaultStyleSet (attribute bits: bold italic dark underlined blinking inverse hidden), as in props/C15.py"""
    return [sty("info", "green"), sty("comment", "cyan"), sty("question", "blue"), sty("error", "red", None, 1), sty("b", None, None, 1),
            sty("u", None, None, 8), sty("c1", "cyan"), sty("c2", "yellow")]


def w_style(st):
    o = lambda v: [] if v is None else [S(v)]
    return [o(st["tag"]), o(st["fg"]), o(st["bg"])] + [st["attrs"] >> i & 1 for i in range(7)]


T_OLDER, T_FIRST, T_MARK, T_LATER = "older content", "<info>first</info>", "MARK-REFUSED", "later <b>text</b>"


SEQ_TEXTS = ["a", "b" * 6, "c" * 11, "<info>in</info>fo", "x\ny", "", "<b>" + "w" * 9 + "</b>", "<comment>k</comment>\n\nz"]


def seq_ops(rng):
    ops, n, k = [[0]], 1, 0
    for _ in range(rng.randint(3, 14)):
        r = rng.random()
        i = rng.randrange(n)
        if r < 0.08 and n < 3:
            ops.append([0])
            n += 1
        elif r < 0.50:
            k += 1
            # every written text starts with its own mark: a refused one can be looked for in the whole stream
            ops.append([1, i, "#%02d" % k + rng.choice(SEQ_TEXTS), rng.choice(FLAGS), rng.randint(0, 1)])
        elif r < 0.60:
            k += 1
            ops.append([2, i, "#%02d" % k + rng.choice(SEQ_TEXTS)])
        elif r < 0.72:
            ops.append([3, i, rng.choice((None, None, 1, 2))])
        elif r < 0.77:
            ops.append([4, i, rng.choice((0, 2, 3))])
        elif r < 0.88:
            ops.append([5, i, rng.randint(0, 1)])
        else:
            ops.append([6, i, rng.choice(VERBS)])
    return ops


def seq_walk(case):
    """per call: (allowed?, refused clear/overwrite?) - from quiet / verbosity / flags alone, independent of the model"""
    gates, out = [], []
    for o in case["ops"]:
        ok, clr = True, False
        if o[0] == 0:
            gates.append([0, 0])
        elif o[0] in (1, 2, 3):
            q, v = gates[o[1]]
            ok = (not q) and v >= lowest(o[3] if o[0] == 1 else None)
            clr = o[0] in (2, 3) and not ok
        elif o[0] == 5:
            gates[o[1]][0] = o[2]
        elif o[0] == 6:
            gates[o[1]][1] = o[2]
        out.append((ok, clr))
    return out


def later_groups(case):
    """the calls of a two-section sequence, in two groups (the stream is looked at after each).  One description for both sides:
    [0] section(); [1,i,text,flags,nl] write/write_line; [2,i,text] overwrite; [3,i,n] clear; [4,i,n] indent; [5,i,q] set_quiet;
    [6,i,v] set_verbosity"""
    if "ops" in case:
        return [[o] for o in case["ops"]], None
    q, v, m1, m2 = case["q"], case["v"], case["m1"], case["m2"]
    g1 = [[0], [0], [1, 0, T_OLDER, None, 1]]
    if case.get("pre"):
        g1.append([1, 1, T_FIRST, None, 1])                # written while the newer section is still open
    g1 += [[5, 0, q], [6, 0, v], [5, 1, q], [6, 1, v]]
    f = case["f"]
    if m1 == "overwrite":
        if not case.get("pre"):
            g1.append([1, 1, T_FIRST, None, 1])            # something to overwrite (unflagged; refused when quiet)
        g1.append([2, 1, T_MARK])                          # overwrite takes no flags: the gate is quiet / NORMAL
        f = None
    elif m1 in ("clear", "clear1"):
        g1.append([3, 1, None if m1 == "clear" else 1])
        f = None
    else:
        g1.append([1, 1, T_MARK, f, 1 if m1 == "write_line" else 0])
    # the older section is written to with everything allowed
    g2 = [[5, 0, 0], [6, 0, 4]]
    if m2 == "clear":
        g2.append([3, 0, None])
    elif m2 == "overwrite":
        g2.append([2, 0, T_LATER])
    else:
        g2.append([1, 0, T_LATER, None, 1 if m2 == "write_line" else 0])
    return [g1, g2], f


def w_op(o):
    if o[0] == 1:
        return [1, o[1], S(o[2]), [] if o[3] is None else [o[3]], o[4]]
    if o[0] == 2:
        return [2, o[1], S(o[2])]
    if o[0] == 3:
        return [3, o[1], [] if o[2] is None else [o[2]]]
    return list(o)


def wire(case):
    if "later" in case:
        groups, _ = later_groups(case)
        return [98, 1 if is_ansi(case) else 0, 1 if case["fmt"] == 0 else 0, W, [w_style(x) for x in default_set()],
                [[w_op(o) for o in g] for g in groups]]
    if "reflect" in case:
        return [99]
    if "consts" in case:
        return [99]
    k, m = kind_meth(case)
    return [k, 1 if is_ansi(case) else 0, m, case["q"], case["v"], [] if case["f"] is None else [case["f"]]]


def describe(case):
    if "ops" in case:
        def d(o):
            if o[0] == 0:
                return "section()"
            if o[0] == 1:
                return "s%d.%s(%r%s)" % (o[1], "write_line" if o[4] else "write", o[2], "" if o[3] is None else ", %d" % o[3])
            if o[0] == 2:
                return "s%d.overwrite(%r)" % (o[1], o[2])
            if o[0] == 3:
                return "s%d.clear(%s)" % (o[1], "" if o[2] is None else o[2])
            return "s%d.%s(%d)" % (o[1], {4: "indent", 5: "set_quiet", 6: "set_verbosity"}[o[0]], o[2])
        fn = ["AnsiFormatter(forced)", "", "PlainFormatter", "", "AnsiFormatter on ANSI stream"][case["fmt"]]
        return "sections on one output (%s, width %d): " % (fn, W) + "; ".join(d(o) for o in case["ops"])
    if "later" in case:
        fn = ["AnsiFormatter(forced)", "AnsiFormatter on plain stream", "PlainFormatter", "NullFormatter", "AnsiFormatter on ANSI stream"][case["fmt"]]
        return ("two sections on one output (%s, width %d)%s, quiet=%s verbosity=%s: newer.%s(%s), then older.%s(...) with everything "
                "allowed" % (fn, W, ", the newer one written to first" if case.get("pre") else "", bool(case["q"]), case["v"],
                             case["m1"], "" if case["m1"].startswith("clear") else "'MARK-REFUSED', flags=%r" % (case["f"],), case["m2"]))
    if "t" not in case:
        return str(case)
    tn = ["Output", "SectionOutput", "IO", "IO.section()"][case["t"]]
    mn = case["ion"] if case["ion"] else METHS[case["m"]]
    fn = ["AnsiFormatter(forced)", "AnsiFormatter on plain stream", "PlainFormatter", "NullFormatter", "AnsiFormatter on ANSI stream"][case["fmt"]]
    return "%s.%s formatter=%s quiet=%s verbosity=%s flags=%r (settings via %s)" % (
        tn, mn, fn, bool(case["q"]), case["v"], case["f"], "IO setters" if case["via"] else "the output")


def _mk(case):
    from clikit.api.io import IO, Input, Output
    from clikit.io.input_stream import StringInputStream
    from clikit.io.output_stream import BufferedOutputStream
    from clikit.formatter import AnsiFormatter, PlainFormatter, NullFormatter

    class AnsiStream(BufferedOutputStream):
        def supports_ansi(self):
            return True
    fmt = case["fmt"]
    mkfmt = [lambda: AnsiFormatter(forced=True), lambda: AnsiFormatter(), lambda: PlainFormatter(),
             lambda: NullFormatter(), lambda: AnsiFormatter()][fmt]
    mkstream = AnsiStream if fmt == 4 else BufferedOutputStream
    so, se = mkstream(), mkstream()
    f = mkfmt()
    io = IO(Input(StringInputStream("")), Output(so, f), Output(se, f))
    return io, so, se


def _call(case, permissive):
    """returns the bytes appended to the observed stream by the call"""
    io, so, se = _mk(case)
    t = case["t"]
    if t in (0, 1):
        stream = so
        out = io.output if t == 0 else io.output.section()
        target, name = out, METHS[case["m"]]
        outs = [out]
        setter = None
    else:
        sidx, _ = IO_METHS[case["ion"]]
        tio = io if t == 2 else io.section()
        stream = so if sidx == 0 else se
        target, name = tio, case["ion"]
        outs = [tio.output, tio.error_output]
        setter = tio
    if not hasattr(target, name):
        return None
    secs = [o for o in outs if hasattr(o, "add_content")]
    # sections get prior content so that clear/overwrite have something to act on, and a newer
    # sibling section with content (so that writing has to erase and re-print it)
    for o in secs:
        o.write_line("content")
    if secs:
        base = [io.output, io.error_output]
        for b in base:
            newer = b.section()
            newer.write_line("newer")
    q, v, f = (0, 4, None) if permissive else (case["q"], case["v"], case["f"])
    if setter is not None and case["via"]:
        setter.set_quiet(bool(q))
        setter.set_verbosity(v)
    else:
        for o in outs:
            o.set_quiet(bool(q))
            o.set_verbosity(v)
    before = stream.fetch()
    meth = getattr(target, name)
    if name == "clear":
        meth()
    elif name == "overwrite":
        meth("MARK")
    elif permissive or f is None:
        meth("MARK") if (permissive or case.get("nf")) else meth("MARK", None)
    else:
        meth("MARK", f)
    after = stream.fetch()
    return after[len(before):]


def _reflect():
    import inspect
    from clikit.api.io import IO, Output
    from clikit.api.io.section_output import SectionOutput
    import clikit.io as cio
    found = []
    classes = [("Output", Output), ("SectionOutput", SectionOutput), ("IO", IO)]
    for n in dir(cio):
        c = getattr(cio, n)
        if inspect.isclass(c) and issubclass(c, IO) and c is not IO:
            classes.append((n, c))
    for cname, cls in classes:
        for name, fn in inspect.getmembers(cls, predicate=inspect.isfunction):
            if name.startswith("_"):
                continue
            params = list(inspect.signature(fn).parameters)
            if (len(params) >= 2 and params[1] in ("string", "message")) or name == "clear":
                found.append("%s.%s" % (cname, name))
    return sorted(found)


KNOWN = sorted(["Output.write", "Output.write_line", "Output.write_raw", "Output.write_line_raw",
                "Output.format", "Output.remove_format",
                "SectionOutput.write", "SectionOutput.write_line", "SectionOutput.write_raw", "SectionOutput.write_line_raw",
                "SectionOutput.overwrite", "SectionOutput.clear", "SectionOutput.format", "SectionOutput.remove_format"] +
               ["%s.%s" % (c, n) for c in ("IO", "BufferedIO", "ConsoleIO", "NullIO") for n in list(IO_METHS) + ["format", "remove_format"]])
NONWRITING = ("format", "remove_format")


def _later(case):
    os.environ["COLUMNS"] = str(W)
    io, so, se = _mk(case)
    groups, f = later_groups(case)
    secs, seen, done = [], [], 0
    for g in groups:
        for o in g:
            if o[0] == 0:
                secs.append(io.output.section())
            elif o[0] == 1:
                meth = secs[o[1]].write_line if o[4] else secs[o[1]].write
                meth(o[2]) if o[3] is None else meth(o[2], o[3])
            elif o[0] == 2:
                secs[o[1]].overwrite(o[2])
            elif o[0] == 3:
                secs[o[1]].clear() if o[2] is None else secs[o[1]].clear(o[2])
            elif o[0] == 4:
                secs[o[1]].indent(o[2])
            elif o[0] == 5:
                secs[o[1]].set_quiet(bool(o[2]))
            else:
                secs[o[1]].set_verbosity(o[2])
        data = so.fetch()
        seen.append(data[done:])
        done = len(data)
    state = [[[S(l) for l in s.content.split("\n")[:-1]] if s.content else [], s.lines, s._indent, 1 if s.is_quiet() else 0,
              s.verbosity] for s in secs]
    return [seen, f, state]


def run_impl(case):
    if "later" in case:
        try:
            return ["LATER"] + _later(case)
        except Exception as e:
            return ["EXC", type(e).__name__, str(e)[:100], err(e)]
    if "reflect" in case:
        return ["REFLECT", _reflect()]
    if "consts" in case:
        from clikit.api.io import flags
        return [flags.NORMAL, flags.VERBOSE, flags.VERY_VERBOSE, flags.DEBUG]
    try:
        perm = _call(case, True)
        exists = perm is not None and len(perm) > 0
        got = _call(case, False)
    except Exception as e:
        return ["EXC", type(e).__name__, str(e)[:100]]
    name = case["ion"] or METHS[case["m"]]
    if got is None:
        emitted = False
    elif name == "clear":
        emitted = len(got) > 0
    else:
        emitted = "MARK" in got
    return [1 if exists else 0, 1 if emitted else 0, 1 if got else 0]


def _screen(datas):
    t = termemu.Term(W)
    t.feed("".join(datas))
    return [[S(r) for r in t.screen()], t.r, t.c]


def canon_model(case, obs):
    if "later" in case:
        # (0 emits-per-group sections terminal): the implementation side is brought to the same shape
        return obs
    if "reflect" in case:
        return ["REFLECT", KNOWN]
    return obs


def canon_impl(case, obs):
    if "later" in case:
        if obs and obs[0] == "LATER":
            _, seen, _f, state = obs
            if "ops" in case:
                return [0, [termemu.tokens(x) for x in seen], state, _screen(seen)]
            mid, after = seen
            return [0, [termemu.tokens(mid), termemu.tokens(after)], state, _screen([mid, after])]
        return obs[3] if obs and obs[0] == "EXC" else obs
    if "reflect" in case:
        # sections of other IO classes (BufferedIO etc.) appear under their class names
        return ["REFLECT", sorted(x for x in obs[1])]
    if "t" in case and obs and obs[0] != "EXC":
        return obs[:2]
    return obs


def lowest(f):
    if f is None:
        return 0
    if f & 1:
        return 1
    if f & 2:
        return 2
    if f & 4:
        return 4
    return 0


def screen_vs_stack(seen, state):
    """decorated: the screen is the stack of the recorded contents (Props/C10.v gated_screen_is_stack), the row counts are theirs"""
    from props.C15 import visible
    stack = []
    for cs, lines, _ind, _q, _v in state:
        rows = []
        for l in cs:
            vis, _ = visible(unS(l))
            rows += termemu.wrap_rows(vis, W)
        if lines != len(rows):
            return "row-count-disagrees-with-content"
        stack += rows
    screen, r, col = _screen(seen)
    if [unS(x) for x in screen] != stack + [""] or r != len(stack) or col != 0:
        return "screen-differs-from-stacked-contents"
    return None


def oracle_seq(case, seen, state):
    walk = seq_walk(case)
    whole = "".join(seen)
    for o, (ok, clr), data in zip(case["ops"], walk, seen):
        name = {0: "section", 1: "write", 2: "overwrite", 3: "clear", 4: "indent", 5: "set_quiet", 6: "set_verbosity"}[o[0]]
        if not ok and data:
            return "bytes-despite-gate:SectionOutput.%s" % name
        if o[0] in (1, 2):
            if not ok and o[2][:3] in whole:
                return "refused-text-appears-later:SectionOutput.%s" % name
            if ok and o[2][:3] not in data:
                return "gate:SectionOutput.%s" % name
        elif o[0] not in (3,) and data:
            return "emits-without-path"
    if not is_ansi(case):
        return None
    bad = screen_vs_stack(seen, state)
    if bad == "screen-differs-from-stacked-contents" and not all(ok for ok, _ in walk):
        return "refused-call-leaves-a-trace"
    return bad


def oracle(case, obs):
    if "later" in case:
        if obs[0] == "EXC":
            return "exception:" + obs[1]
        _, seen, f, state = obs
        if "ops" in case:
            return oracle_seq(case, seen, state)
        mid, after = seen
        m1 = case["m1"]
        exp = (not case["q"]) and case["v"] >= lowest(f)
        if not exp and ("MARK-REFUSED" in mid or "MARK-REFUSED" in after):
            return "refused-text-appears-later:SectionOutput.%s then %s" % (m1, case["m2"])
        if exp and not m1.startswith("clear") and "MARK-REFUSED" not in mid:
            return "gate:SectionOutput.%s" % m1
        if not is_ansi(case):
            return None
        # decorated: the screen is the stack of the recorded contents (Props/C10.v gated_screen_is_stack), the row counts
        # are theirs - also after a refused clear / overwrite of a section that has content
        bad = screen_vs_stack(seen, state)
        if bad == "screen-differs-from-stacked-contents" and not exp:
            return "refused-call-leaves-a-trace:SectionOutput.%s" % m1
        return bad
    if "reflect" in case:
        unknown = [x for x in obs[1] if x not in KNOWN]
        if unknown:
            return "unknown-entry-point:" + ",".join(unknown)
        return None
    if "consts" in case:
        return None if obs == [0, 1, 2, 4] else "flag-constants-changed"
    if obs and obs[0] == "EXC":
        return "exception:" + obs[1]
    exists, emitted, anybytes = obs
    name = case["ion"] or METHS[case["m"]]
    f = case["f"] if name not in ("overwrite", "clear") else None
    if not exists:
        return None if not emitted else "emits-without-path"
    exp = (not case["q"]) and case["v"] >= lowest(f)
    if bool(emitted) != exp:
        return "gate:%s.%s" % (["Output", "SectionOutput", "IO", "IO.section()"][case["t"]], name)
    if not exp and anybytes:
        return "bytes-despite-gate:%s.%s" % (["Output", "SectionOutput", "IO", "IO.section()"][case["t"]], name)
    return None


def nontrivial_key(case, obs):
    if "ops" in case:
        return ["seq", case["fmt"], case["ops"]] if not all(ok for ok, _ in seq_walk(case)) else None
    if "later" in case:
        if case["f"] not in (None, 0) or case.get("pre"):
            return ["later", case.get("pre", 0)] + [case[k] for k in ("fmt", "q", "v", "f", "m1", "m2")]
        return None
    if "t" in case and obs and obs[0] == 1 and case["f"] not in (None, 0):
        return [case[k] for k in ("t", "ion", "m", "fmt", "q", "v", "f", "via")]
    return None


def shrink(case):
    if "ops" in case:
        ops = case["ops"]
        for i in range(1, len(ops)):
            if ops[i][0] != 0:
                yield {"later": 1, "fmt": case["fmt"], "ops": ops[:i] + ops[i + 1:]}
