"""C10 - quiet and verbosity gate every write path identically."""
import itertools

MODEL = "C10"
PROP_FILES = ["Props/C10.v"]
RULE = ("exhaustive product: entry point (Output / SectionOutput / IO std+err / IO.section() std+err, every public writing "
        "method found by reflection) x formatter (forced ANSI, unforced ANSI on plain stream, Plain, Null, unforced ANSI on an "
        "ANSI-capable stream) x quiet x verbosity {0,1,2,4} x flags {None,0..9,-1,2^40+1,2^40+4}; non-trivial = a text-writing "
        "entry point with flags not None/0; distinct by the whole tuple")
THEOREMS = ["gate_level", "gate_iff", "gate_monotone", "quiet_silent"]
TRUSTED = ["which gate calls guard each method body (Model/Gate.v path) is a transcription, checked by this exhaustive tie"]
ASSUMPTIONS = ["verbosity is one of NORMAL/VERBOSE/VERY_VERBOSE/DEBUG (set_verbosity enforces it)"]

METHS = ["write", "write_line", "write_raw", "write_line_raw", "overwrite", "clear"]
IO_METHS = {"write": (0, 0), "write_line": (0, 1), "write_raw": (0, 2), "write_line_raw": (0, 3),
            "error": (1, 0), "error_line": (1, 1), "error_raw": (1, 2), "error_line_raw": (1, 3)}
FLAGS = [None, 0, 1, 2, 3, 4, 5, 6, 7, 8, 9, -1, 2 ** 40 + 1, 2 ** 40 + 4]
VERBS = [0, 1, 2, 4]
FMTS = 5
# targets: 0 Output, 1 SectionOutput, 2 IO, 3 IO.section()
ENTRY = ([(0, None, m) for m in range(4)] + [(1, None, m) for m in range(6)] +
         [(2, n, None) for n in IO_METHS] + [(3, n, None) for n in IO_METHS])


def gen(rng, tier, info):
    cases = [{"reflect": 1}, {"consts": 1}]
    for (t, ion, m) in ENTRY:
        for fmt in range(FMTS):
            for q in (0, 1):
                for v in VERBS:
                    for f in FLAGS:
                        for via_io in ((0, 1) if t >= 2 else (0,)):
                            cases.append({"t": t, "ion": ion, "m": m, "fmt": fmt, "q": q, "v": v, "f": f, "via": via_io})
    # a refused write must not show up LATER either: two sections on one stream, a write into the newer one (refused or
    # not), then an operation on the older one, which redraws what is below it (seeded change C10-g)
    n_later = 0
    for fmt in (0, 4, 2):
        for q in (0, 1):
            for v in VERBS:
                for f in FLAGS:
                    for m1 in ("write", "write_line", "overwrite"):
                        for m2 in ("write", "write_line", "overwrite", "clear"):
                            cases.append({"later": 1, "fmt": fmt, "q": q, "v": v, "f": f, "m1": m1, "m2": m2})
                            n_later += 1
    info["exhaustive"] = True
    info["distribution"] = {"entry_points": len(ENTRY), "formatters": FMTS, "flags": len(FLAGS), "cases": len(cases),
                            "two_section_sequences": n_later}
    return cases


def kind_meth(case):
    t = case["t"]
    if t in (0, 1):
        return t, case["m"]
    stream, m = IO_METHS[case["ion"]]
    return (0 if t == 2 else 1), m


def is_ansi(case):
    return case["fmt"] in (0, 4)


def wire(case):
    if "reflect" in case or "later" in case:
        return [99]
    if "consts" in case:
        return [99]
    k, m = kind_meth(case)
    return [k, 1 if is_ansi(case) else 0, m, case["q"], case["v"], [] if case["f"] is None else [case["f"]]]


def describe(case):
    if "later" in case:
        fn = ["AnsiFormatter(forced)", "AnsiFormatter on plain stream", "PlainFormatter", "NullFormatter", "AnsiFormatter on ANSI stream"][case["fmt"]]
        return ("two sections on one output (%s), quiet=%s verbosity=%s: newer.%s('MARK-REFUSED', flags=%r), then older.%s(...) with everything "
                "allowed" % (fn, bool(case["q"]), case["v"], case["m1"], case["f"], case["m2"]))
    if "t" not in case:
        return str(case)
    tn = ["Output", "SectionOutput", "IO", "IO.section()"][case["t"]]
    mn = case["ion"] if case["ion"] else METHS[case["m"]]
    fn = ["AnsiFormatter(forced)", "AnsiFormatter on plain stream", "PlainFormatter", "NullFormatter", "AnsiFormatter on ANSI stream"][case["fmt"]]
    return "%s.%s formatter=%s quiet=%s verbosity=%s flags=%r (settings via %s)" % (
        tn, mn, fn, bool(case["q"]), case["v"], case["f"], "IO setters" if case["via"] else "the output")


def _mk(case):
    from clikit.api.io import IO, Input, Output
    from clikit.io.input_stream import StringInputStream
    from clikit.io.output_stream import BufferedOutputStream
    from clikit.formatter import AnsiFormatter, PlainFormatter, NullFormatter

    class AnsiStream(BufferedOutputStream):
        def supports_ansi(self):
            return True
    fmt = case["fmt"]
    mkfmt = [lambda: AnsiFormatter(forced=True), lambda: AnsiFormatter(), lambda: PlainFormatter(),
             lambda: NullFormatter(), lambda: AnsiFormatter()][fmt]
    mkstream = AnsiStream if fmt == 4 else BufferedOutputStream
    so, se = mkstream(), mkstream()
    f = mkfmt()
    io = IO(Input(StringInputStream("")), Output(so, f), Output(se, f))
    return io, so, se


def _call(case, permissive):
    """returns the bytes appended to the observed stream by the call"""
    io, so, se = _mk(case)
    t = case["t"]
    if t in (0, 1):
        stream = so
        out = io.output if t == 0 else io.output.section()
        target, name = out, METHS[case["m"]]
        outs = [out]
        setter = None
    else:
        sidx, _ = IO_METHS[case["ion"]]
        tio = io if t == 2 else io.section()
        stream = so if sidx == 0 else se
        target, name = tio, case["ion"]
        outs = [tio.output, tio.error_output]
        setter = tio
    if not hasattr(target, name):
        return None
    secs = [o for o in outs if hasattr(o, "add_content")]
    # sections get prior content so that clear/overwrite have something to act on, and a newer
    # sibling section with content (so that writing has to erase and re-print it)
    for o in secs:
        o.write_line("content")
    if secs:
        base = [io.output, io.error_output]
        for b in base:
            newer = b.section()
            newer.write_line("newer")
    q, v, f = (0, 4, None) if permissive else (case["q"], case["v"], case["f"])
    if setter is not None and case["via"]:
        setter.set_quiet(bool(q))
        setter.set_verbosity(v)
    else:
        for o in outs:
            o.set_quiet(bool(q))
            o.set_verbosity(v)
    before = stream.fetch()
    meth = getattr(target, name)
    if name == "clear":
        meth()
    elif name == "overwrite":
        meth("MARK")
    elif permissive or f is None:
        meth("MARK") if (permissive or case.get("nf")) else meth("MARK", None)
    else:
        meth("MARK", f)
    after = stream.fetch()
    return after[len(before):]


def _reflect():
    import inspect
    from clikit.api.io import IO, Output
    from clikit.api.io.section_output import SectionOutput
    import clikit.io as cio
    found = []
    classes = [("Output", Output), ("SectionOutput", SectionOutput), ("IO", IO)]
    for n in dir(cio):
        c = getattr(cio, n)
        if inspect.isclass(c) and issubclass(c, IO) and c is not IO:
            classes.append((n, c))
    for cname, cls in classes:
        for name, fn in inspect.getmembers(cls, predicate=inspect.isfunction):
            if name.startswith("_"):
                continue
            params = list(inspect.signature(fn).parameters)
            if (len(params) >= 2 and params[1] in ("string", "message")) or name == "clear":
                found.append("%s.%s" % (cname, name))
    return sorted(found)


KNOWN = sorted(["Output.write", "Output.write_line", "Output.write_raw", "Output.write_line_raw",
                "Output.format", "Output.remove_format",
                "SectionOutput.write", "SectionOutput.write_line", "SectionOutput.write_raw", "SectionOutput.write_line_raw",
                "SectionOutput.overwrite", "SectionOutput.clear", "SectionOutput.format", "SectionOutput.remove_format"] +
               ["%s.%s" % (c, n) for c in ("IO", "BufferedIO", "ConsoleIO", "NullIO") for n in list(IO_METHS) + ["format", "remove_format"]])
NONWRITING = ("format", "remove_format")


def _later(case):
    io, so, se = _mk(case)
    older, newer = io.output.section(), io.output.section()
    older.write_line("older content")
    for o in (older, newer):
        o.set_quiet(bool(case["q"]))
        o.set_verbosity(case["v"])
    m1 = getattr(newer, case["m1"])
    if case["m1"] == "overwrite":
        newer.write_line("first")          # something to overwrite (unflagged)
        # overwrite takes no flags: the gate is quiet / NORMAL
        m1("MARK-REFUSED")
        f = None
    else:
        f = case["f"]
        m1("MARK-REFUSED") if f is None else m1("MARK-REFUSED", f)
    mid = so.fetch()
    # the older section is written to with everything allowed
    older.set_quiet(False)
    older.set_verbosity(4)
    m2 = getattr(older, case["m2"])
    m2() if case["m2"] == "clear" else m2("later text")
    return [mid, so.fetch()[len(mid):], f]


def run_impl(case):
    if "later" in case:
        try:
            return ["LATER"] + _later(case)
        except Exception as e:
            return ["EXC", type(e).__name__, str(e)[:100]]
    if "reflect" in case:
        return ["REFLECT", _reflect()]
    if "consts" in case:
        from clikit.api.io import flags
        return [flags.NORMAL, flags.VERBOSE, flags.VERY_VERBOSE, flags.DEBUG]
    try:
        perm = _call(case, True)
        exists = perm is not None and len(perm) > 0
        got = _call(case, False)
    except Exception as e:
        return ["EXC", type(e).__name__, str(e)[:100]]
    name = case["ion"] or METHS[case["m"]]
    if got is None:
        emitted = False
    elif name == "clear":
        emitted = len(got) > 0
    else:
        emitted = "MARK" in got
    return [1 if exists else 0, 1 if emitted else 0, 1 if got else 0]


def canon_model(case, obs):
    if "later" in case:
        return [7]
    if "reflect" in case:
        return ["REFLECT", KNOWN]
    return obs


def canon_impl(case, obs):
    if "later" in case:
        return [7] if obs and obs[0] == "LATER" else obs
    if "reflect" in case:
        # sections of other IO classes (BufferedIO etc.) appear under their class names
        return ["REFLECT", sorted(x for x in obs[1])]
    if "t" in case and obs and obs[0] != "EXC":
        return obs[:2]
    return obs


def lowest(f):
    if f is None:
        return 0
    if f & 1:
        return 1
    if f & 2:
        return 2
    if f & 4:
        return 4
    return 0


def oracle(case, obs):
    if "later" in case:
        if obs[0] == "EXC":
            return "exception:" + obs[1]
        _, mid, after, f = obs
        exp = (not case["q"]) and case["v"] >= lowest(f)
        if not exp and ("MARK-REFUSED" in mid or "MARK-REFUSED" in after):
            return "refused-text-appears-later:SectionOutput.%s then %s" % (case["m1"], case["m2"])
        if exp and "MARK-REFUSED" not in mid:
            return "gate:SectionOutput.%s" % case["m1"]
        return None
    if "reflect" in case:
        unknown = [x for x in obs[1] if x not in KNOWN]
        if unknown:
            return "unknown-entry-point:" + ",".join(unknown)
        return None
    if "consts" in case:
        return None if obs == [0, 1, 2, 4] else "flag-constants-changed"
    if obs and obs[0] == "EXC":
        return "exception:" + obs[1]
    exists, emitted, anybytes = obs
    name = case["ion"] or METHS[case["m"]]
    f = case["f"] if name not in ("overwrite", "clear") else None
    if not exists:
        return None if not emitted else "emits-without-path"
    exp = (not case["q"]) and case["v"] >= lowest(f)
    if bool(emitted) != exp:
        return "gate:%s.%s" % (["Output", "SectionOutput", "IO", "IO.section()"][case["t"]], name)
    if not exp and anybytes:
        return "bytes-despite-gate:%s.%s" % (["Output", "SectionOutput", "IO", "IO.section()"][case["t"]], name)
    return None


def nontrivial_key(case, obs):
    if "later" in case:
        return ["later"] + [case[k] for k in ("fmt", "q", "v", "f", "m1", "m2")] if case["f"] not in (None, 0) else None
    if "t" in case and obs and obs[0] == 1 and case["f"] not in (None, 0):
        return [case[k] for k in ("t", "ion", "m", "fmt", "q", "v", "f", "via")]
    return None
