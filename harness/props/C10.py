"""C10 - quiet and verbosity gate every write path identically."""
import itertools, os, sys, json, subprocess
from hutil import S, unS, err
import termemu
from props import c10io

MODEL = "C10"
MODEL_ENTRY = "run_C10IO"       # the driver's entry for C10 (Model/GateIO.v): the histories on an I/O and, next to them, everything run_C10S
                                # (Model/GatedSection.v: the two-section sequences) and run_C10 (Model/Gate.v: the table) answer
PROP_FILES = ["Props/C10.v"]
W = 10                          # terminal width of the two-section sequences ("older content" takes two rows)
RULE = ("REFLECTION DRIVES THE TABLE: the modules of clikit.api.io and clikit.io are walked, every class that is an Output or an IO "
        "is a target (Output, SectionOutput, IO, BufferedIO, ConsoleIO, NullIO on the unchanged tree; IO classes also through "
        "their section()); every public member of every such class (cls.__dict__ along the MRO, so an override counts for the class "
        "that overrides; properties included) is CALLED with generated arguments on recording streams, decorated and not, at DEBUG / "
        "not quiet, and is a writer when the stream grew during the call or when the text it was given is on the stream after a "
        "write into an older section (add_content).  A writer under a name Model/Gate.v has no row for, or a member that no "
        "argument list can call, is a violation by itself.  Exhaustive product: every class x every writing method the model knows "
        "x formatter (forced ANSI, unforced ANSI on plain stream, Plain, Null, unforced ANSI on an ANSI-capable stream) x quiet x "
        "verbosity {0,1,2,4} x flags {None given, not given at all, 0..9,-1,2^40+1,2^40+4} x settings through the I/O or through its "
        "outputs x (section targets) settings given to the section itself / given to the PARENT BEFORE section() is called; "
        "non-trivial = a text-writing entry point with flags not None/0; distinct by the whole tuple.  Two-section sequences (kind "
        "later): two sections on one stream at width 10 (forced ANSI / ANSI stream / plain), the newer one optionally written to "
        "first, then both given quiet x verbosity - or the OUTPUT given them before the newer section is created (inh) -, then "
        "newer.write|write_line|overwrite|add_content|clear|clear(1) with every flags value (refused or not), then the older one "
        "re-opened and older.write|write_line|overwrite|clear; the model (Model/GatedSection.v) computes the bytes of each of the "
        "two phases, every section's content and row count and the screen; compared with the implementation byte for byte.  Random "
        "gated sequences (4000 quick / 40000 thorough): 1-3 sections, 3-14 calls out of flagged write / write_line of marked texts "
        "(plain, wrapped, tagged, two lines, empty), overwrite, clear / clear(1) / clear(2), add_content, indent, set_quiet, "
        "set_verbosity, and set_quiet / set_verbosity / indent of the OUTPUT the sections belong to (a section created afterwards "
        "starts with them); the stream is observed after every call and compared call by call; the oracle decides allowed / refused "
        "from quiet, verbosity and flags alone and asks: no byte from a refused call, no mark of a refused text anywhere in the "
        "stream, and (decorated) screen = stacked contents; non-trivial = at least one refused call.  THE IO LAYER (Model/GateIO.v, "
        "props/c10io.py): the single calls of the table made on an I/O object are answered by the model as the HISTORY they are "
        "(settings through the I/O or its two outputs, before or after section(), then the call; both streams are watched).  "
        "Histories on every I/O class found: every sequence of <= 2 set_quiet / set_verbosity calls on the I/O, its output, its "
        "error output (18 letters) x class x {forced ANSI, Plain, ANSI on an ANSI-capable stream}, every sequence of 3 with classes "
        "and kinds in rotation (thorough: every class, kinds in rotation), a few writes between the setters, then all eight writing methods x one flag word per "
        "level, then section() and the same on the section I/O, then the parent turned all the way up and both written to again; "
        "parent + section: every sequence of <= 2 over the 30 letters of I/O 0 and I/O 1 = its section, then a second section, a "
        "section of the section, Output.section() on an output, on a section output and on that section (sections of sections); "
        "set_stream / set_formatter among the gate setters (<= 2 over 16 letters; 3 over 13 quick / 16 thorough), the section's own "
        "stream / formatter changed afterwards; random histories (3000 / 30000) of 5-28 calls over every operation incl. invalid "
        "verbosities (ValueError, nothing changed), set_interactive, indent / increment_indent, writes on the output objects "
        "(overwrite on sections).  Every written text carries its own mark; after every call every stream is looked at; compared "
        "with the model: per call raised / returned / on which streams the mark appeared, at the end quiet, verbosity, "
        "indentation, supports_ansi(), section?, stream of every output, the two outputs of every I/O, is_interactive(); the "
        "oracle walks the history on its own; non-trivial = a history with a refused and an allowed write")
TRUSTED = ["which gate calls guard each method body (Model/Gate.v path) is a transcription, checked by this exhaustive tie",
           "which output and method each of the eight writing methods of IO delegates to, and which objects each setter touches "
           "(Model/GateIO.v io_delegate, step), are transcriptions of api/io/io.py and api/io/output.py, checked by the same tie; at "
           "this level a text is its mark (bytes are C11 / C15)",
           "harness/translate.py (fail-closed translator of a pure subset of Python, driven by ast; its reading of that subset and the "
           "declared types of self._quiet / self._verbosity / flags are trusted) regenerates coq/theories/Generated/GenGate.v from "
           "Output._may_write and the constants of api/io/flags.py in the source tree on every run (bin/setup), and the theorems "
           "may_write_matches_source, gate_constants_match_source re-check the hand model (Model/Gate.v may_write) against them for "
           "every quiet, verbosity and flags: a second tie of model and code next to the differential run"]
ASSUMPTIONS = ["verbosity is one of NORMAL/VERBOSE/VERY_VERBOSE/DEBUG (set_verbosity enforces it)",
               "reading fixed here: the settings of a section output are those its output (its I/O) had when section() was called, "
               "until set_quiet / set_verbosity are called on the section itself (proposed-fixes/section-inherits-gate.md)",
               "gated_screen_is_stack: the texts of the ALLOWED writes are good markup (C15's class), the refused ones may be "
               "anything; refused_call_is_invisible / refused_text_never_appears: none",
               "IO layer: io_gate_iff, io_monotone: none (every history from a fresh I/O); the theorems about one step name the "
               "objects they speak of (the I/O exists, its outputs exist); an I/O class differs for the model only in whether its "
               "section() works (NullIO: TypeError, the documented exception); clear / add_content and the stacking of a section of "
               "a section are outside the histories"]
# finding made by this model, repaired in /repo a112510: SectionOutput.clear() / overwrite() of a quiet decorated section emitted
# nothing but cut the recorded content.  The oracle's claim "a refused call leaves no trace" is made for every call.

METHS = ["write", "write_line", "write_raw", "write_line_raw", "overwrite", "clear", "add_content"]
IO_METHS = {"write": (0, 0), "write_line": (0, 1), "write_raw": (0, 2), "write_line_raw": (0, 3),
            "error": (1, 0), "error_line": (1, 1), "error_raw": (1, 2), "error_line_raw": (1, 3)}
FLAGS = [None, 0, 1, 2, 3, 4, 5, 6, 7, 8, 9, -1, 2 ** 40 + 1, 2 ** 40 + 4]
VERBS = [0, 1, 2, 4]
FMTS = 5
# what the model knows: the writing methods of an output / a section output (Model/Gate.v meth) and of an I/O (which of its
# two outputs, which method there).  Everything else that reflection finds writing is an unknown entry point.
OUT_SEM = {"write": 0, "write_line": 1, "write_raw": 2, "write_line_raw": 3}
SEC_SEM = dict(OUT_SEM, overwrite=4, clear=5, add_content=6)
LEGACY_T = {0: ("Output", 0), 1: ("SectionOutput", 1), 2: ("IO", 0), 3: ("IO", 1)}
PY = "/venv/bin/python"


def discover_from(src):
    """reflection on the tree under test, in a process of its own (the generator's process has not imported clikit)"""
    here = os.path.dirname(os.path.dirname(os.path.abspath(__file__)))
    env = dict(os.environ, PYTHONPATH=src + os.pathsep + here, PYTHONDONTWRITEBYTECODE="1", COLUMNS=str(W))
    p = subprocess.run([PY, "-c", "import json; from props import C10; print(json.dumps(C10.discover()))"], env=env,
                       stdout=subprocess.PIPE, stderr=subprocess.PIPE, timeout=300, text=True)
    if p.returncode != 0:
        raise RuntimeError("reflection on the I/O classes failed: " + p.stderr[-600:])
    return json.loads(p.stdout.strip().split("\n")[-1])


def table_rows(found):
    """(target class, section variant?, method name) of every entry point the model knows, on every class reflection found"""
    rows = []
    for t in found["targets"]:
        names = [e["name"] for e in found["entries"] if e["cls"] == t["cls"]]
        for sec in ([0, 1] if t["sec"] else [0]):
            if t["kind"] == "io":
                sem = IO_METHS
            else:
                sem = SEC_SEM if t["section_class"] else OUT_SEM
                if sec:
                    continue
            # the names the model knows are asked of EVERY class (a class that lost one diverges: the model says it exists)
            for n in sem:
                rows.append((t["cls"], sec, n, t["kind"], t["section_class"]))
    return rows


def gen(rng, tier, info):
    found = discover_from(os.environ.get("CLIKIT_SRC", "/repo/src"))
    cases = [{"reflect": 1}, {"consts": 1}]
    n_single = 0
    for (cls, sec, name, kind, section_class) in table_rows(found):
        is_sec = bool(sec or section_class)
        for fmt in range(FMTS):
            for q in (0, 1):
                for v in VERBS:
                    for f in FLAGS + ["nf"]:
                        for via_io in ((0, 1) if kind == "io" else (0,)):
                            # ord 1: the PARENT is given quiet / verbosity, THEN section() is called (clear needs a record)
                            for order in ((0, 1) if is_sec and name != "clear" else (0,)):
                                c = {"T": cls, "sec": sec, "k": 1 if is_sec else 0, "name": name, "fmt": fmt, "q": q, "v": v,
                                     "f": None if f == "nf" else f, "via": via_io}
                                if kind == "io":
                                    c["io"] = 1          # compared with the IO layer of the model (Model/GateIO.v)
                                if f == "nf":
                                    c["nf"] = 1
                                if order:
                                    c["ord"] = 1
                                cases.append(c)
                                n_single += 1
    # a refused write must not show up LATER either: two sections on one stream, a write into the newer one (refused or
    # not), then an operation on the older one, which redraws what is below it (seeded change C10-g)
    n_later = 0
    for fmt in (0, 4, 2):
        for q in (0, 1):
            for v in VERBS:
                for f in FLAGS:
                    for m1 in ("write", "write_line", "overwrite", "add_content"):
                        if m1 == "add_content" and f is not None:
                            continue
                        for m2 in ("write", "write_line", "overwrite", "clear"):
                            cases.append({"later": 1, "fmt": fmt, "q": q, "v": v, "f": f, "m1": m1, "m2": m2})
                            # inh: the OUTPUT is given quiet / verbosity, THEN the newer section is created - it starts with
                            # the settings of its output
                            cases.append({"later": 1, "inh": 1, "fmt": fmt, "q": q, "v": v, "f": f, "m1": m1, "m2": m2})
                            n_later += 2
    # the newer section HAS content when it is silenced (pre): clear / clear(1) / overwrite have something to act on, a refused
    # write stands next to content that is printed again
    for fmt in (0, 4, 2):
        for q in (0, 1):
            for v in VERBS:
                for m1 in ("write", "write_line", "overwrite", "clear", "clear1"):
                    for f in (FLAGS if m1 in ("write", "write_line") else [None]):
                        for m2 in ("write", "write_line", "overwrite", "clear"):
                            cases.append({"later": 1, "pre": 1, "fmt": fmt, "q": q, "v": v, "f": f, "m1": m1, "m2": m2})
                            n_later += 1
    # random gated sequences: 1-3 sections created on the way, flagged writes of marked texts (plain, wrapped, tagged, two
    # lines, empty), overwrite, clear / clear(1) / clear(2), indent, set_quiet, set_verbosity; the stream is looked at after
    # EVERY call
    nseq = {"quick": 4000, "thorough": 40000, "search": 1000}[tier]
    for _ in range(nseq):
        cases.append({"later": 1, "fmt": rng.choice((0, 0, 4, 2)), "ops": seq_ops(rng)})
    # the IO layer: histories of setters (on the I/O, on its outputs), section() at both levels, set_stream / set_formatter,
    # and writes through every writing method of the I/O classes found (props/c10io.py, Model/GateIO.v)
    hist_counts = {}
    io_found = [(t["cls"], bool(t["sec"])) for t in found["targets"] if t["kind"] == "io"]
    cases += c10io.gen(rng, tier, io_found, hist_counts)
    info["exhaustive"] = True
    info["distribution"] = {"io_histories": hist_counts,"classes_found": [t["cls"] + (" (+ its section())" if t["sec"] else "") for t in found["targets"]],
                            "no_section": found["no_section"],
                            "public_members_called": len(found["entries"]),
                            "writers_found": sorted("%s.%s" % (e["cls"], e["name"]) for e in found["entries"] if e["writer"]),
                            "entry_points": len(table_rows(found)), "single_calls": n_single, "formatters": FMTS,
                            "flags": len(FLAGS) + 1, "cases": len(cases),
                            "two_section_sequences": n_later, "random_gated_sequences": nseq}
    return cases


def norm(case):
    """a single-call case in the form (target class, section variant, method name); older replays name the target by number"""
    if "T" in case:
        return case
    c = dict(case)
    c["T"], c["sec"] = LEGACY_T[case["t"]]
    c["k"] = 1 if case["t"] in (1, 3) else 0
    c["name"] = case["ion"] or METHS[case["m"]]
    return c


def kind_meth(case):
    """the model's view of the entry point: (output | section, method)"""
    c = norm(case)
    return c["k"], (IO_METHS[c["name"]][1] if c["name"] in IO_METHS else SEC_SEM[c["name"]])


def is_ansi(case):
    return case["fmt"] in (0, 4)


def sty(tag=None, fg=None, bg=None, attrs=0):
    return {"tag": tag, "fg": fg, "bg": bg, "attrs": attrs}


def default_set():
    """clikit's DefaultStyleSet (attribute bits: bold italic dark underlined blinking inverse hidden), as in props/C15.py"""
    return [sty("info", "green"), sty("comment", "cyan"), sty("question", "blue"), sty("error", "red", None, 1), sty("b", None, None, 1),
            sty("u", None, None, 8), sty("c1", "cyan"), sty("c2", "yellow")]


def w_style(st):
    o = lambda v: [] if v is None else [S(v)]
    return [o(st["tag"]), o(st["fg"]), o(st["bg"])] + [st["attrs"] >> i & 1 for i in range(7)]


T_OLDER, T_FIRST, T_MARK, T_LATER = "older content", "<info>first</info>", "MARK-REFUSED", "later <b>text</b>"


SEQ_TEXTS = ["a", "b" * 6, "c" * 11, "<info>in</info>fo", "x\ny", "", "<b>" + "w" * 9 + "</b>", "<comment>k</comment>\n\nz"]


def seq_ops(rng):
    ops, n, k = [[0]], 1, 0
    for _ in range(rng.randint(3, 14)):
        r = rng.random()
        i = rng.randrange(n)
        if r < 0.08 and n < 3:
            ops.append([0])
            n += 1
        elif r < 0.50:
            k += 1
            # every written text starts with its own mark: a refused one can be looked for in the whole stream
            ops.append([1, i, "#%02d" % k + rng.choice(SEQ_TEXTS), rng.choice(FLAGS), rng.randint(0, 1)])
        elif r < 0.60:
            k += 1
            ops.append([2, i, "#%02d" % k + rng.choice(SEQ_TEXTS)])
        elif r < 0.72:
            ops.append([3, i, rng.choice((None, None, 1, 2))])
        elif r < 0.76:
            ops.append([4, i, rng.choice((0, 2, 3))])
        elif r < 0.83:
            ops.append([5, i, rng.randint(0, 1)])
        elif r < 0.88:
            ops.append([6, i, rng.choice(VERBS)])
        elif r < 0.92:
            ops.append([7, rng.randint(0, 1)])                 # the OUTPUT the sections belong to: set_quiet
        elif r < 0.95:
            ops.append([8, rng.choice(VERBS)])                 # ... set_verbosity
        elif r < 0.97:
            ops.append([9, rng.choice((0, 2, 3))])             # ... indent
        else:
            k += 1
            ops.append([10, i, "#%02d" % k + rng.choice(SEQ_TEXTS)])   # the public add_content
    return ops


def seq_walk(case):
    """per call: (allowed?, refused clear/overwrite?) - from quiet / verbosity / flags alone, independent of the model"""
    gates, out, parent = [], [], [0, 0]
    for o in case["ops"]:
        ok, clr = True, False
        if o[0] == 0:
            gates.append(list(parent))          # a section starts with the settings its output has then
        elif o[0] in (1, 2, 3, 10):
            q, v = gates[o[1]]
            ok = (not q) and v >= lowest(o[3] if o[0] == 1 else None)
            clr = o[0] in (2, 3) and not ok
        elif o[0] == 5:
            gates[o[1]][0] = o[2]
        elif o[0] == 6:
            gates[o[1]][1] = o[2]
        elif o[0] == 7:
            parent[0] = o[1]
        elif o[0] == 8:
            parent[1] = o[1]
        out.append((ok, clr))
    return out


def later_groups(case):
    """the calls of a two-section sequence, in two groups (the stream is looked at after each).  One description for both sides:
    [0] section(); [1,i,text,flags,nl] write/write_line; [2,i,text] overwrite; [3,i,n] clear; [4,i,n] indent; [5,i,q] set_quiet;
    [6,i,v] set_verbosity; on the output the sections belong to: [7,q] set_quiet, [8,v] set_verbosity, [9,n] indent;
    [10,i,text] add_content"""
    if "ops" in case:
        return [[o] for o in case["ops"]], None
    q, v, m1, m2 = case["q"], case["v"], case["m1"], case["m2"]
    if case.get("inh"):
        # the output is configured, THEN the newer section is created
        g1 = [[0], [1, 0, T_OLDER, None, 1], [7, q], [8, v], [0]]
    else:
        g1 = [[0], [0], [1, 0, T_OLDER, None, 1]]
        if case.get("pre"):
            g1.append([1, 1, T_FIRST, None, 1])                # written while the newer section is still open
        g1 += [[5, 0, q], [6, 0, v], [5, 1, q], [6, 1, v]]
    f = case["f"]
    if m1 == "overwrite":
        if not case.get("pre"):
            g1.append([1, 1, T_FIRST, None, 1])            # something to overwrite (unflagged; refused when quiet)
        g1.append([2, 1, T_MARK])                          # overwrite takes no flags: the gate is quiet / NORMAL
        f = None
    elif m1 in ("clear", "clear1"):
        g1.append([3, 1, None if m1 == "clear" else 1])
        f = None
    elif m1 == "add_content":
        g1.append([10, 1, T_MARK])                         # no flags either
        f = None
    else:
        g1.append([1, 1, T_MARK, f, 1 if m1 == "write_line" else 0])
    # the older section is written to with everything allowed
    g2 = [[7, 0], [8, 4], [5, 0, 0], [6, 0, 4]] if case.get("inh") else [[5, 0, 0], [6, 0, 4]]
    if m2 == "clear":
        g2.append([3, 0, None])
    elif m2 == "overwrite":
        g2.append([2, 0, T_LATER])
    else:
        g2.append([1, 0, T_LATER, None, 1 if m2 == "write_line" else 0])
    return [g1, g2], f


def w_op(o):
    if o[0] == 1:
        return [1, o[1], S(o[2]), [] if o[3] is None else [o[3]], o[4]]
    if o[0] == 2:
        return [2, o[1], S(o[2])]
    if o[0] == 3:
        return [3, o[1], [] if o[2] is None else [o[2]]]
    if o[0] == 10:
        return [10, o[1], S(o[2])]
    return list(o)


FMT_KIND = {0: (1, 0), 1: (0, 0), 2: (2, 0), 3: (3, 0), 4: (0, 1)}     # fmt -> (formatter kind of the model, stream supports ANSI?)


def is_io_case(c):
    """a single call of the table made on an I/O object (c normalised): it is the IO layer of the model that answers"""
    return bool(c.get("io")) or c["T"] in ("IO", "BufferedIO", "ConsoleIO", "NullIO")


def io_case_history(c):
    """the single call of the table as the history it is: the settings given through the I/O or through its two outputs, to the
    object called or to the parent before section(), then the one writing call"""
    fk, sa = FMT_KIND[c["fmt"]]
    q, v = c["q"], c["v"]

    def conf(i):
        a, b = (0, 1) if i == 0 else (2, 3)
        if c["via"]:
            return [["q", i, q], ["v", i, v]]
        return [["oq", a, q], ["ov", a, v], ["oq", b, q], ["ov", b, v]]
    if c["sec"] and c.get("ord"):
        ops = conf(0) + [["sec", 0]]
    elif c["sec"]:
        ops = [["sec", 0]] + conf(1)
    else:
        ops = conf(0)
    ops.append(["w", 1 if c["sec"] else 0, c["name"], "nf" if c.get("nf") else c["f"]])
    return {"T": c["T"], "fk": fk, "sa": sa, "ops": ops}


def wire(case):
    if "hist" in case:
        return c10io.wire(case)
    if "later" not in case and "reflect" not in case and "consts" not in case and is_io_case(norm(case)):
        return c10io.wire(io_case_history(norm(case)))
    if "later" in case:
        groups, _ = later_groups(case)
        return [98, 1 if is_ansi(case) else 0, 1 if case["fmt"] == 0 else 0, W, [w_style(x) for x in default_set()],
                [[w_op(o) for o in g] for g in groups]]
    if "reflect" in case:
        return [99]
    if "consts" in case:
        return [99]
    k, m = kind_meth(case)
    return [k, 1 if is_ansi(case) else 0, m, case["q"], case["v"], [] if case["f"] is None else [case["f"]]]


def describe(case):
    if "hist" in case:
        return c10io.describe(case)
    if "ops" in case:
        def d(o):
            if o[0] == 0:
                return "section()"
            if o[0] == 1:
                return "s%d.%s(%r%s)" % (o[1], "write_line" if o[4] else "write", o[2], "" if o[3] is None else ", %d" % o[3])
            if o[0] == 2:
                return "s%d.overwrite(%r)" % (o[1], o[2])
            if o[0] == 3:
                return "s%d.clear(%s)" % (o[1], "" if o[2] is None else o[2])
            if o[0] == 10:
                return "s%d.add_content(%r)" % (o[1], o[2])
            if o[0] in (7, 8, 9):
                return "output.%s(%d)" % ({7: "set_quiet", 8: "set_verbosity", 9: "indent"}[o[0]], o[1])
            return "s%d.%s(%d)" % (o[1], {4: "indent", 5: "set_quiet", 6: "set_verbosity"}[o[0]], o[2])
        fn = ["AnsiFormatter(forced)", "", "PlainFormatter", "", "AnsiFormatter on ANSI stream"][case["fmt"]]
        return "sections on one output (%s, width %d): " % (fn, W) + "; ".join(d(o) for o in case["ops"])
    if "later" in case:
        fn = ["AnsiFormatter(forced)", "AnsiFormatter on plain stream", "PlainFormatter", "NullFormatter", "AnsiFormatter on ANSI stream"][case["fmt"]]
        return ("two sections on one output (%s, width %d)%s, quiet=%s verbosity=%s: newer.%s(%s), then older.%s(...) with everything "
                "allowed" % (fn, W, ", the newer one written to first" if case.get("pre") else
                             ", the OUTPUT configured before the newer section is created" if case.get("inh") else "", bool(case["q"]), case["v"],
                             case["m1"], "" if case["m1"].startswith("clear") else "'MARK-REFUSED', flags=%r" % (case["f"],), case["m2"]))
    if "t" not in case and "T" not in case:
        return str(case)
    c = norm(case)
    fn = ["AnsiFormatter(forced)", "AnsiFormatter on plain stream", "PlainFormatter", "NullFormatter", "AnsiFormatter on ANSI stream"][case["fmt"]]
    return "%s.%s(%s) formatter=%s quiet=%s verbosity=%s (settings via %s%s)" % (
        target_name(c), c["name"], "'MARK'" + ("" if c.get("nf") else ", %r" % (c["f"],)), fn, bool(case["q"]), case["v"],
        "IO setters" if case["via"] else "the outputs", ", given to the PARENT before section() is called" if c.get("ord") else "")


def target_name(c):
    return c["T"] + (".section()" if c["sec"] else "")


def _streams(fmt):
    from clikit.io.output_stream import BufferedOutputStream
    from clikit.formatter import AnsiFormatter, PlainFormatter, NullFormatter

    class AnsiStream(BufferedOutputStream):
        def supports_ansi(self):
            return True
    mkfmt = [lambda: AnsiFormatter(forced=True), lambda: AnsiFormatter(), lambda: PlainFormatter(),
             lambda: NullFormatter(), lambda: AnsiFormatter()][fmt]
    mkstream = AnsiStream if fmt == 4 else BufferedOutputStream
    return mkstream(), mkstream(), mkfmt()


def _mk(case):
    from clikit.api.io import IO, Input, Output
    from clikit.io.input_stream import StringInputStream
    so, se, f = _streams(case["fmt"])
    io = IO(Input(StringInputStream("")), Output(so, f), Output(se, f))
    return io, so, se


# ---------------------------------------------------------------- reflection
_CLASSES = None


def io_classes():
    """every class DEFINED in a module of clikit.api.io / clikit.io that is an Output or an IO, by walking the packages"""
    global _CLASSES
    if _CLASSES is None:
        _CLASSES = _io_classes()
    return _CLASSES


def _io_classes():
    import pkgutil, importlib, inspect
    import clikit.api.io, clikit.io
    from clikit.api.io import IO, Output
    found = {}
    for pkg in (clikit.api.io, clikit.io):
        mods = [pkg] + [importlib.import_module(mi.name) for mi in pkgutil.walk_packages(pkg.__path__, pkg.__name__ + ".")]
        for mod in mods:
            for n, c in sorted(vars(mod).items()):
                if inspect.isclass(c) and c.__module__ == mod.__name__ and issubclass(c, (Output, IO)):
                    found[c.__name__] = c
    return found


def instance(cls, so, se, f):
    """an instance of an Output / IO class on the recording streams so / se.  -> (object, [base outputs])"""
    from clikit.api.io import IO, Input, Output
    from clikit.api.io.section_output import SectionOutput
    from clikit.io.input_stream import StringInputStream
    if issubclass(cls, IO):
        inp, out, eo = Input(StringInputStream("line\n")), Output(so, f), Output(se, f)
        try:
            obj = cls(inp, out, eo)
            if obj.output is not out or obj.error_output is not eo:
                raise TypeError("other constructor")
        except Exception:  # noqa
            # a constructor of its own (BufferedIO, NullIO build their streams themselves): the class on OUR outputs
            obj = cls.__new__(cls)
            IO.__init__(obj, inp, out, eo)
        return obj, [out, eo]
    if issubclass(cls, SectionOutput):
        base = Output(so, f)
        return None, [base]              # made by base.section(), see target()
    return cls(so, f), []


class Target(object):
    """the object a case calls, the streams it writes to, and (sections) an OLDER and a NEWER section next to it on each stream"""
    pass


def target(cls, sec, fmt, configure=None):
    """configure(objects): called on the parent(s) right BEFORE section() when the case says so"""
    from clikit.api.io import IO
    from clikit.api.io.section_output import SectionOutput
    so, se, f = _streams(fmt)
    t = Target()
    t.so, t.se = so, se
    obj, bases = instance(cls, so, se, f)
    t.older, t.newer = [], []
    is_sec = sec or (obj is None)
    if is_sec:
        for b in bases:
            o = b.section()
            o.write_line("older")
            t.older.append(o)
    if obj is None:
        t.parent = bases[0]
        if configure:
            configure(t.parent)
        obj = bases[0].section()
        if not isinstance(obj, cls):
            raise RuntimeError("no way to make a %s" % cls.__name__)
    elif sec:
        t.parent = obj
        if configure:
            configure(t.parent)
        obj = obj.section()
    t.obj = obj
    t.outs = [obj.output, obj.error_output] if isinstance(obj, IO) else [obj]
    t.is_sec = bool(is_sec)
    return t


def add_newer(t):
    for b in ([t.parent.output, t.parent.error_output] if hasattr(t.parent, "error_output") else [t.parent]):
        n = b.section()
        n.write_line("newer")
        t.newer.append(n)


def trigger(t):
    """what makes a recorded text reach the stream later: a write into an older section of the same stream, a flush"""
    for o in t.older:
        o.set_quiet(False)
        o.write_line("T")
    try:
        t.obj.flush()
    except Exception:  # noqa
        pass


MARK = "MARK"


def arg_vectors(fn):
    """argument lists to call a public callable with: its required positional parameters all given one candidate value (the
    first ones a text that can be looked for in the stream)"""
    import inspect
    from clikit.io.output_stream import BufferedOutputStream
    from clikit.formatter import PlainFormatter
    from clikit.api.formatter import Style
    try:
        params = [p for p in inspect.signature(fn).parameters.values()]
    except (TypeError, ValueError):
        params = []
    req = [p for p in params if p.default is inspect.Parameter.empty and p.kind in (p.POSITIONAL_ONLY, p.POSITIONAL_OR_KEYWORD)]
    n = len(req)
    cands = [lambda: MARK, lambda: [MARK], lambda: 1, lambda: True, lambda: BufferedOutputStream(), lambda: PlainFormatter(),
             lambda: Style("mark"), lambda: None]
    if n == 0:
        return [[]]
    return [[c() for _ in range(n)] for c in cands]


def discover():
    """Every public member of every Output / IO class (cls.__dict__ along the MRO, so that an override counts for the class
    that overrides), CALLED on a recording stream, decorated and not, verbosity DEBUG, not quiet:
      writer 'now'    the stream grew during the call
      writer 'later'  it did not, but the text the call was given is on the stream after a write into an older section
      uncallable      every argument list raised before anything could be seen"""
    import inspect
    classes = io_classes()
    from clikit.api.io import IO
    from clikit.api.io.section_output import SectionOutput
    targets, entries, no_section = [], [], []
    for cname, cls in sorted(classes.items()):
        kind = "io" if issubclass(cls, IO) else "out"
        has_sec = 0
        if kind == "io":
            try:
                target(cls, 1, 0)
                has_sec = 1
            except Exception as e:  # noqa
                no_section.append("%s.section(): %s" % (cname, type(e).__name__))
        targets.append({"cls": cname, "kind": kind, "sec": has_sec, "section_class": 1 if issubclass(cls, SectionOutput) else 0})
        names = {}
        for k in cls.__mro__:
            if k not in classes.values():
                continue          # (object, the abstract Formatter interface: not classes of the I/O packages)
            for n, m in vars(k).items():
                if not n.startswith("_") and n not in names:
                    names[n] = k.__name__
        for n, definer in sorted(names.items()):
            raw = inspect.getattr_static(cls, n)
            writer, called = None, False
            for sec in ([0, 1] if has_sec else [0]):
                for fmt in (0, 2):
                    for vi in range(8):
                        t = target(cls, sec, fmt)
                        # (the argument lists are made for the BOUND member of this very object)
                        vectors = [None] if isinstance(raw, property) else arg_vectors(getattr(t.obj, n))
                        if vi >= len(vectors):
                            break
                        vec = vectors[vi]
                        if t.is_sec:
                            add_newer(t)
                            for o in t.outs:
                                o.write_line("content")
                        for o in t.outs:
                            o.set_verbosity(4)
                        b0 = (t.so.fetch(), t.se.fetch())
                        try:
                            if vec is None:
                                getattr(t.obj, n)
                            else:
                                getattr(t.obj, n)(*vec)
                            called = True
                        except Exception:  # noqa
                            pass
                        b1 = (t.so.fetch(), t.se.fetch())
                        if not (b0[0].startswith(b1[0]) and b0[1].startswith(b1[1])):
                            writer = "now"          # something new is on a stream (emptying a buffer is not writing)
                            continue
                        try:
                            trigger(t)
                        except Exception:  # noqa
                            continue
                        b2 = (t.so.fetch(), t.se.fetch())
                        if (MARK in b2[0][len(b1[0]):] or MARK in b2[1][len(b1[1]):]) and writer is None:
                            writer = "later"
            entries.append({"cls": cname, "name": n, "defined_in": definer, "writer": writer, "called": called,
                            "member": type(raw).__name__})
    return {"targets": targets, "entries": entries, "no_section": no_section}


# NullIO().section() raises TypeError on the unchanged tree (IO.section() calls self.__class__(input, output, error_output),
# NullIO.__init__ takes no argument): there is no section output of a NullIO, nothing of C10 can be asked of it.  Any OTHER
# public member that cannot be called with any of the argument lists cannot be classified: a correspondence break.
UNCALLABLE = ["NullIO.section"]


def unknown_writers(found):
    """-> (writers under a name the model has no row for, members that could not be called at all)"""
    out, unc = [], []
    kinds = dict((t["cls"], t) for t in found["targets"])
    for e in found["entries"]:
        t = kinds[e["cls"]]
        sem = IO_METHS if t["kind"] == "io" else (SEC_SEM if t["section_class"] else OUT_SEM)
        if e["writer"] and e["name"] not in sem:
            out.append("%s.%s writes (%s)" % (e["cls"], e["name"], e["writer"]))
        if not e["called"]:
            unc.append("%s.%s" % (e["cls"], e["name"]))
    return sorted(out), sorted(unc)


# ---------------------------------------------------------------- one call of the table
def _call(case, permissive):
    """returns the bytes appended to the observed stream by the call (for add_content: by the call and the write into an
    older section that follows it)"""
    c = norm(case)
    cls = io_classes().get(c["T"])
    if cls is None:
        return None
    q, v, f = (0, 4, None) if permissive else (c["q"], c["v"], c["f"])
    name = c["name"]

    def configure(x, via=c["via"]):
        outs = [x.output, x.error_output] if hasattr(x, "error_output") else [x]
        if via and hasattr(x, "error_output"):
            x.set_quiet(bool(q))
            x.set_verbosity(v)
        else:
            for o in outs:
                o.set_quiet(bool(q))
                o.set_verbosity(v)
    t = target(cls, c["sec"], c["fmt"], configure if c.get("ord") else None)
    if not hasattr(t.obj, name):
        return None
    if t.is_sec and not c.get("ord"):
        # sections get prior content so that clear/overwrite have something to act on, and a newer sibling section with
        # content (so that writing has to erase and re-print it)
        for o in t.outs:
            o.write_line("content")
        add_newer(t)
    if not c.get("ord"):
        configure(t.obj)
    stream = t.se if (name in IO_METHS and IO_METHS[name][0] == 1) else t.so
    other = t.so if stream is t.se else t.se
    before, obefore = stream.fetch(), other.fetch()
    meth = getattr(t.obj, name)
    if name == "clear":
        meth()
    elif name in ("overwrite", "add_content"):
        meth(MARK)
    elif permissive or c.get("nf"):
        meth(MARK)
    else:
        meth(MARK, f)
    if name == "add_content":
        mid = stream.fetch()
        if len(mid) != len(before):
            return mid[len(before):]           # add_content itself writes nothing
        trigger(t)
    after = stream.fetch()
    _call.other = other.fetch()[len(obefore):]       # what the call put on the stream it is NOT expected to write to
    return after[len(before):]


def _later(case):
    os.environ["COLUMNS"] = str(W)
    io, so, se = _mk(case)
    groups, f = later_groups(case)
    secs, seen, done = [], [], 0
    for g in groups:
        for o in g:
            if o[0] == 0:
                secs.append(io.output.section())
            elif o[0] == 1:
                meth = secs[o[1]].write_line if o[4] else secs[o[1]].write
                meth(o[2]) if o[3] is None else meth(o[2], o[3])
            elif o[0] == 2:
                secs[o[1]].overwrite(o[2])
            elif o[0] == 3:
                secs[o[1]].clear() if o[2] is None else secs[o[1]].clear(o[2])
            elif o[0] == 4:
                secs[o[1]].indent(o[2])
            elif o[0] == 5:
                secs[o[1]].set_quiet(bool(o[2]))
            elif o[0] == 6:
                secs[o[1]].set_verbosity(o[2])
            elif o[0] == 7:
                io.output.set_quiet(bool(o[1]))
            elif o[0] == 8:
                io.output.set_verbosity(o[1])
            elif o[0] == 9:
                io.output.indent(o[1])
            else:
                secs[o[1]].add_content(o[2])
        data = so.fetch()
        seen.append(data[done:])
        done = len(data)
    state = [[[S(l) for l in s.content.split("\n")[:-1]] if s.content else [], s.lines, s._indent, 1 if s.is_quiet() else 0,
              s.verbosity] for s in secs]
    return [seen, f, state]


def run_impl(case):
    if "hist" in case:
        try:
            return ["HIST"] + c10io.run_history(case, instance, io_classes)
        except c10io.HarnessError:
            raise
        except Exception as e:
            return ["EXC", type(e).__name__, str(e)[:100], err(e)]
    if "later" in case:
        try:
            return ["LATER"] + _later(case)
        except Exception as e:
            return ["EXC", type(e).__name__, str(e)[:100], err(e)]
    if "reflect" in case:
        return ["REFLECT"] + list(unknown_writers(discover()))
    if "consts" in case:
        from clikit.api.io import flags
        return [flags.NORMAL, flags.VERBOSE, flags.VERY_VERBOSE, flags.DEBUG]
    try:
        perm = _call(case, True)
        exists = perm is not None and len(perm) > 0
        if norm(case)["name"] == "add_content":
            exists = perm is not None and MARK in perm      # (the write into the older section that follows has bytes of its own)
        got = _call(case, False)
    except Exception as e:
        return ["EXC", type(e).__name__, str(e)[:100]]
    name = norm(case)["name"]
    if got is None:
        emitted = False
    elif name == "clear":
        emitted = len(got) > 0
    else:
        emitted = "MARK" in got
    return [1 if exists else 0, 1 if emitted else 0, 1 if got else 0, 1 if "MARK" in (getattr(_call, "other", "") or "") else 0]


def _screen(datas):
    t = termemu.Term(W)
    t.feed("".join(datas))
    return [[S(r) for r in t.screen()], t.r, t.c]


def canon_model_w(case, w):
    """string level: the answer to a history is compared as the driver printed it"""
    if "hist" in case:
        return w
    from hutil import to_wire, from_wire
    return to_wire(canon_model(case, from_wire(w)))


def canon_model(case, obs):
    if "hist" in case:
        return obs
    if "later" not in case and "reflect" not in case and "consts" not in case and is_io_case(norm(case)):
        # the answer of the IO layer to the history this call is: what the LAST call (the writing one) showed.  -> [a text-writing
        # entry point, the text reached the stream the harness watches for this method, it reached another stream]
        if not (isinstance(obs, list) and obs and obs[0] == 0):
            return obs
        last = obs[1][-1]
        if last[0] != 1:
            return ["LAST-CALL", last]
        watched = IO_METHS[norm(case)["name"]][0]
        return [1, 1 if watched in last[1] else 0, 1 if [x for x in last[1] if x != watched] else 0]
    if "later" in case:
        # (0 emits-per-group sections terminal): the implementation side is brought to the same shape
        return obs
    if "reflect" in case:
        # no writing entry point beyond those of Model/Gate.v; every member but the known one could be called
        return ["REFLECT", [], [S(x) for x in UNCALLABLE]]
    return obs


def canon_impl(case, obs):
    if "hist" in case:
        if obs and obs[0] == "HIST":
            return [0] + obs[1:5]
        return obs[3] if obs and obs[0] == "EXC" else obs
    if "later" not in case and "reflect" not in case and "consts" not in case and obs and obs[0] != "EXC" and is_io_case(norm(case)):
        return [obs[0], obs[1], obs[3]]
    if "later" in case:
        if obs and obs[0] == "LATER":
            _, seen, _f, state = obs
            if "ops" in case:
                return [0, [termemu.tokens(x) for x in seen], state, _screen(seen)]
            mid, after = seen
            return [0, [termemu.tokens(mid), termemu.tokens(after)], state, _screen([mid, after])]
        return obs[3] if obs and obs[0] == "EXC" else obs
    if "reflect" in case:
        return ["REFLECT", [S(x) for x in obs[1]], [S(x) for x in obs[2]]]
    if ("t" in case or "T" in case) and obs and obs[0] != "EXC":
        return obs[:2]
    return obs


def lowest(f):
    if f is None:
        return 0
    if f & 1:
        return 1
    if f & 2:
        return 2
    if f & 4:
        return 4
    return 0


def screen_vs_stack(seen, state):
    """decorated: the screen is the stack of the recorded contents (Props/C10.v gated_screen_is_stack), the row counts are theirs"""
    from props.C15 import visible
    stack = []
    for cs, lines, _ind, _q, _v in state:
        rows = []
        for l in cs:
            vis, _ = visible(unS(l))
            rows += termemu.wrap_rows(vis, W)
        if lines != len(rows):
            return "row-count-disagrees-with-content"
        stack += rows
    screen, r, col = _screen(seen)
    if [unS(x) for x in screen] != stack + [""] or r != len(stack) or col != 0:
        return "screen-differs-from-stacked-contents"
    return None


def oracle_seq(case, seen, state):
    walk = seq_walk(case)
    whole = "".join(seen)
    for o, (ok, clr), data in zip(case["ops"], walk, seen):
        name = {0: "section", 1: "write", 2: "overwrite", 3: "clear", 4: "indent", 5: "set_quiet", 6: "set_verbosity",
                7: "output.set_quiet", 8: "output.set_verbosity", 9: "output.indent", 10: "add_content"}[o[0]]
        if not ok and data:
            return "bytes-despite-gate:SectionOutput.%s" % name
        if o[0] in (1, 2, 10):
            if not ok and o[2][:3] in whole:
                return "refused-text-appears-later:SectionOutput.%s" % name
            if ok and o[0] != 10 and o[2][:3] not in data:
                return "gate:SectionOutput.%s" % name
            if o[0] == 10 and data:
                return "emits-without-path"
        elif o[0] not in (3,) and data:
            return "emits-without-path"
    if not is_ansi(case):
        return None
    if any(o[0] == 10 and ok for o, (ok, _) in zip(case["ops"], walk)):
        return None       # an allowed add_content puts on record what is not on the screen: the stack claim is not made
    bad = screen_vs_stack(seen, state)
    if bad == "screen-differs-from-stacked-contents" and not all(ok for ok, _ in walk):
        return "refused-call-leaves-a-trace"
    return bad


def oracle(case, obs):
    if "hist" in case:
        if obs[0] == "EXC":
            return "exception:" + obs[1]
        return c10io.oracle(case, obs[1:], lowest)
    if "later" in case:
        if obs[0] == "EXC":
            return "exception:" + obs[1]
        _, seen, f, state = obs
        if "ops" in case:
            return oracle_seq(case, seen, state)
        mid, after = seen
        m1 = case["m1"]
        exp = (not case["q"]) and case["v"] >= lowest(f)
        if not exp and ("MARK-REFUSED" in mid or "MARK-REFUSED" in after):
            return "%s:SectionOutput.%s then %s" % ("section-ignores-the-gate-of-its-output" if case.get("inh") else
                                                     "refused-text-appears-later", m1, case["m2"])
        if m1 == "add_content":
            # recorded, not written: the text must not be on the stream at once; on a decorated output it is printed with
            # the newer sections when the older one is written to
            if "MARK-REFUSED" in mid:
                return "emits-without-path"
            if exp and is_ansi(case) and "MARK-REFUSED" not in after:
                return "gate:SectionOutput.add_content"
            return None
        if exp and not m1.startswith("clear") and "MARK-REFUSED" not in mid:
            return "gate:SectionOutput.%s" % m1
        if not is_ansi(case):
            return None
        # decorated: the screen is the stack of the recorded contents (Props/C10.v gated_screen_is_stack), the row counts
        # are theirs - also after a refused clear / overwrite of a section that has content
        bad = screen_vs_stack(seen, state)
        if bad == "screen-differs-from-stacked-contents" and not exp:
            return "refused-call-leaves-a-trace:SectionOutput.%s" % m1
        return bad
    if "reflect" in case:
        if obs[1]:
            return "unknown-entry-point:" + ", ".join(obs[1])
        if [x for x in obs[2] if x not in UNCALLABLE]:
            return "member-cannot-be-classified:" + ", ".join(x for x in obs[2] if x not in UNCALLABLE)
        return None
    if "consts" in case:
        return None if obs == [0, 1, 2, 4] else "flag-constants-changed"
    if obs and obs[0] == "EXC":
        return "exception:" + obs[1]
    exists, emitted, anybytes = obs[:3]
    c = norm(case)
    if len(obs) > 3 and obs[3]:
        return "wrong-stream:%s.%s" % (target_name(c), c["name"])
    name = c["name"]
    f = case["f"] if name not in ("overwrite", "clear", "add_content") else None
    if not exists:
        return None if not emitted else "emits-without-path"
    exp = (not case["q"]) and case["v"] >= lowest(f)
    if bool(emitted) != exp:
        if c.get("ord"):
            # the settings were given to the output (the I/O) BEFORE section() was called
            return "section-ignores-the-gate-of-its-output:%s.%s" % (target_name(c), name)
        return "gate:%s.%s" % (target_name(c), name)
    if not exp and anybytes and name != "add_content":
        return "bytes-despite-gate:%s.%s" % (target_name(c), name)
    return None


def nontrivial_key(case, obs):
    if "hist" in case:
        return ["hist", case["T"], case["fk"], case["sa"], case["ops"]] if c10io.nontrivial(case, lowest) else None
    if "ops" in case:
        return ["seq", case["fmt"], case["ops"]] if not all(ok for ok, _ in seq_walk(case)) else None
    if "later" in case:
        if case["f"] not in (None, 0) or case.get("pre") or case.get("inh") or case["m1"] == "add_content":
            return ["later", case.get("pre", 0), case.get("inh", 0)] + [case[k] for k in ("fmt", "q", "v", "f", "m1", "m2")]
        return None
    if ("t" in case or "T" in case) and obs and obs[0] == 1 and case["f"] not in (None, 0):
        c = norm(case)
        return [c[k] for k in ("T", "sec", "name", "fmt", "q", "v", "f", "via")] + [c.get("ord", 0)]
    return None


def shrink(case):
    if "hist" in case:
        for c in c10io.shrink(case):
            yield c
        return
    if "ops" in case:
        ops = case["ops"]
        for i in range(1, len(ops)):
            if ops[i][0] != 0:
                yield {"later": 1, "fmt": case["fmt"], "ops": ops[:i] + ops[i + 1:]}
