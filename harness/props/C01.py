"""C01 - parsing a well-formed command line recovers exactly the intended values."""
import itertools
from hutil import S, unS, enc_val, canon_floats, canon_floats_w
import parsergen as G

MODEL = "C01"
MODEL_ENTRY = "run_C01T"        # the driver's entry for C01 (Model/Spell.v): the parse and, next to it, the verdicts on the line description (command names first, when the line has one) and on the generalised description (every line)
PROP_FILES = ["Props/C01.v"]
RULE = ("(format, assignment, spelling): formats = 40 fixed ones + formats drawn from the seed over the quantifier's domain (0-5 "
        "options over value mode x type x nullable x short name x default none/truthy/falsy/other-typed, 0-4 arguments required/"
        "optional/multi-valued x type x nullable x default, 0-2 command names with 0-2 aliases, 0-2 base levels). For small formats "
        "(<= 2 options, <= 2 arguments, <= 1 command name) every interleaving of the option items among the positionals x every "
        "form ('--n=v', '--n v', '-nv', '-n v', bare flags) x every way of writing adjacent short options as one group x every "
        "'--' placement x given/omitted command names spelled by name or alias and standing anywhere among the option items, also "
        "behind '--' (they are the first positional tokens of the line), strict and lenient (capped per assignment); "
        "seeded random spellings for larger formats, a third of them built around a group of short flags of any length with or "
        "without a valued last member; lines that give a valued option a command name as its value. Every case carries its "
        "generalised line description (ld2 of Model/Spell.v), the cases with all command names in front also the older one. "
        "The expected Args observation is computed from the assignment alone. Non-trivial = "
        ">= 1 option item and >= 1 positional; distinct by (format, mode, tokens)")
TRUSTED = ["the expected observation is computed by an independent Python function from the assignment (oracle)"]
ASSUMPTIONS = ["lines satisfy the side conditions of wf_line2 (Model/Spell.v; wf_line when the command names come first): separated values do not start with '-' and are not empty, "
               "pre-'--' positionals do not start with '-' (except '-' itself; the empty token is allowed), an omitted optional value "
               "is not followed by a positional other than '-', an omitted command name is not followed by a positional equal to it, no positional value "
               "stands in front of a command name, a command name does not follow an omitted optional value; "
               "single-valued options occur once; negative argument positions are not probed (outside the model)"]

EXTRA = ["zz"]


# ---------------------------------------------------------------- expected observation from the assignment
def conv(flags_type, nullable, text):
    """independent re-statement of the typed conversion for well-formed texts"""
    if nullable and text == "null":
        return None
    if flags_type == "bool":
        return {"true": True, "1": True, "yes": True, "on": True, "false": False, "0": False, "no": False, "off": False, "": False}[text]
    if flags_type == "int":
        return int(text)
    if flags_type == "float":
        return float(text)
    return text


def otype(o):
    f = o["flags"]
    return "bool" if f & G.O_BOOL else "int" if f & G.O_INT else "float" if f & G.O_FLOAT else "str"


def atype(a):
    f = a["flags"]
    return "bool" if f & G.A_BOOL else "int" if f & G.A_INT else "float" if f & G.A_FLOAT else "str"


def okind(o):
    f = o["flags"]
    if f & G.MULTI_V:
        return "multi"
    if f & G.REQ_V:
        return "req"
    if f & G.OPT_V:
        return "opt"
    return "flag"


def odefault(o):
    if okind(o) == "flag":
        return False
    if okind(o) == "multi" and o["default"] is None:
        return []
    return o["default"]


def adefault(a):
    if a["flags"] & G.A_MULTI and a["default"] is None:
        return []
    return a["default"]


def conv_default(o):
    """value stored when an optional-value option is given bare: the default run through the converter"""
    d = o["default"]
    t, nl = otype(o), bool(o["flags"] & G.O_NULL)
    if nl and (d is None or d == "null"):
        return None
    if t == "str":
        return "null" if d is None else ("true" if d is True else "false" if d is False else str(d))
    if t == "int":
        return int(d)
    if t == "float":
        return float(d)
    if isinstance(d, bool):
        return d
    return conv("bool", nl, str(d) if isinstance(d, int) else d)


def expected(levels, asg):
    """asg = {"opts": {long: True | text | [texts] | "BARE"}, "args": [texts for the real arguments in order]}"""
    opts = G.fmt_options(levels)
    args = G.fmt_args(levels)
    oset = {}
    for o in opts:
        if o["long"] in asg["opts"]:
            v = asg["opts"][o["long"]]
            nl = bool(o["flags"] & G.O_NULL)
            if okind(o) == "flag":
                oset[o["long"]] = True
            elif okind(o) == "multi":
                oset[o["long"]] = [conv(otype(o), nl, t) for t in v]
            elif v == ["BARE"]:
                oset[o["long"]] = conv_default(o)
            else:
                oset[o["long"]] = conv(otype(o), nl, v)
    aset = {}
    vals = list(asg["args"])
    for a in args:
        nl = bool(a["flags"] & G.A_NULL)
        if not vals:
            break
        if a["flags"] & G.A_MULTI:
            aset[a["name"]] = [conv(atype(a), nl, t) for t in vals]
            vals = []
        else:
            aset[a["name"]] = conv(atype(a), nl, vals.pop(0))
    # the observation vector (same layout as parsergen.observe_args)
    def items(d):
        return [[S(k), enc_val(v)] for k, v in d.items()]
    a_false = {a["name"]: aset[a["name"]] for a in args if a["name"] in aset}
    a_true = {a["name"]: (aset[a["name"]] if a["name"] in aset else adefault(a)) for a in args}
    o_true = dict(oset)
    for o in opts:
        if o["long"] not in o_true:
            o_true[o["long"]] = odefault(o)
    oprobe = []
    for o in opts:
        val = oset.get(o["long"], odefault(o))
        oprobe.append([[0, enc_val(val)], int(o["long"] in oset)])
        if o["short"]:
            oprobe.append([[0, enc_val(val)], int(o["long"] in oset)])
    for x in EXTRA:
        oprobe.append([[-1, 3], 0])
    aprobe = []
    for a in args:
        aprobe.append([[0, enc_val(aset.get(a["name"], adefault(a)))], int(a["name"] in aset)])
    for x in EXTRA:
        aprobe.append([[-1, 4], 0])
    for i in range(len(args) + 1):
        if i < len(args):
            a = args[i]
            aprobe.append([[0, enc_val(aset.get(a["name"], adefault(a)))], int(a["name"] in aset)])
        else:
            aprobe.append([[-1, 4], 0])
    return [0, [items(a_false), items(a_true), None, items(o_true), oprobe, aprobe]], oset


# ---------------------------------------------------------------- spellings
def option_items(levels, asg):
    """one item per option occurrence: (option, text or None)"""
    out = []
    for o in G.fmt_options(levels):
        if o["long"] in asg["opts"]:
            v = asg["opts"][o["long"]]
            if okind(o) == "flag":
                out.append((o, None))
            elif okind(o) == "multi":
                out.extend((o, t) for t in v)
            elif v == ["BARE"]:
                out.append((o, "BARE"))
            else:
                out.append((o, v))
    return out


def forms(o, text):
    """token groups that spell one option occurrence; each is a list of 1-2 tokens"""
    return [f[0] for f in forms_d(o, text)]


def forms_d(o, text):
    """(tokens, item of the line description of Model/Spell.v) for every way to write one option occurrence"""
    fs = []
    if text is None or text == "BARE":
        tag = 0 if text is None else 2
        fs.append((["--" + o["long"]], [tag, S(o["long"]), 1]))
        if o["short"]:
            fs.append((["-" + o["short"]], [tag, S(o["long"]), 0]))
        return fs
    fs.append((["--" + o["long"] + "=" + text], [1, S(o["long"]), 0, S(text)]))
    sep_ok = text != "" and not text.startswith("-")
    if sep_ok:
        fs.append((["--" + o["long"], text], [1, S(o["long"]), 1, S(text)]))
    if o["short"]:
        fs.append((["-" + o["short"] + text], [1, S(o["long"]), 2, S(text)]))
        if sep_ok:
            fs.append((["-" + o["short"], text], [1, S(o["long"]), 3, S(text)]))
    return fs


def interleavings(n_opt_items, n_pos):
    """all merges of option items (any order is produced by the caller) with the positionals in order:
       returns lists of 'o'/'p' marks"""
    out = []
    for comb in itertools.combinations(range(n_opt_items + n_pos), n_opt_items):
        marks = ["p"] * (n_opt_items + n_pos)
        for i in comb:
            marks[i] = "o"
        out.append(marks)
    return out


def n_orders(items):
    """number of orders of the option items that keep the occurrences of one option in their own order"""
    import math
    cnt = {}
    for o, _ in items:
        cnt[o["long"]] = cnt.get(o["long"], 0) + 1
    n = math.factorial(len(items))
    for k in cnt.values():
        n //= math.factorial(k)
    return n


def fix_order(perm, items):
    """occurrences of the same option appear in index order (multi-values are listed in command-line order)"""
    by = {}
    for q, i in enumerate(perm):
        by.setdefault(items[i][0]["long"], []).append(q)
    perm = list(perm)
    for qs in by.values():
        for q, v in zip(qs, sorted(perm[q] for q in qs)):
            perm[q] = v
    return perm


def is_short_flag(e):
    return e[0] == "o" and e[2][0] == 0 and e[2][2] == 0


def is_short_last(e):
    """an option occurrence written with its short name that may close a group: -f, -m (value omitted), -oTEXT, -o TEXT"""
    return e[0] == "o" and ((e[2][0] in (0, 2) and e[2][2] == 0) or (e[2][0] == 1 and e[2][2] in (2, 3)))


def merge_group(seg):
    """one entry for the adjacent short-form entries seg = flags ... flags [last]: '-abc', '-abcTEXT', '-abc TEXT'"""
    flags, last = seg[:-1], seg[-1]
    letters = "".join(e[3]["short"] for e in flags)
    fl = [e[2][1] for e in flags]
    ls = last[3]["short"]
    d = last[2]
    if d[0] == 0:
        return ("o", ["-" + letters + ls], [3, fl + [d[1]], []], None)
    if d[0] == 2:
        return ("o", ["-" + letters + ls], [3, fl, [d[1], [2]]], None)
    if d[2] == 2:
        return ("o", ["-" + letters + ls + unS(d[3])], [3, fl, [d[1], [0, d[3]]]], None)
    return ("o", ["-" + letters + ls, unS(d[3])], [3, fl, [d[1], [1, d[3]]]], None)


def group_segments(entries):
    """all (a, b), b > a: entries[a..b-1] are short flags and entries[b] may close the group"""
    out = []
    for a in range(len(entries)):
        if not is_short_flag(entries[a]):
            continue
        b = a
        while b + 1 < len(entries) and is_short_flag(entries[b]) and is_short_last(entries[b + 1]):
            b += 1
            out.append((a, b))
    return out


def grouped(entries, seg):
    a, b = seg
    return entries[:a] + [merge_group(entries[a:b + 1])] + entries[b + 1:]


def finish(entries):
    """entries -> (tokens, line description of Model/Spell.v or None, generalised line description).  The description [ld]
    exists when the command-name spellings come first (no option in front of one, none after '--'); the generalised one
    [ld2] (a spelling is an item of its own, '--' is followed by spellings and then values) exists for every line."""
    toks, names, d_items, d_tail, d_ok = [], [], [], None, True
    g_items, g_tail = [], None
    seen_other = False
    for e in entries:
        if e[0] == "n":
            toks.append(e[1])
            names.append(S(e[1]))
            if seen_other:
                d_ok = False
            if g_tail is not None:
                g_tail[0].append(S(e[1]))
            else:
                g_items.append([5, S(e[1])])
        elif e[0] == "dd":
            toks.append("--")
            d_tail = []
            g_tail = [[], []]
            seen_other = True
        elif e[0] == "p":
            toks.append(e[1])
            seen_other = True
            if d_tail is not None:
                d_tail.append(S(e[1]))
                g_tail[1].append(S(e[1]))
            else:
                d_items.append([4, S(e[1])])
                g_items.append([4, S(e[1])])
        else:
            toks.extend(e[1])
            d_items.append(e[2])
            g_items.append(e[2])
            seen_other = True
    return (toks, ([names, d_items, [] if d_tail is None else [d_tail]] if d_ok else None),
            [g_items, [] if g_tail is None else [g_tail]])


def spell_all(levels, asg, rng=None, limit=None, group_bias=0.0):
    """entry lists spelling asg: all of them when there are at most `limit`, else a random sample (with probability
    group_bias a line is built so that the short-named flags stand next to each other, a short-named valued option behind them)"""
    cns = G.fmt_cnames(levels)
    items = option_items(levels, asg)
    pos = list(asg["args"])
    idx = list(range(len(items)))
    cn_choices = []
    for k in range(len(cns), -1, -1):
        for names in itertools.product(*[[c["name"]] + c["aliases"] for c in cns[:k]]):
            cn_choices.append(list(names))
    item_forms = [forms_d(o, t) for (o, t) in items]
    results = []

    def build(names, perm, marks, fsel, dd):
        pos_all = names + pos
        last_o = max([i for i, m in enumerate(marks) if m == "o"], default=-1)
        if dd is not None and dd < last_o + 1:
            return None
        k = len(names)
        if k < len(cns) and pos:
            c = cns[k]
            if pos[0] != "" and (pos[0] == c["name"] or pos[0] in c["aliases"]):
                return None
        entries, oi, pi = [], 0, 0
        for i, m in enumerate(marks):
            if dd is not None and i == dd:
                entries.append(("dd",))
            if m == "o":
                it = perm[oi]
                o, t = items[it]
                oi += 1
                entries.append(("o", fsel[it][0], fsel[it][1], o))
                if t == "BARE":
                    # an omitted optional value must not be followed by a positional (it would be taken as the value)
                    if i + 1 < len(marks) and marks[i + 1] == "p" and not (dd is not None and dd == i + 1):
                        if pos_all[pi] != "-":
                            return None
            else:
                v = pos_all[pi]
                if (dd is None or i < dd) and v.startswith("-") and v != "-":
                    return None
                if pi < k and v == "":
                    return None
                entries.append(("n" if pi < k else "p", v))
                pi += 1
        if dd is not None and dd == len(marks):
            entries.append(("dd",))
        return entries

    space = []
    for names in cn_choices:
        n_marks = len(items) + len(names) + len(pos)
        space.append((names, n_marks))
    nforms = 1
    for f in item_forms:
        nforms *= len(f)
    import math
    total = sum(n_orders(items) * math.comb(n, len(items)) * nforms * (n + 2) for (_, n) in space)
    if limit is None or total <= limit or rng is None:
        orders = [p for p in itertools.permutations(idx) if list(p) == fix_order(p, items)]
        for names, n in space:
            mk = interleavings(len(items), n - len(items))
            for perm in orders:
                for marks in mk:
                    for fsel in itertools.product(*item_forms):
                        for dd in [None] + list(range(n + 1)):
                            t = build(names, perm, marks, fsel, dd)
                            if t is not None:
                                results.append(t)
        return results
    # short-named flags / short-named valued occurrences: candidates for a group
    sflags = [i for i in idx if items[i][0]["short"] and items[i][1] is None]
    svalued = [i for i in idx if items[i][0]["short"] and items[i][1] is not None]
    tries = 0
    while len(results) < limit and tries < limit * 6:
        tries += 1
        names, n = rng.choice(space)
        npos = n - len(items)
        fsel = [rng.choice(f) for f in item_forms]
        if len(sflags) >= 1 and len(sflags) + min(1, len(svalued)) >= 2 and rng.random() < group_bias:
            block = rng.sample(sflags, rng.randint(1, len(sflags)))
            if svalued and (len(block) < 2 or rng.random() < 0.7):
                block.append(rng.choice(svalued))
            rest = [i for i in idx if i not in block]
            rng.shuffle(rest)
            units = [[i] for i in rest]
            units.insert(rng.randint(0, len(units)), block)
            perm = fix_order([i for u in units for i in u], items)
            for i in block:                                  # short forms for the members of the block
                sf = [f for f in item_forms[i] if is_short_last(("o", f[0], f[1]))]
                fsel[i] = rng.choice(sf)
            slots = sorted(rng.randint(0, len(units)) for _ in range(npos))   # positionals between the units
            marks = []
            for ui, u in enumerate(units):
                marks += ["p"] * slots.count(ui) + ["o"] * len(u)
            marks += ["p"] * slots.count(len(units))
        else:
            perm = idx[:]
            rng.shuffle(perm)
            perm = fix_order(perm, items)
            where = set(rng.sample(range(n), len(items)))
            marks = ["o" if i in where else "p" for i in range(n)]
        t = build(names, perm, marks, fsel, rng.choice([None, None] + list(range(n + 1))))
        if t is not None:
            results.append(t)
    return results


def variants(entries, rng=None, max_groups=None):
    """the line itself and the same line with adjacent short options written as one group (every contiguous choice, or a
    sample of max_groups of them, the longest always among them): (tokens, description) pairs"""
    out = [finish(entries)]
    segs = group_segments(entries)
    if max_groups is not None and len(segs) > max_groups:
        longest = max(segs, key=lambda s: s[1] - s[0])
        segs = [longest] + rng.sample([s for s in segs if s != longest], max_groups - 1)
    for seg in segs:
        out.append(finish(grouped(entries, seg)))
    return out


def group_flags(toks, levels, desc=None):
    """(kept for other callers) merge the first two adjacent short option tokens '-a' '-b...' into '-ab...'"""
    shorts = {o["short"]: o for o in G.fmt_options(levels) if o["short"]}
    for i in range(len(toks) - 1):
        a, b = toks[i], toks[i + 1]
        if len(a) == 2 and a[0] == "-" and a[1] in shorts and okind(shorts[a[1]]) == "flag" and \
           len(b) >= 2 and b[0] == "-" and b[1] != "-" and b[1] in shorts:
            if "--" in toks[:i + 1]:
                break
            return toks[:i] + ["-" + a[1] + b[1:]] + toks[i + 2:], None
    return None


# ---------------------------------------------------------------- assignments
def value_texts(kind_type, nullable, rng, where):
    pool = {"str": ["val", "a=b", "é", "x y", "-", "7", "oVAL"], "int": ["5", "0", "12"], "float": ["1.5", "2", "1e3", "0.0"],
            "bool": ["true", "0", "no", "on", "false", "1", "yes", "off"]}[kind_type]
    if nullable:
        pool = pool + ["null"]
    if where == "eq":
        pool = pool + {"str": ["-x", "--y", "--", "=", "a=b=c"], "int": ["-3"], "float": ["-0.5"], "bool": []}[kind_type]
    if where == "pos":
        pool = pool + {"str": [""], "int": [], "float": [], "bool": [""]}[kind_type]
    if where == "tail":
        pool = pool + {"str": ["-x", "--y", "--", "", "--opt=1"], "int": ["-3"], "float": ["-0.5"], "bool": [""]}[kind_type]
    return pool


def assignments(levels, rng, n, max_multi=2):
    opts = G.fmt_options(levels)
    args = G.fmt_args(levels)
    out = []
    for _ in range(n):
        asg = {"opts": {}, "args": []}
        p_skip = rng.choice([0.4, 0.4, 0.15, 0.7])
        for o in opts:
            r = rng.random()
            if r < p_skip:
                continue
            k = okind(o)
            nl = bool(o["flags"] & G.O_NULL)
            if k == "flag":
                asg["opts"][o["long"]] = True
            elif k == "multi":
                asg["opts"][o["long"]] = [rng.choice(value_texts(otype(o), nl, rng, rng.choice(["sep", "sep", "eq"]))) for _ in range(rng.randint(1, max_multi))]
            elif k == "opt" and rng.random() < 0.4:
                try:
                    conv_default(o)
                    asg["opts"][o["long"]] = ["BARE"]
                except Exception:
                    pass
            else:
                asg["opts"][o["long"]] = rng.choice(value_texts(otype(o), nl, rng, rng.choice(["sep", "sep", "eq"])))
        nreq = sum(1 for a in args if a["flags"] & G.A_REQ)
        k = rng.randint(nreq, len(args) + (2 if any(a["flags"] & G.A_MULTI for a in args) else 0))
        vals = []
        ai = 0
        tail_mode = rng.random() < 0.35
        tail_from = rng.randint(0, max(0, k - 1))
        for i in range(k):
            a = args[min(ai, len(args) - 1)] if args else None
            if a is None:
                break
            nl = bool(a["flags"] & G.A_NULL)
            vals.append(rng.choice(value_texts(atype(a), nl, rng, "tail" if tail_mode and i >= tail_from else rng.choice(["sep", "sep", "sep", "pos"]))))
            if not (a["flags"] & G.A_MULTI):
                ai += 1
                if ai >= len(args):
                    break
        asg["args"] = vals
        out.append(asg)
    return out


def is_small(lv):
    return len(G.fmt_options(lv)) <= 2 and len(G.fmt_args(lv)) <= 2 and len(G.fmt_cnames(lv)) <= 1


SMALL = [i for i, lv in enumerate(G.SMALL_FORMATS) if is_small(lv)]
LARGE = [i for i in range(len(G.SMALL_FORMATS)) if i not in SMALL]


def random_formats(rng, tier):
    """formats drawn from the quantifier's domain: (small ones, larger ones).  Half of the larger ones are made to hold two or
    three short-named flags and a short-named valued option, so that groups of every length can be written."""
    n_small, n_large = {"quick": (16, 36), "thorough": (120, 300), "search": (4, 10)}[tier]
    small, large = [], []
    guard = 0
    while len(small) < n_small and guard < 10000:
        guard += 1
        lv = G.rand_levels(rng, nopts=rng.randint(0, 2), nargs=rng.randint(0, 2), ncn=rng.choice([0, 0, 1]),
                           short_flags=rng.choice([0, 0, 1, 2]))
        if is_small(lv):
            small.append(lv)
    while len(large) < n_large:
        i = len(large)
        lv = G.rand_levels(rng, nopts=rng.randint(3, 5) if i % 2 else None, nargs=4 if i % 6 == 5 else None,
                           short_flags=(0, 2, 0, 3)[i % 4], short_valued=(0, 1, 0, 1)[i % 4])
        if not is_small(lv):
            large.append(lv)
    return small, large


def gen(rng, tier, info):
    n_asg = {"quick": 14, "thorough": 60, "search": 3}[tier]
    cap = {"quick": 80000, "thorough": 800000, "search": 12000}[tier]
    cases, seen = [], set()
    per_fmt = {}
    per_asg = {"quick": 500, "thorough": 4000, "search": 100}[tier]
    r_small, r_large = random_formats(rng, tier)

    def add(fkey, fref, t, dsc, dsc2, lenient, asg):
        key = (fkey, lenient, tuple(t))
        if key in seen:
            return False
        seen.add(key)
        c = {"len": lenient, "toks": t, "asg": asg, "ld": dsc, "ld2": dsc2}
        c.update(fref)
        cases.append(c)
        return True

    # small formats: every spelling (or per_asg of them), every way of grouping adjacent short options, both modes
    small = [(fi, {"f": fi}, G.SMALL_FORMATS[fi], n_asg) for fi in SMALL] + \
            [("r%d" % i, {"lv": lv}, lv, max(3, n_asg // 2)) for i, lv in enumerate(r_small)]
    for fkey, fref, levels, na in small:
        for asg in assignments(levels, rng, na):
            for entries in spell_all(levels, asg, rng, limit=per_asg if isinstance(fkey, int) else per_asg // 2):
                for t, dsc, dsc2 in variants(entries):
                    for lenient in (0, 1):
                        if add(fkey, fref, t, dsc, dsc2, lenient, asg):
                            per_fmt[fkey] = per_fmt.get(fkey, 0) + 1
    n_small = len(cases)
    # larger formats: sampled spellings, a third of them built around a group of short options
    n_rand = {"quick": 6000, "thorough": 60000, "search": 3000}[tier]
    large = [(fi, {"f": fi}, G.SMALL_FORMATS[fi]) for fi in LARGE] + [("R%d" % i, {"lv": lv}, lv) for i, lv in enumerate(r_large)]
    na = max(2, n_asg // 3)
    for fkey, fref, levels in large:
        for asg in assignments(levels, rng, na, max_multi=3):
            for entries in spell_all(levels, asg, rng, limit=max(4, n_rand // (5 * max(2, n_asg // 2))) if isinstance(fkey, int) else max(4, 2 * n_rand // (len(r_large) * na)),
                                     group_bias=0.35):
                for t, dsc, dsc2 in variants(entries, rng, max_groups=3):
                    add(fkey, fref, t, dsc, dsc2, rng.randint(0, 1), asg)
    if len(cases) > cap:
        head = cases[:n_small]
        if len(head) > cap * 3 // 4:
            head = rng.sample(head, cap * 3 // 4)
        tail = cases[n_small:]
        cases = head + tail[:cap - len(head)]
    info["exhaustive"] = len(cases) <= cap
    # (fourth session) an option value that equals a command name or an alias, the command names anywhere on the line: a
    # separately written value is consumed by the option and is never taken for the command name ('--tag add add h')
    n_main = len(cases)
    for fkey, fref, levels in [(k, r, lv) for (k, r, lv, _) in small] + large:
        cns = G.fmt_cnames(levels)
        vopts = [o for o in G.fmt_options(levels) if okind(o) in ("req", "multi", "opt") and otype(o) == "str"]
        if not cns or not vopts:
            continue
        for asg in assignments(levels, rng, {"quick": 2, "thorough": 6, "search": 1}[tier]):
            o = rng.choice(vopts)
            cn = rng.choice(cns)
            nm = rng.choice([cn["name"]] + cn["aliases"])
            asg["opts"][o["long"]] = [nm] * rng.randint(1, 2) if okind(o) == "multi" else nm
            for entries in spell_all(levels, asg, rng, limit={"quick": 16, "thorough": 60, "search": 6}[tier], group_bias=0.2):
                for t, dsc, dsc2 in variants(entries, rng, max_groups=2):
                    add(fkey, fref, t, dsc, dsc2, rng.randint(0, 1), asg)
    n_namevalued = len(cases) - n_main

    def gshape(c):
        """(letters in the group, how the last member is written) of the longest group of the line"""
        best = None
        for it in (c.get("ld") or [None, []])[1]:
            if it[0] == 3:
                n = len(it[1]) + (1 if it[2] else 0)
                kind = "flags-only" if not it[2] else ("last-" + {0: "glued", 1: "separate", 2: "omitted"}[it[2][1][0]])
                if best is None or n > best[0]:
                    best = (n, kind)
        return best
    gh = {}
    for c in cases:
        g = gshape(c)
        if g:
            k = "%d-letters %s" % g
            gh[k] = gh.get(k, 0) + 1
    info["distribution"] = {"fixed_small_formats": len(SMALL), "fixed_larger_formats": len(LARGE),
                            "generated_small_formats": len(r_small), "generated_larger_formats": len(r_large),
                            "assignments_per_fixed_small_format": n_asg,
                            "spellings_small": n_small, "total": len(cases),
                            "cases_over_generated_formats": sum(1 for c in cases if "lv" in c),
                            "with_line_description (theorem domain: command names first)": sum(1 for c in cases if c.get("ld")),
                            "with_generalised_line_description (domain of parse_spells_interleaved)": sum(1 for c in cases if c.get("ld2")),
                            "generalised_only (an option or '--' in front of a command name)": sum(1 for c in cases if c.get("ld2") and not c.get("ld")),
                            "option_value_equal_to_a_command_name": n_namevalued,
                            "generalised_only_name_after_dd": sum(1 for c in cases if c.get("ld2") and not c.get("ld") and c["ld2"][1] and c["ld2"][1][0][0]),
                            "grouped_short_option_descriptions": sum(gh.values()),
                            "groups_by_shape": dict(sorted(gh.items())),
                            "per_small_format": {str(k): v for k, v in sorted(per_fmt.items(), key=lambda kv: str(kv[0]))}}
    return cases


def wire(c):
    return [G.wire_levels(G.case_levels(c)), c["len"], [S(t) for t in c["toks"]], [S(x) for x in EXTRA],
            [c["ld"]] if c.get("ld") else [], [c["ld2"]] if c.get("ld2") else []]


def describe(c):
    return "format %s %s tokens=%r spelling the assignment %r" % (
        ("#%d" % c["f"]) if "f" in c else G.fmt_shape(c["lv"]), "lenient" if c["len"] else "strict", c["toks"], c["asg"])


def run_impl(c):
    from clikit.args import DefaultArgsParser
    fmt = G.case_format(c)
    return G.parse_once(DefaultArgsParser(), fmt, c["toks"], bool(c["len"]), EXTRA)


def canon_impl(c, o):
    # next to the parse result: what the model must answer for the line description - the format is fmt_ok, the line is
    # wf_line, render gives exactly these tokens, denote gives exactly what the implementation parsed
    # - and the same four answers (fmt_ok, wf_line2, render2, denote2) for the generalised description, which every line has
    o = canon_floats(o)

    def verdicts(dsc):
        if dsc and o[0] == 0:
            return [[1, 1, [S(t) for t in c["toks"]], o[1]]]
        return [[-7]] if dsc else []
    return [o, verdicts(c.get("ld")), verdicts(c.get("ld2"))]


def canon_model_w(c, w):
    return canon_floats_w(w)


def oracle(c, o):
    if o[0] != 0:
        return "well-formed-line-rejected:%d" % o[1]
    exp, oset = expected(G.case_levels(c), c["asg"])
    got = canon_floats(o)
    exp = canon_floats(exp)
    names = ["arguments(False)", "arguments(True)", "options(False)", "options(True)", "option()/is_option_set", "argument()/is_argument_set"]
    for i in (0, 1, 4, 5):
        if got[1][i] != exp[1][i]:
            return "wrong-" + names[i]
    if sorted(got[1][3]) != sorted(exp[1][3]):
        return "wrong-options(True)"
    # options(False): same items as the given ones, in the order they were first given on the line
    gf = {unS(k): v for k, v in got[1][2]}
    ef = {k: canon_floats(enc_val(v)) for k, v in oset.items()}
    if gf != ef:
        return "wrong-options(False)"
    return None


def nontrivial_key(c, o):
    if c["asg"]["opts"] and c["asg"]["args"]:
        return [c.get("f", c.get("lv")), c["len"], c["toks"]]
    return None
