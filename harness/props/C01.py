"""C01 - parsing a well-formed command line recovers exactly the intended values."""
import itertools
from hutil import S, unS, enc_val, canon_floats, canon_floats_w
import parsergen as G

MODEL = "C01"
MODEL_ENTRY = "run_C01S"        # the driver's entry for C01 (Model/Spell.v): the parse and, next to it, the line description's verdicts
PROP_FILES = ["Props/C01.v"]
RULE = ("(format, assignment, spelling): for small formats (<= 2 options, <= 2 arguments, <= 1 command name) every interleaving of "
        "the option items among the positionals x every form ('--n=v', '--n v', '-nv', '-n v', bare flags, adjacent flags grouped, "
        "last group member valued) x every '--' placement x given/omitted command names spelled by name or alias, strict and "
        "lenient; seeded random for larger formats (up to 5 options / 4 arguments / 2 command names, base formats). The expected "
        "Args observation is computed from the assignment alone. Non-trivial = >= 1 option item and >= 1 positional; distinct by "
        "(format, mode, tokens)")
TRUSTED = ["the expected observation is computed by an independent Python function from the assignment (oracle)"]
ASSUMPTIONS = ["lines satisfy the side conditions of DESIGN.md C01 (separated values and pre-'--' positionals do not start with '-' and are "
               "not empty, an omitted optional value is not followed by a positional, an omitted command name is not followed by a "
               "positional equal to it, single-valued options occur once)"]

EXTRA = ["zz"]


# ---------------------------------------------------------------- expected observation from the assignment
def conv(flags_type, nullable, text):
    """independent re-statement of the typed conversion for well-formed texts"""
    if nullable and text == "null":
        return None
    if flags_type == "bool":
        return {"true": True, "1": True, "yes": True, "on": True, "false": False, "0": False, "no": False, "off": False, "": False}[text]
    if flags_type == "int":
        return int(text)
    if flags_type == "float":
        return float(text)
    return text


def otype(o):
    f = o["flags"]
    return "bool" if f & G.O_BOOL else "int" if f & G.O_INT else "float" if f & G.O_FLOAT else "str"


def atype(a):
    f = a["flags"]
    return "bool" if f & G.A_BOOL else "int" if f & G.A_INT else "float" if f & G.A_FLOAT else "str"


def okind(o):
    f = o["flags"]
    if f & G.MULTI_V:
        return "multi"
    if f & G.REQ_V:
        return "req"
    if f & G.OPT_V:
        return "opt"
    return "flag"


def odefault(o):
    if okind(o) == "flag":
        return False
    if okind(o) == "multi" and o["default"] is None:
        return []
    return o["default"]


def adefault(a):
    if a["flags"] & G.A_MULTI and a["default"] is None:
        return []
    return a["default"]


def conv_default(o):
    """value stored when an optional-value option is given bare: the default run through the converter"""
    d = o["default"]
    t, nl = otype(o), bool(o["flags"] & G.O_NULL)
    if nl and (d is None or d == "null"):
        return None
    if t == "str":
        return "null" if d is None else ("true" if d is True else "false" if d is False else str(d))
    if t == "int":
        return int(d)
    if t == "float":
        return float(d)
    if isinstance(d, bool):
        return d
    return conv("bool", nl, str(d) if isinstance(d, int) else d)


def expected(levels, asg):
    """asg = {"opts": {long: True | text | [texts] | "BARE"}, "args": [texts for the real arguments in order]}"""
    opts = G.fmt_options(levels)
    args = G.fmt_args(levels)
    oset = {}
    for o in opts:
        if o["long"] in asg["opts"]:
            v = asg["opts"][o["long"]]
            nl = bool(o["flags"] & G.O_NULL)
            if okind(o) == "flag":
                oset[o["long"]] = True
            elif okind(o) == "multi":
                oset[o["long"]] = [conv(otype(o), nl, t) for t in v]
            elif v == ["BARE"]:
                oset[o["long"]] = conv_default(o)
            else:
                oset[o["long"]] = conv(otype(o), nl, v)
    aset = {}
    vals = list(asg["args"])
    for a in args:
        nl = bool(a["flags"] & G.A_NULL)
        if not vals:
            break
        if a["flags"] & G.A_MULTI:
            aset[a["name"]] = [conv(atype(a), nl, t) for t in vals]
            vals = []
        else:
            aset[a["name"]] = conv(atype(a), nl, vals.pop(0))
    # the observation vector (same layout as parsergen.observe_args)
    def items(d):
        return [[S(k), enc_val(v)] for k, v in d.items()]
    a_false = {a["name"]: aset[a["name"]] for a in args if a["name"] in aset}
    a_true = {a["name"]: (aset[a["name"]] if a["name"] in aset else adefault(a)) for a in args}
    o_true = dict(oset)
    for o in opts:
        if o["long"] not in o_true:
            o_true[o["long"]] = odefault(o)
    oprobe = []
    for o in opts:
        val = oset.get(o["long"], odefault(o))
        oprobe.append([[0, enc_val(val)], int(o["long"] in oset)])
        if o["short"]:
            oprobe.append([[0, enc_val(val)], int(o["long"] in oset)])
    for x in EXTRA:
        oprobe.append([[-1, 3], 0])
    aprobe = []
    for a in args:
        aprobe.append([[0, enc_val(aset.get(a["name"], adefault(a)))], int(a["name"] in aset)])
    for x in EXTRA:
        aprobe.append([[-1, 4], 0])
    for i in range(len(args) + 1):
        if i < len(args):
            a = args[i]
            aprobe.append([[0, enc_val(aset.get(a["name"], adefault(a)))], int(a["name"] in aset)])
        else:
            aprobe.append([[-1, 4], 0])
    return [0, [items(a_false), items(a_true), None, items(o_true), oprobe, aprobe]], oset


# ---------------------------------------------------------------- spellings
def option_items(levels, asg):
    """one item per option occurrence: (option, text or None)"""
    out = []
    for o in G.fmt_options(levels):
        if o["long"] in asg["opts"]:
            v = asg["opts"][o["long"]]
            if okind(o) == "flag":
                out.append((o, None))
            elif okind(o) == "multi":
                out.extend((o, t) for t in v)
            elif v == ["BARE"]:
                out.append((o, "BARE"))
            else:
                out.append((o, v))
    return out


def forms(o, text):
    """token groups that spell one option occurrence; each is a list of 1-2 tokens"""
    return [f[0] for f in forms_d(o, text)]


def forms_d(o, text):
    """(tokens, item of the line description of Model/Spell.v) for every way to write one option occurrence"""
    fs = []
    if text is None or text == "BARE":
        tag = 0 if text is None else 2
        fs.append((["--" + o["long"]], [tag, S(o["long"]), 1]))
        if o["short"]:
            fs.append((["-" + o["short"]], [tag, S(o["long"]), 0]))
        return fs
    fs.append((["--" + o["long"] + "=" + text], [1, S(o["long"]), 0, S(text)]))
    sep_ok = text != "" and not text.startswith("-")
    if sep_ok:
        fs.append((["--" + o["long"], text], [1, S(o["long"]), 1, S(text)]))
    if o["short"]:
        fs.append((["-" + o["short"] + text], [1, S(o["long"]), 2, S(text)]))
        if sep_ok:
            fs.append((["-" + o["short"], text], [1, S(o["long"]), 3, S(text)]))
    return fs


def interleavings(n_opt_items, n_pos):
    """all merges of option items (any order is produced by the caller) with the positionals in order:
       returns lists of 'o'/'p' marks"""
    out = []
    for comb in itertools.combinations(range(n_opt_items + n_pos), n_opt_items):
        marks = ["p"] * (n_opt_items + n_pos)
        for i in comb:
            marks[i] = "o"
        out.append(marks)
    return out


def spell_all(levels, asg, rng=None, limit=None):
    """token lists spelling asg: all of them when there are at most `limit`, else a uniform random sample"""
    cns = G.fmt_cnames(levels)
    items = option_items(levels, asg)
    pos = list(asg["args"])
    idx = list(range(len(items)))
    orders = []
    for perm in itertools.permutations(idx):
        ok, last = True, {}
        for i in perm:
            key = items[i][0]["long"]
            if key in last and last[key] > i:
                ok = False
                break
            last[key] = i
        if ok:
            orders.append(perm)
    cn_choices = []
    for k in range(len(cns), -1, -1):
        for names in itertools.product(*[[c["name"]] + c["aliases"] for c in cns[:k]]):
            cn_choices.append(list(names))
    item_forms = [forms_d(o, t) for (o, t) in items]
    results = []

    def build(names, perm, marks, fsel, dd):
        pos_all = names + pos
        last_o = max([i for i, m in enumerate(marks) if m == "o"], default=-1)
        if dd is not None and dd < last_o + 1:
            return None
        k = len(names)
        if k < len(cns) and pos:
            c = cns[k]
            if pos[0] == c["name"] or pos[0] in c["aliases"]:
                return None
        toks, oi, pi = [], 0, 0
        # the line description (Model/Spell.v): representable when the command names come first
        d_items, d_tail, d_ok = [], None, True
        for i, m in enumerate(marks):
            if dd is not None and i == dd:
                toks.append("--")
                d_tail = []
            if m == "o":
                it = perm[oi]
                o, t = items[it]
                oi += 1
                toks.extend(fsel[it][0])
                d_items.append(fsel[it][1])
                if pi < k:
                    d_ok = False          # an option in front of a command name
                if t == "BARE":
                    if i + 1 < len(marks) and marks[i + 1] == "p" and not (dd is not None and dd == i + 1):
                        return None
            else:
                v = pos_all[pi]
                if (dd is None or i < dd) and (v == "" or (v.startswith("-") and v != "-")):
                    return None
                toks.append(v)
                if pi < k:
                    if d_tail is not None:
                        d_ok = False      # a command name after "--"
                elif d_tail is not None:
                    d_tail.append(S(v))
                else:
                    d_items.append([4, S(v)])
                pi += 1
        if dd is not None and dd == len(marks):
            toks.append("--")
            d_tail = []
        desc = [[S(n) for n in names], d_items, [] if d_tail is None else [d_tail]] if d_ok else None
        return toks, desc

    space = []
    for names in cn_choices:
        n_marks = len(items) + len(names) + len(pos)
        mk = interleavings(len(items), len(names) + len(pos))
        space.append((names, mk, n_marks))
    nforms = 1
    for f in item_forms:
        nforms *= len(f)
    total = sum(len(orders) * len(mk) * nforms * (n + 2) for (_, mk, n) in space)
    if limit is None or total <= limit or rng is None:
        for names, mk, n in space:
            for perm in orders:
                for marks in mk:
                    for fsel in itertools.product(*item_forms):
                        for dd in [None] + list(range(n + 1)):
                            t = build(names, perm, marks, fsel, dd)
                            if t is not None:
                                results.append(t)
    else:
        tries = 0
        while len(results) < limit and tries < limit * 6:
            tries += 1
            names, mk, n = rng.choice(space)
            t = build(names, rng.choice(orders), rng.choice(mk), [rng.choice(f) for f in item_forms], rng.choice([None] + list(range(n + 1))))
            if t is not None:
                results.append(t)
    return results


def group_flags(toks, levels, desc=None):
    """merge two adjacent single-letter flag tokens '-a' '-b' into '-ab' (one variant); -> (tokens, description) or None"""
    shorts = {o["short"]: o for o in G.fmt_options(levels) if o["short"]}
    for i in range(len(toks) - 1):
        a, b = toks[i], toks[i + 1]
        if len(a) == 2 and a[0] == "-" and a[1] in shorts and okind(shorts[a[1]]) == "flag" and \
           len(b) >= 2 and b[0] == "-" and b[1] != "-" and b[1] in shorts:
            if "--" in toks[:i + 1]:
                break
            return toks[:i] + ["-" + a[1] + b[1:]] + toks[i + 2:], group_desc(desc, levels)
    return None


def group_desc(desc, levels):
    """the same merge on the line description: the first short flag item followed by a short-form item"""
    if desc is None:
        return None
    names, items, tail = desc
    longs = {o["long"]: o for o in G.fmt_options(levels)}
    for i in range(len(items) - 1):
        x, y = items[i], items[i + 1]
        if x[0] == 0 and x[2] == 0 and okind(longs[unS(x[1])]) == "flag":
            if y[0] == 0 and y[2] == 0:
                g = [3, [x[1], y[1]], []]
            elif y[0] == 2 and y[2] == 0:
                g = [3, [x[1]], [y[1], [2]]]
            elif y[0] == 1 and y[2] == 2:
                g = [3, [x[1]], [y[1], [0, y[3]]]]
            elif y[0] == 1 and y[2] == 3:
                g = [3, [x[1]], [y[1], [1, y[3]]]]
            else:
                continue
            return [names, items[:i] + [g] + items[i + 2:], tail]
    return None


# ---------------------------------------------------------------- assignments
def value_texts(kind_type, nullable, rng, where):
    pool = {"str": ["val", "a=b", "é", "x y", "-", "7"], "int": ["5", "0", "12"], "float": ["1.5", "2", "1e3"],
            "bool": ["true", "0", "no", "on"]}[kind_type]
    if nullable:
        pool = pool + ["null"]
    if where == "eq":
        pool = pool + {"str": ["-x", "--y", "--"], "int": ["-3"], "float": ["-0.5"], "bool": []}[kind_type]
    if where == "tail":
        pool = pool + {"str": ["-x", "--y", "--", "", "--opt=1"], "int": ["-3"], "float": ["-0.5"], "bool": []}[kind_type]
    return pool


def assignments(levels, rng, n):
    opts = G.fmt_options(levels)
    args = G.fmt_args(levels)
    out = []
    for _ in range(n):
        asg = {"opts": {}, "args": []}
        for o in opts:
            r = rng.random()
            if r < 0.4:
                continue
            k = okind(o)
            nl = bool(o["flags"] & G.O_NULL)
            if k == "flag":
                asg["opts"][o["long"]] = True
            elif k == "multi":
                asg["opts"][o["long"]] = [rng.choice(value_texts(otype(o), nl, rng, rng.choice(["sep", "sep", "eq"]))) for _ in range(rng.randint(1, 2))]
            elif k == "opt" and rng.random() < 0.4:
                try:
                    conv_default(o)
                    asg["opts"][o["long"]] = ["BARE"]
                except Exception:
                    pass
            else:
                asg["opts"][o["long"]] = rng.choice(value_texts(otype(o), nl, rng, rng.choice(["sep", "sep", "eq"])))
        nreq = sum(1 for a in args if a["flags"] & G.A_REQ)
        k = rng.randint(nreq, len(args) + (2 if any(a["flags"] & G.A_MULTI for a in args) else 0))
        vals = []
        ai = 0
        tail_mode = rng.random() < 0.35
        tail_from = rng.randint(0, max(0, k - 1))
        for i in range(k):
            a = args[min(ai, len(args) - 1)] if args else None
            if a is None:
                break
            nl = bool(a["flags"] & G.A_NULL)
            vals.append(rng.choice(value_texts(atype(a), nl, rng, "tail" if tail_mode and i >= tail_from else "sep")))
            if not (a["flags"] & G.A_MULTI):
                ai += 1
                if ai >= len(args):
                    break
        asg["args"] = vals
        out.append(asg)
    return out


SMALL = [i for i, lv in enumerate(G.SMALL_FORMATS)
         if len(G.fmt_options(lv)) <= 2 and len(G.fmt_args(lv)) <= 2 and len(G.fmt_cnames(lv)) <= 1]
LARGE = [i for i in range(len(G.SMALL_FORMATS)) if i not in SMALL]


def gen(rng, tier, info):
    n_asg = {"quick": 14, "thorough": 60, "search": 3}[tier]
    cap = {"quick": 60000, "thorough": 600000, "search": 10000}[tier]
    cases, seen = [], set()
    per_fmt = {}
    per_asg = {"quick": 500, "thorough": 4000, "search": 100}[tier]
    for fi in SMALL:
        levels = G.SMALL_FORMATS[fi]
        for asg in assignments(levels, rng, n_asg):
            for toks, desc in spell_all(levels, asg, rng, limit=per_asg):
                variants = [(toks, desc)]
                g = group_flags(toks, levels, desc)
                if g:
                    variants.append(g)
                for t, dsc in variants:
                    for lenient in (0, 1):
                        key = (fi, lenient, tuple(t))
                        if key not in seen:
                            seen.add(key)
                            cases.append({"f": fi, "len": lenient, "toks": t, "asg": asg, "ld": dsc})
                            per_fmt[fi] = per_fmt.get(fi, 0) + 1
    n_small = len(cases)
    n_rand = {"quick": 6000, "thorough": 60000, "search": 3000}[tier]
    for fi in LARGE:
        levels = G.SMALL_FORMATS[fi]
        for asg in assignments(levels, rng, max(2, n_asg // 2)):
            for toks, desc in spell_all(levels, asg, rng, limit=n_rand // (len(LARGE) * max(2, n_asg // 2))):
                g = group_flags(toks, levels, desc)
                for t, dsc in ([(toks, desc)] + ([g] if g else [])):
                    lenient = rng.randint(0, 1)
                    key = (fi, lenient, tuple(t))
                    if key not in seen:
                        seen.add(key)
                        cases.append({"f": fi, "len": lenient, "toks": t, "asg": asg, "ld": dsc})
    if len(cases) > cap:
        head = cases[:n_small]
        if len(head) > cap * 3 // 4:
            head = rng.sample(head, cap * 3 // 4)
        tail = cases[n_small:]
        cases = head + tail[:cap - len(head)]
    info["exhaustive"] = len(cases) <= cap
    info["distribution"] = {"small_formats": len(SMALL), "larger_formats": len(LARGE), "assignments_per_format": n_asg,
                            "spellings_small": n_small, "total": len(cases),
                            "with_line_description (theorem domain: command names first)": sum(1 for c in cases if c.get("ld")),
                            "grouped_short_flag_descriptions": sum(1 for c in cases if c.get("ld") and any(i[0] == 3 for i in c["ld"][1])),
                            "per_small_format": {str(k): v for k, v in sorted(per_fmt.items())}}
    return cases


def wire(c):
    return [G.wire_levels(G.SMALL_FORMATS[c["f"]]), c["len"], [S(t) for t in c["toks"]], [S(x) for x in EXTRA],
            [c["ld"]] if c.get("ld") else []]


def describe(c):
    return "format#%d %s tokens=%r spelling the assignment %r" % (c["f"], "lenient" if c["len"] else "strict", c["toks"], c["asg"])


def run_impl(c):
    from clikit.args import DefaultArgsParser
    fmt = G.mk_format(G.SMALL_FORMATS[c["f"]])
    return G.parse_once(DefaultArgsParser(), fmt, c["toks"], bool(c["len"]), EXTRA)


def canon_impl(c, o):
    # next to the parse result: what the model must answer for the line description - the format is fmt_ok, the line is
    # wf_line, render gives exactly these tokens, denote gives exactly what the implementation parsed
    o = canon_floats(o)
    if c.get("ld") and o[0] == 0:
        return [o, [[1, 1, [S(t) for t in c["toks"]], o[1]]]]
    return [o, [[-7]] if c.get("ld") else []]


def canon_model_w(c, w):
    return canon_floats_w(w)


def oracle(c, o):
    if o[0] != 0:
        return "well-formed-line-rejected:%d" % o[1]
    exp, oset = expected(G.SMALL_FORMATS[c["f"]], c["asg"])
    got = canon_floats(o)
    exp = canon_floats(exp)
    names = ["arguments(False)", "arguments(True)", "options(False)", "options(True)", "option()/is_option_set", "argument()/is_argument_set"]
    for i in (0, 1, 4, 5):
        if got[1][i] != exp[1][i]:
            return "wrong-" + names[i]
    if sorted(got[1][3]) != sorted(exp[1][3]):
        return "wrong-options(True)"
    # options(False): same items as the given ones, in the order they were first given on the line
    gf = {unS(k): v for k, v in got[1][2]}
    ef = {k: canon_floats(enc_val(v)) for k, v in oset.items()}
    if gf != ef:
        return "wrong-options(False)"
    return None


def nontrivial_key(c, o):
    if c["asg"]["opts"] and c["asg"]["args"]:
        return [c["f"], c["len"], c["toks"]]
    return None
