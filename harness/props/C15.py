"""C15 - section outputs keep the screen equal to the stacked section contents."""
import itertools, os
from hutil import S, unS
import termemu

MODEL = "C15"
PROP_FILES = ["Props/C15.v"]
W = 10
RULE = ("operation sequences on 1-3 sections of one output at terminal width 10: write / write_line of texts with line lengths "
        "{1, 9, 10, 11, 23} and a two-line text, overwrite, clear(), clear(1), clear(2); all sequences up to length 3 (quick) / 4 "
        "(thorough) after creating the sections, random ones up to length 40 with sections created on the way, in ANSI and in plain "
        "mode; the emitted bytes are replayed on an independent terminal emulator; non-trivial = touches >= 2 sections or a wrapped "
        "line; distinct by op sequence")
THEOREMS = ["screen_is_stack", "rows_accounting", "plain_degrades"]
TRUSTED = ["Base/Term.v as the terminal (infinite height, deferred auto-wrap, LF implies CR); tabs, wide characters and style tags in "
           "section texts are outside the model"]
ASSUMPTIONS = ["texts are plain (no tags, no tabs); indentation 0"]

TEXTS = ["a", "b" * 9, "c" * 10, "d" * 11, "e" * 23, "f\n" + "g" * 12]


def ops_for(nsec):
    ops = []
    for i in range(nsec):
        for t in range(len(TEXTS)):
            ops.append([1, i, t, 1])
        ops.append([1, i, 0, 0])
        ops.append([2, i, 1])
        ops.append([2, i, 4])
        ops.append([3, i, None])
        ops.append([3, i, 1])
        ops.append([3, i, 2])
    return ops


def gen(rng, tier, info):
    depth = {"quick": 3, "thorough": 4, "search": 2}[tier]
    nrand = {"quick": 4000, "thorough": 40000, "search": 1500}[tier]
    cases = []
    for nsec in (1, 2, 3):
        al = ops_for(nsec)
        d = depth if nsec < 3 else depth - (1 if tier != "quick" else 1)
        for k in range(0, d + 1):
            for seq in itertools.product(al, repeat=k):
                for ansi in ((1, 0) if k <= 2 else (1,)):
                    cases.append({"ansi": ansi, "ops": [[0]] * nsec + [list(o) for o in seq]})
    n_ex = len(cases)
    for _ in range(nrand):
        ops, n = [[0]], 1
        for _ in range(rng.randint(4, 40)):
            r = rng.random()
            if r < 0.08 and n < 4:
                ops.append([0])
                n += 1
            else:
                ops.append(list(rng.choice(ops_for(n))))
        cases.append({"ansi": 1 if rng.random() < 0.85 else 0, "ops": ops})
    info["exhaustive"] = True
    info["distribution"] = {"exhaustive": n_ex, "random": nrand, "depth": depth, "width": W}
    return cases


def wire(c):
    ops = []
    for o in c["ops"]:
        if o[0] == 0:
            ops.append([0])
        elif o[0] == 1:
            ops.append([1, o[1], S(TEXTS[o[2]]), o[3]])
        elif o[0] == 2:
            ops.append([2, o[1], S(TEXTS[o[2]])])
        else:
            ops.append([3, o[1], [] if o[2] is None else [o[2]]])
    return [c["ansi"], W, ops]


def describe(c):
    def d(o):
        if o[0] == 0:
            return "section()"
        if o[0] == 1:
            return "s%d.%s(%r)" % (o[1], "write_line" if o[3] else "write", TEXTS[o[2]])
        if o[0] == 2:
            return "s%d.overwrite(%r)" % (o[1], TEXTS[o[2]])
        return "s%d.clear(%s)" % (o[1], "" if o[2] is None else o[2])
    return ("ANSI" if c["ansi"] else "plain") + " width %d: " % W + "; ".join(d(o) for o in c["ops"])


def run_impl(c):
    os.environ["COLUMNS"] = str(W)
    from clikit.io import BufferedIO
    from clikit.formatter import AnsiFormatter, PlainFormatter
    io = BufferedIO(formatter=AnsiFormatter(forced=True) if c["ansi"] else PlainFormatter())
    secs = []
    for o in c["ops"]:
        if o[0] == 0:
            secs.append(io.output.section())
        elif o[0] == 1:
            (secs[o[1]].write_line if o[3] else secs[o[1]].write)(TEXTS[o[2]])
        elif o[0] == 2:
            secs[o[1]].overwrite(TEXTS[o[2]])
        else:
            secs[o[1]].clear(o[2]) if o[2] is not None else secs[o[1]].clear()
    data = io.fetch_output()
    t = termemu.Term(W)
    t.feed(data)
    contents = [[S(l) for l in s.content.split("\n")[:-1]] if s.content else [] for s in secs]
    return [termemu.tokens(data), [[cs, s.lines] for cs, s in zip(contents, secs)],
            [[S(r) for r in t.screen()], t.r, t.c]]


def oracle(c, o):
    toks, secs, (screen, r, col) = o
    if not c["ansi"]:
        if any(t[0] not in (0, 1) for t in toks):
            return "control-code-on-plain-output"
        # plain: appended lines
        exp = ""
        for op in c["ops"]:
            if op[0] == 1:
                exp += TEXTS[op[2]] + ("\n" if op[3] else "")
            elif op[0] == 2:
                exp += TEXTS[op[2]] + "\n"
        got = "".join("\n" if t[0] == 1 else chr(t[1]) for t in toks)
        return None if got == exp else "plain-output-not-appended-lines"
    stack = []
    for cs, lines in secs:
        rows = []
        for l in cs:
            rows += termemu.wrap_rows(unS(l), W)
        if lines != len(rows):
            return "row-count-disagrees-with-content"
        stack += rows
    got = [unS(x) for x in screen]
    if got != stack + [""] or r != len(stack) or col != 0:
        return "screen-differs-from-stacked-contents"
    return None


def nontrivial_key(c, o):
    used = set(op[1] for op in c["ops"] if op[0] != 0)
    wrapped = any(op[0] in (1, 2) and len(max(TEXTS[op[2]].split("\n"), key=len)) > W for op in c["ops"])
    if len(used) >= 2 or wrapped:
        return [c["ansi"], c["ops"]]
    return None


def shrink(c):
    ops = c["ops"]
    for i in range(len(ops)):
        if ops[i][0] != 0:
            yield {"ansi": c["ansi"], "ops": ops[:i] + ops[i + 1:]}
