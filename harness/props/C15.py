"""C15 - section outputs keep the screen equal to the stacked section contents (texts are markup, sections are indented)."""
import itertools, os, re
from hutil import S, unS, err
import termemu

MODEL = "C15"
PROP_FILES = ["Props/C15.v"]
W = 10
RULE = ("operation sequences on 1-3 sections of one output at terminal width 10: write / write_line / overwrite of plain texts with "
        "line lengths {1, 9, 10, 11, 23} and a two-line text, and of TAGGED texts (<info>, <b>, <comment>, <error>, <u>, inline "
        "<fg=red>..</>, a tag around two words, an unknown tag, an escaped '\\<', an escaped whole tag, a tag spanning a line break, "
        "texts whose raw length exceeds the width while the visible length does not / equals it / exceeds it too, an empty line "
        "between tagged lines, the empty text), section.indent(0|2|3|7|12) so that a raw text that fits no longer fits when indented "
        "and an empty line is written under an indentation wider than the terminal, clear(), clear(1), clear(2); all sequences of "
        "the plain alphabet up to length 3 (quick) / 4 (thorough) after creating the sections, all sequences of a "
        "tagged-and-indented alphabet up to length 3/4 (one section) and 3 (two sections); all sequences up to length 5 (quick) / 6 "
        "(thorough) of an alphabet in which output.section() and output.indent(0|3) - the indentation of the OUTPUT the sections "
        "belong to, which a section created afterwards starts with - are operations like the others (starting with no section at "
        "all; write_line of 1 / 11 / 20 cells and of two lines, overwrite, clear(), clear(1), section.indent(2)); random ones up to "
        "length 40 over everything (also 20 / 30-cell lines, 7 / 14 / 21, 80 / 160, lines of white space only, output.indent) with "
        "sections created on the way, at widths {1, 7, 10, 80}, in ANSI and in plain mode; texts that end or start with a line break "
        "('s\\n', '\\n' alone, 't\\n\\n', '\\nu', a tagged wrapped one), lines of one-cell characters beyond ASCII (10 x e-acute, a tagged "
        "Greek / Cyrillic line, 11 x zhe) and clear(0) in the random part, 's\\n' in the plain alphabet; "
        "the OUTPUT the sections are taken from: a buffer with a forced AnsiFormatter / with a PlainFormatter (all of the above), and - "
        "all sequences of the plain alphabet to length 2 on 1-3 sections, a quarter of the random ones - a stream that says it supports "
        "ANSI (a terminal) with an unforced AnsiFormatter, with a forced one, with a PlainFormatter (must degrade), and a stream "
        "without ANSI support with an unforced AnsiFormatter (must degrade); the emitted bytes (SGR sequences "
        "included) are replayed on an independent terminal emulator that REJECTS what it does not model (ESC[2J is not 'erase "
        "below'); the screen must show the stacked contents AND every cell in the look (SGR pen) of its own line, the pen left at "
        "default; the same bytes replayed on a terminal that already shows three rows must leave those rows alone (a cursor movement "
        "beyond the first section's first row is invisible on an empty terminal); a run in which a call raises is compared up to the failing call; the class of the theorems (good markup) is "
        "decided on both sides and compared; outside it the stack claim is dropped only where a partial clear really cut a tag that "
        "spans a line break; non-trivial = touches >= 2 sections or a wrapped line or a tag or an indentation; distinct by op "
        "sequence and width")
TRUSTED = ["Base/Term.v as the terminal (infinite height, deferred auto-wrap, LF implies CR, an SGR sequence occupies no cell); "
           "tabs and wide characters in section texts are outside the model (a character is one cell); pastel is modelled by "
           "Model/Markup.v (tied by C11 and by this run)",
           "which output is decorated (Output.supports_ansi(): the stream supports ANSI and the formatter does not disable it, or the "
           "formatter forces it) is a four-row table of the harness (OUTS); the model is told the expected answer"]
ASSUMPTIONS = ["screen_is_stack: every line of a written text is good markup (no ESC / tab, no backslash at its end or right before a "
               "tag, the formatter accepts it and leaves the style stack empty: no tag spans a line break); any indentation"]

# 0..5: the plain texts (the corpus refers to them by index)
TEXTS = ["a", "b" * 9, "c" * 10, "d" * 11, "e" * 23, "f\n" + "g" * 12,
         "<info>12345</info>",                 # 6  raw 18 > width, visible 5
         "<info>1234567890</info>12",          # 7  visible 12: wraps
         "<b>two words</b> x",                 # 8  a tag around two words, visible 11
         "p<fg=red>q</>r",                     # 9  inline style
         "a\\<b",                              # 10 escaped '<'
         "<comment>123456789</comment>0",      # 11 visible exactly the width
         "<info>ab</info>\n<b>cd</b>ef",       # 12 two tagged lines
         "<b>x</b>\n\ny",                      # 13 an empty line in between
         "\\<info>x",                          # 14 an escaped whole tag (outside the theorems' class)
         "<foo>zzzzzz</foo>",                  # 15 unknown tag: shown as it is, 17 cells
         "<u>" + "m" * 10 + "</u><error>!</error>",   # 16 visible 11
         "",                                   # 17 the empty text
         "<info>a\nb</info>",                  # 18 a tag spanning a line break (outside the class)
         "<fg=cyan;options=bold>1234567</> <b>9</b>",  # 19 visible 9 (+ indentation 2: wraps)
         "h" * 20,                             # 20 exactly two rows at width 10
         "i" * 30,                             # 21 exactly three rows
         " ",                                  # 22 a line of white space only: not empty, so it is indented
         "  \nx",                              # 23
         "x\n \ny",                           # 24
         "j" * 7, "k" * 14, "l" * 21,          # 25-27 one / two / three rows at width 7
         "n" * 80, "o" * 160,                  # 28, 29 one / two rows at width 80
         "<b>" + "p" * 20 + "</b>",            # 30 visible exactly two rows
         "q" * 19 + "\n" + "r" * 21,           # 31 just below / above two rows
         "s\n",                               # 32 a text that ENDS with a line break: the last content line is an empty one
         "\n",                                # 33 a line break alone: two empty lines
         "t\n\n",                             # 34
         "\nu",                               # 35 a text that starts with a line break
         "<b>v</b>\n" + "w" * 11 + "\n",      # 36 tagged, wrapped, ending with a line break
         "\u00e9" * 10,                        # 37 characters beyond ASCII (one cell each): exactly one row at width 10 - two if bytes were counted
         "<info>\u03bb\u0436\u00fc</info> \u00e7a\n" + "\u0436" * 11]   # 38 tagged; a second line that wraps
PLAIN_T = range(6)
# the output the sections are taken from (case field "out"; absent = a buffer with a forced AnsiFormatter (ansi 1) / a PlainFormatter
# (ansi 0), as in every case before).  'ansi' in a case stays the answer expected of Output.supports_ansi(): the model's flag
OUTS = {"tty": 1,          # a stream that supports ANSI (a terminal) with an AnsiFormatter that is NOT forced
        "tty-forced": 1,   # ... with a forced one
        "tty-plain": 0,    # a terminal with a PlainFormatter (--no-ansi): no control codes
        "pipe-ansi": 0}    # a stream without ANSI support (a pipe) with an AnsiFormatter that is not forced: no control codes
PREAMBLE = "#\n#\n#\n"     # rows already on the terminal above the sections (the oracle's second emulator run)
WIDTHS = [1, 7, 10, 80]
TAGGED_SMALL = [6, 7, 8, 10, 12, 13, 17]
INDENTS = [0, 2, 3, 7, 12]


def ops_for(nsec):
    """the plain alphabet (as before the texts became markup)"""
    ops = []
    for i in range(nsec):
        for t in PLAIN_T:
            ops.append([1, i, t, 1])
        ops.append([1, i, 0, 0])
        ops.append([1, i, 32, 1])
        ops.append([2, i, 1])
        ops.append([2, i, 4])
        ops.append([3, i, None])
        ops.append([3, i, 1])
        ops.append([3, i, 2])
    return ops


def ops_tagged(nsec):
    """a small alphabet of tagged texts and indentations"""
    ops = []
    for i in range(nsec):
        for t in TAGGED_SMALL:
            ops.append([1, i, t, 1])
        ops.append([2, i, 11])
        ops.append([3, i, None])
        ops.append([3, i, 1])
        ops.append([4, i, 3])
        ops.append([4, i, 12])
        ops.append([4, i, 0])
    return ops


def ops_all(nsec):
    ops = []
    for i in range(nsec):
        for t in range(len(TEXTS)):
            ops.append([1, i, t, 1])
            ops.append([2, i, t])
        ops.append([1, i, 0, 0])
        ops.append([1, i, 9, 0])
        for n in (None, None, 1, 1, 2, 3, 0):
            ops.append([3, i, n])
        for n in INDENTS:
            ops.append([4, i, n])
    return ops


def ops_created(nsec):
    """the alphabet of the part where section() and the parent's indent() are operations like the others"""
    ops = [[5, 3], [5, 0]]
    if nsec < 3:
        ops.append([0])
    for i in range(nsec):
        ops += [[1, i, 0, 1], [1, i, 3, 1], [1, i, 20, 1], [1, i, 5, 1], [2, i, 1], [3, i, None], [3, i, 1], [4, i, 2]]
    return ops


def explore(alpha, depth, nsec):
    """all op sequences of length <= depth over alpha(number of sections so far)"""
    out = [[]]
    if depth == 0:
        return out
    for o in alpha(nsec):
        for rest in explore(alpha, depth - 1, nsec + (1 if o[0] == 0 else 0)):
            out.append([list(o)] + rest)
    return out


def gen(rng, tier, info):
    depth = {"quick": 3, "thorough": 4, "search": 2}[tier]
    nrand = {"quick": 5000, "thorough": 50000, "search": 1500}[tier]
    cases = []
    for nsec in (1, 2, 3):
        al = ops_for(nsec)
        d = depth if nsec < 3 else depth - 1
        for k in range(0, d + 1):
            for seq in itertools.product(al, repeat=k):
                for ansi in ((1, 0) if k <= 2 else (1,)):
                    cases.append({"ansi": ansi, "ops": [[0]] * nsec + [list(o) for o in seq]})
    n_kinds = len(cases)
    # every kind of output (terminal / pipe x forced / unforced / plain formatter) on all sequences up to length 2
    for nsec in (1, 2, 3):
        al = ops_for(nsec)
        for k in range(0, 3 if tier != "search" else 2):
            for seq in itertools.product(al, repeat=k):
                for out, ansi in sorted(OUTS.items()):
                    cases.append({"ansi": ansi, "out": out, "ops": [[0]] * nsec + [list(o) for o in seq]})
    n_kinds = len(cases) - n_kinds
    n_plain = len(cases)
    for nsec, d in ((1, depth + 1 if tier != "search" else depth), (2, min(depth, 3))):
        al = ops_tagged(nsec)
        for k in range(1, d + 1):
            for seq in itertools.product(al, repeat=k):
                for ansi in ((1, 0) if k <= 2 else (1,)):
                    cases.append({"ansi": ansi, "ops": [[0]] * nsec + [list(o) for o in seq]})
    n_ex = len(cases)
    # section() and parent.indent(k) INSIDE the explored alphabet: a section created after writes, under an indentation of
    # the output it belongs to (Output.section() hands the indentation on)
    dc = {"quick": 5, "thorough": 6, "search": 3}[tier]
    for seq in explore(ops_created, dc, 0):
        if any(o[0] != 5 for o in seq):
            cases.append({"ansi": 1, "ops": seq})
            if len(seq) <= 3:
                cases.append({"ansi": 0, "ops": seq})
    n_cr = len(cases) - n_ex
    for _ in range(nrand):
        ops, n = [[0]], 1
        for _ in range(rng.randint(4, 40)):
            r = rng.random()
            if r < 0.08 and n < 4:
                ops.append([0])
                n += 1
            elif r < 0.13:
                ops.append([5, rng.choice(INDENTS)])
            else:
                ops.append(list(rng.choice(ops_all(n))))
        c = {"ansi": 1 if rng.random() < 0.85 else 0, "ops": ops}
        if rng.random() < 0.25:
            c["out"] = rng.choice(sorted(OUTS))
            c["ansi"] = OUTS[c["out"]]
        w = rng.choice(WIDTHS + [10, 10])
        if w != W:
            c["w"] = w
        cases.append(c)
    info["exhaustive"] = True
    info["distribution"] = {"exhaustive_plain": n_plain - n_kinds, "exhaustive_output_kinds": n_kinds, "output_kinds": sorted(OUTS),
                            "exhaustive_tagged_indented": n_ex - n_plain,
                            "exhaustive_with_create_and_parent_indent": n_cr, "random": nrand, "depth": depth,
                            "depth_with_create": dc, "widths_exhaustive": [W], "widths_random": WIDTHS}
    return cases


def width(c):
    return c.get("w", W)


def sty(tag=None, fg=None, bg=None, attrs=0):
    return {"tag": tag, "fg": fg, "bg": bg, "attrs": attrs}


def default_set():
    """clikit's DefaultStyleSet (attribute bits: bold italic dark underlined blinking inverse hidden)"""
    return [sty("info", "green"), sty("comment", "cyan"), sty("question", "blue"), sty("error", "red", None, 1), sty("b", None, None, 1),
            sty("u", None, None, 8), sty("c1", "cyan"), sty("c2", "yellow")]


def w_style(st):
    o = lambda v: [] if v is None else [S(v)]
    return [o(st["tag"]), o(st["fg"]), o(st["bg"])] + [st["attrs"] >> i & 1 for i in range(7)]


def wire(c):
    ops = []
    for o in c["ops"]:
        if o[0] == 0:
            ops.append([0])
        elif o[0] == 1:
            ops.append([1, o[1], S(TEXTS[o[2]]), o[3]])
        elif o[0] == 2:
            ops.append([2, o[1], S(TEXTS[o[2]])])
        elif o[0] == 3:
            ops.append([3, o[1], [] if o[2] is None else [o[2]]])
        elif o[0] == 4:
            ops.append([4, o[1], o[2]])
        else:
            ops.append([5, o[1]])
    return [c["ansi"], width(c), [w_style(s) for s in default_set()], ops]


def describe(c):
    def d(o):
        if o[0] == 0:
            return "section()"
        if o[0] == 1:
            return "s%d.%s(%r)" % (o[1], "write_line" if o[3] else "write", TEXTS[o[2]])
        if o[0] == 2:
            return "s%d.overwrite(%r)" % (o[1], TEXTS[o[2]])
        if o[0] == 3:
            return "s%d.clear(%s)" % (o[1], "" if o[2] is None else o[2])
        if o[0] == 5:
            return "output.indent(%d)" % o[1]
        return "s%d.indent(%d)" % (o[1], o[2])
    return ("ANSI" if c["ansi"] else "plain") + (" (output: %s)" % c["out"] if c.get("out") else "") + " width %d: " % width(c) + "; ".join(d(o) for o in c["ops"])


# ---- the class of the theorems, decided independently of the model (Model/Section.v good_opsb) ----
_PASTEL = None
_VIS = {}


def _fresh_pastel():
    from clikit.formatter import PlainFormatter
    return PlainFormatter()._formatter


def visible(line):
    """the tag-stripped text of one line, by a fresh undecorated formatter; None when it raises"""
    if line not in _VIS:
        p = _fresh_pastel()
        try:
            _VIS[line] = (p.colorize(line), len(p._style_stack.styles) == 0)
        except Exception:  # noqa
            _VIS[line] = (None, False)
    return _VIS[line]


def good_line(l):
    if "\n" in l or "\t" in l or "\x1b" in l or l.endswith("\\"):
        return False
    from pastel import Pastel
    prev = 0
    for m in Pastel.FULL_TAG_REGEX.finditer(l):
        if l[prev:m.start()].endswith("\\"):
            return False
        prev = m.end()
    v, balanced = visible(l)
    return v is not None and balanced


def good_ops(ops):
    return all(good_line(l) for o in ops if o[0] in (1, 2) for l in TEXTS[o[2]].split("\n"))


def indent_text(n, text):
    if n <= 0:
        return text
    return "\n".join((" " * n + s) if s else s for s in text.split("\n"))


def _state(secs):
    return [[[S(l) for l in s.content.split("\n")[:-1]] if s.content else [], s.lines, s._indent] for s in secs]


def _screen(data, w):
    t = termemu.Term(w)
    t.feed(data)
    return t


def run_impl(c):
    w = width(c)
    os.environ["COLUMNS"] = str(w)
    from clikit.api.io import Output
    from clikit.io.output_stream import BufferedOutputStream
    from clikit.formatter import AnsiFormatter, PlainFormatter

    class Tty(BufferedOutputStream):
        def supports_ansi(self):
            return True
    kind = c.get("out") or ("forced" if c["ansi"] else "plain")
    stream = Tty() if kind.startswith("tty") else BufferedOutputStream()
    formatter = {"forced": lambda: AnsiFormatter(forced=True), "tty-forced": lambda: AnsiFormatter(forced=True), "tty": AnsiFormatter,
                 "pipe-ansi": AnsiFormatter, "plain": PlainFormatter, "tty-plain": PlainFormatter}[kind]()

    class _IO(object):          # the two things the run needs of an IO: the output and what was written to it
        output = Output(stream, formatter)
        fetch_output = staticmethod(stream.fetch)
    io = _IO()
    secs = []
    failed = None
    j = 0
    for o in c["ops"]:
        # what the stream and the sections look like before the call: when the call raises, the run is told up to here
        before = (io.fetch_output(), _state(secs))
        try:
            if o[0] == 0:
                secs.append(io.output.section())
            elif o[0] == 1:
                (secs[o[1]].write_line if o[3] else secs[o[1]].write)(TEXTS[o[2]])
            elif o[0] == 2:
                secs[o[1]].overwrite(TEXTS[o[2]])
            elif o[0] == 3:
                secs[o[1]].clear(o[2]) if o[2] is not None else secs[o[1]].clear()
            elif o[0] == 4:
                secs[o[1]].indent(o[2])
            else:
                io.output.indent(o[1])
        except Exception as e:  # noqa: a text the formatter refuses; the run ends there on both sides
            failed = err(e)
            break
        if o[0] != 5:
            j += 1
    if failed is not None:
        data, state = before
        done = [x for x in c["ops"] if x[0] != 5][:j]
        t = _screen(data, w)
        return [failed[0], failed[1], j, termemu.tokens(data), state, [[S(r) for r in t.screen()], t.r, t.c], 1 if good_ops(done) else 0,
                _look(t, data)]
    data = io.fetch_output()
    t = _screen(data, w)
    return [0, termemu.tokens(data), _state(secs), [[S(r) for r in t.screen()], t.r, t.c], 1 if good_ops(c["ops"]) else 0, _look(t, data)]


def _look(t, data=None):
    """the pens of the screen's cells and the pen the terminal is left with; the same bytes on a terminal that already shows
    three rows above the cursor (a cursor movement beyond the first section's first row is invisible on an empty terminal)"""
    t2 = termemu.Term(t.w)
    t2.feed(PREAMBLE + (data or ""))
    return [t.pens(), t.pen, [t2.screen(), t2.r, t2.c]]


def canon_impl(c, o):
    return o[:-1]           # the look of the cells is the oracle's business (the model's terminal ignores SGR)


_LOOK = {}


def look_of(line, w):
    """cells (character, pen) of one content line of good markup shown alone: a fresh decorating formatter, an own terminal"""
    k = (line, w)
    if k not in _LOOK:
        from clikit.formatter import AnsiFormatter
        t = termemu.Term(w)
        t.feed(AnsiFormatter(forced=True).format(line) + "\n")
        _LOOK[k] = (t.rows[:-1], t.pen)
    return _LOOK[k]


def cut18(ops):
    """does a partial clear cut a text-18 write ('<info>a' / 'b</info>': a tag that spans a line break) in two, so that the
    first half stays on record without the second?  Walks the records by line provenance, independent of model and code."""
    recs = []
    for o in ops:
        if o[0] == 0:
            recs.append([])
        elif o[0] in (1, 2):
            if o[0] == 2:
                recs[o[1]] = []
            n = len(TEXTS[o[2]].split("\n"))
            recs[o[1]] += [(o[2], k) for k in range(n)]
        elif o[0] == 3:
            if o[2]:
                if recs[o[1]]:
                    del recs[o[1]][-o[2]:]
                    if recs[o[1]] and recs[o[1]][-1] == (18, 0):
                        return True
            else:
                recs[o[1]] = []
    return False


def oracle(c, o):
    w = width(c)
    ops = c["ops"]
    if o[0] != 0:
        # the formatter refused a text.  Only a closing tag that meets a foreign style stack can do that: text 14 (an escaped
        # whole tag) or text 18 (a tag spanning a line break) must have been written BEFORE or BY the call that raised
        j = o[2]
        done = [x for x in ops if x[0] != 5][:j + 1]
        if not any(op[0] in (1, 2) and op[2] in (14, 18) for op in done):
            return "formatter-raised-on-good-markup"
        ops = [x for x in ops if x[0] != 5][:j]          # what follows is asked of the calls before it
        o = [0] + o[3:]
    _, toks, secs, (screen, r, col), good, (pens, pen, (pre_screen, pre_r, pre_c)) = o
    if not c["ansi"]:
        if any(t[0] not in (0, 1) for t in toks):
            return "control-code-on-plain-output"
        # plain: the visible text of every write, indented, appended
        exp, inds, pind = "", [], 0
        for op in ops:
            if op[0] == 0:
                inds.append(pind)
            elif op[0] == 5:
                pind = op[1]
            elif op[0] == 4:
                inds[op[1]] = op[2]
            elif op[0] in (1, 2):
                v, _ = visible(indent_text(inds[op[1]], TEXTS[op[2]]))
                if v is None:
                    return None
                exp += v + ("\n" if op[0] == 2 or op[3] else "")
        got = "".join("\n" if t[0] == 1 else chr(t[1]) for t in toks)
        return None if got == exp else "plain-output-not-appended-lines"
    stack = []
    for cs, lines, _ind in secs:
        rows = []
        for l in cs:
            v, _ = visible(unS(l))
            if v is None:
                return None
            rows += termemu.wrap_rows(v, w)
        # (section.lines - the row count the section keeps for itself - is compared with the model, not asked of here: the
        # statement speaks of the screen and of the contents, not of the accounting)
        stack += rows
    got = [unS(x) for x in screen]
    if not good and cut18(ops):
        # outside the class of the theorems: a tag that spans a line break, CUT by a partial clear, leaves its style on the
        # formatter's stack for good (pastel keeps the stack between calls); an escaped tag written under an open style
        # then keeps its backslash on a decorated output (pastel's own rendering, DESIGN.md C20).  The model follows the
        # code there (the tie is still checked); the stack claim is not made.  Without such a cut it IS made.
        return None
    if got != stack + [""] or r != len(stack) or col != 0:
        return "screen-differs-from-stacked-contents"
    npre = PREAMBLE.count("\n")
    if pre_screen != PREAMBLE.split("\n")[:-1] + got or pre_r != npre + r or pre_c != 0:
        return "rows-above-the-sections-disturbed"
    if good:
        # ... and it shows them in their own look: every cell has the pen its own line's markup gives it (a style does not
        # leak from one line or section into the next), and the terminal is left with the default pen
        want = []
        for cs, _lines, _ind in secs:
            for l in cs:
                rows_l, pen_l = look_of(unS(l), w)
                want += [[p for _, p in row] for row in rows_l]
        if pens != want + [[]] or pen != termemu.DEFAULT_PEN:
            return "screen-shows-contents-in-a-foreign-style"
    return None


def nontrivial_key(c, o):
    used = set(op[1] for op in c["ops"] if op[0] not in (0, 5))
    wrapped = any(op[0] in (1, 2) and len(max(TEXTS[op[2]].split("\n"), key=len)) > width(c) for op in c["ops"])
    tagged = any(op[0] in (1, 2) and 6 <= op[2] < 20 for op in c["ops"])
    indented = any(op[0] in (4, 5) and op[-1] > 0 for op in c["ops"])
    if len(used) >= 2 or wrapped or tagged or indented:
        return [c["ansi"], c.get("out"), width(c), c["ops"]]
    return None


def shrink(c):
    ops = c["ops"]
    for i in range(len(ops)):
        if ops[i][0] != 0:
            d = {"ansi": c["ansi"], "ops": ops[:i] + ops[i + 1:]}
            for k in ("w", "out"):
                if k in c:
                    d[k] = c[k]
            yield d
