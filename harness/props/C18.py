"""C18 - questions return only valid answers, count attempts exactly and terminate.

Observation per ask(): how it ended (answer / failure with the exception's class and message / gave up at end of input),
the number of lines consumed from the input stream, and the WHOLE text on the error output (also on the standard output,
which must stay empty).  The model (Model/Question.v for the outcome, Model/QuestionText.v for the text; driver entry
run_C18T) produces the same observation; the oracle states the property on it with its own, independent reading of
"valid entry" (spec_entry below).
"""
import itertools, re
from hutil import S, unS

MODEL = "C18"
MODEL_ENTRY = "run_C18T"        # the driver's entry for C18 (Model/QuestionText.v): run_C18's outcome and, next to it, the text written
PROP_FILES = ["Props/C18.v"]
CASE_TIMEOUT = 5
RULE = ("choice lists (1-5 entries incl. numeric-looking, duplicated, spaced and case-differing entries) x single/multi-select x "
        "defaults (none, every index of the first three, two orders of a pair when multi-select) x attempt limits {unlimited,1,2,3} x "
        "ALL answer scripts up to 2 lines (quick) / 3 lines (thorough) over an adversarial answer alphabet (markup-like text "
        "included), PLUS all scripts of 3 (quick) / 4 (thorough) lines over a 4-entry alphabet {invalid name, out-of-range index, "
        "valid index, empty line} - enough to use up every limit - plus random 4-line scripts over the whole alphabet, each ending "
        "in end of input; the same question object asked twice; non-interactive inputs WITH pending lines; confirmation over "
        "patterns x answers x defaults; the plain Question with and without a validator; "
        "non-trivial = a script with >= 1 invalid entry or a multi-select answer; distinct by case")
TRUSTED = ["the terminal auto-completion path (stty available) is outside the model: Question._has_stty_available is forced to False "
           "in the harness (it is False anyway without a terminal; forcing it avoids spawning stty for every prompt); hidden questions "
           "(getpass) are not asked",
           "int() of a typed index is modelled for ASCII digits (Model/Conv.v int_of_str); the answer alphabet has no other digits"]
ASSUMPTIONS = ["defaults are valid indexes; choices hold no markup; confirmation patterns are prefixes, with and without the (?i) flag",
               "an empty entry of a choice question WITHOUT default is an invalid entry like any other (one attempt, one error line); "
               "the error it prints is the text of an AttributeError ('NoneType' object has no attribute 'replace') - the property "
               "says nothing about the wording, the model reproduces that one text for that one situation and any other unexpected "
               "exception type is a failure of its own class"]

CHOICE_LISTS = [["Superman", "Batman", "Spiderman"], ["a"], ["10", "20", "1"], ["dup", "x", "dup"], ["Iron Man", "iron man", "Thor"],
                ["1", "0"], ["yes", "no", "maybe", "never", "ok"]]
ANSWERS = ["", " ", "0", "1", "2", "7", "-1", "+1", "1_0", " 1 ", "x", "dup", "Batman", "batman", "Iron Man", "IronMan", "0,1", "0, 2",
           "Batman,Superman", "1,,2", ",", "a", "10", "yes,no", "0,x", "1,1", "</b>", "<b>", "a\\", "2,1,0"]
BUDGET = ["x", "7", "0", ""]        # invalid name, out-of-range index, valid index, empty line (the default, or invalid without one)
QTEXT = "Pick"
PLAIN_ACCEPT = ["ok", "dflt"]
PLAIN_ANSWERS = ["", " ", "ok", "no", "x y", "</b>"]


def _defaults(cs, multi):
    ds = [None, "0"] + (["1"] if len(cs) > 1 else []) + (["2"] if len(cs) > 2 else [])
    if multi and len(cs) > 1:
        ds += ["0,1", "1,0"]
    return ds


def gen(rng, tier, info):
    depth = {"quick": 2, "thorough": 3, "search": 2}[tier]
    cases = []
    n_budget = n_nonint = 0
    for ci, cs in enumerate(CHOICE_LISTS):
        for multi in (0, 1):
            for d in _defaults(cs, multi):
                for att in (None, 1, 2, 3):
                    base = {"k": 0, "cs": ci, "multi": multi, "d": d, "att": att}
                    # non-interactive: lines are pending on the input, none may be read and nothing may be written
                    for sc in ([], ["0"], ["x"], ["x", "0", "1"], ["", "", "", ""]):
                        cases.append(dict(base, inter=0, script=sc))
                        n_nonint += 1
                    for k in range(0, depth + 1):
                        pool = ANSWERS if k <= 1 else ANSWERS[::2] + ["Batman"]
                        if k == depth and tier != "thorough":
                            pool = ["", "0", "x", "dup", "Batman", "0,1", "7", "-1", "</b>"]
                        for seq in itertools.product(pool, repeat=k):
                            cases.append(dict(base, inter=1, script=list(seq)))
                            if k >= 1 and att is not None and len(seq) <= 2:
                                # the same question object asked again afterwards
                                for second in (["0"], ["x", "0"]):
                                    cases.append(dict(base, inter=1, script=list(seq), again=second))
                    # the attempt budget: every script of depth+1 lines over {invalid, invalid, valid, empty} - a limit of 3 is used
                    # up by three invalid entries, and a fourth line must stay unread
                    for seq in itertools.product(BUDGET, repeat=depth + 1):
                        cases.append(dict(base, inter=1, script=list(seq)))
                        n_budget += 1
                    if tier != "thorough":
                        cases.append(dict(base, inter=1, script=["x", "7", "x", "0"]))
                        cases.append(dict(base, inter=1, script=["x", "x", "x", "x"]))
                        n_budget += 2
    n_choice = len(cases)
    for _ in range({"quick": 3000, "thorough": 30000, "search": 500}[tier]):
        ci = rng.randrange(len(CHOICE_LISTS))
        multi = rng.randrange(2)
        cases.append({"k": 0, "cs": ci, "multi": multi, "d": rng.choice(_defaults(CHOICE_LISTS[ci], multi)), "att": rng.choice([None, 1, 2, 3]),
                      "inter": 1, "script": [rng.choice(ANSWERS) for _ in range(rng.choice([3, 4, 4]))]})
    n_rand = len(cases) - n_choice
    n1 = len(cases)
    for inter in (0, 1):
        for d in (0, 1):
            for prefix in ("y", "j", "ok"):
                for script in [[]] + [[a] for a in ["", " ", "y", "Y", "yes", "n", "no", "J", "ja", "okay", "OK", "o", " y ", "ny", "x"]] + [["x", "y"]]:
                    cases.append({"k": 1, "inter": inter, "d": d, "prefix": prefix, "script": script})
    # patterns WITHOUT the (?i) flag: the case of the answer matters
    for d in (0, 1):
        for prefix in ("Y", "y", "Yes", "ok"):
            for a in ["y", "Y", "yes", "Yes", "YES", "yES", "ok", "OK", "Ok", "n", " Y ", "", "x"]:
                cases.append({"k": 1, "inter": 1, "d": d, "prefix": prefix, "script": [a], "cs": 1})
    n_conf = len(cases) - n1
    n2 = len(cases)
    for inter in (0, 1):
        for d in (None, "dflt"):
            for val, atts in ((0, [None]), (1, [None, 1, 2, 3])):
                for att in atts:
                    for k in range(0, 4):
                        if not inter and k > 1:
                            continue
                        for seq in itertools.product(PLAIN_ANSWERS if k <= 2 else ["", "ok", "no"], repeat=k):
                            cases.append({"k": 2, "inter": inter, "d": d, "val": val, "att": att, "script": list(seq)})
    info["exhaustive"] = True
    info["distribution"] = {"choice_cases": n_choice, "of_which_budget_scripts": n_budget, "of_which_non_interactive": n_nonint,
                            "random_long_scripts": n_rand, "confirmation_cases": n_conf, "plain_question_cases": len(cases) - n2,
                            "answer_alphabet": len(ANSWERS), "exhaustive_script_lines": depth, "budget_script_lines": depth + 1}
    return cases


def _opt(x, f=lambda v: v):
    return [] if x is None else [f(x)]


def wire(c):
    if c["k"] == 0:
        return [10, S(QTEXT), c["inter"], [S(x) for x in CHOICE_LISTS[c["cs"]]], c["multi"], _opt(c["d"], S), _opt(c["att"]),
                [[S(l) for l in sc] for sc in [c["script"]] + ([c["again"]] if "again" in c else [])]]
    if c["k"] == 1:
        if c.get("cs"):
            return [13, S("Sure"), c["inter"], c["d"], 0, S(c["prefix"]), [S(l) for l in c["script"]]]
        return [11, S("Sure"), c["inter"], c["d"], S(c["prefix"]), [S(l) for l in c["script"]]]
    return [12, S("Name"), c["inter"], _opt(c["d"], S), [[S(a) for a in PLAIN_ACCEPT]] if c["val"] else [], _opt(c["att"]),
            [S(l) for l in c["script"]]]


def describe(c):
    if c["k"] == 0:
        return "ChoiceQuestion(%r, %r, default=%r) multi=%s attempts=%r interactive=%s typed lines %r then end of input%s" % (
            QTEXT, CHOICE_LISTS[c["cs"]], c["d"], bool(c["multi"]), c["att"], bool(c["inter"]), c["script"],
            (", then asked again with %r" % c["again"]) if "again" in c else "")
    if c["k"] == 1:
        return "ConfirmationQuestion('Sure', default=%s, pattern=%s^%s) interactive=%s typed %r" % (bool(c["d"]), "" if c.get("cs") else "(?i)", c["prefix"], bool(c["inter"]), c["script"])
    return "Question('Name', default=%r)%s attempts=%r interactive=%s typed %r" % (
        c["d"], " with a validator accepting %r" % PLAIN_ACCEPT if c["val"] else "", c["att"], bool(c["inter"]), c["script"])


WART = "'NoneType' object has no attribute 'replace'"


def _ask(q, c, script):
    from clikit.io import BufferedIO
    data = "".join(l + "\n" for l in script)
    io = BufferedIO(data)
    if not c["inter"]:
        io.set_interactive(False)
    try:
        r = q.ask(io)
        if isinstance(r, list):
            end = [0, [1, [S(x) for x in r]]]
        elif r is None:
            end = [0, [2]]
        elif isinstance(r, bool):
            end = [0, int(r)]
        elif isinstance(r, str):
            end = [0, [0, S(r)]]
        else:
            end = [3, S(type(r).__name__), S(repr(r))]
    except Exception as e:
        msg = str(e)
        if type(e).__name__ == "Aborted":
            end = [2]
        elif type(e) is ValueError:
            end = [1, 1 if "ambiguous" in msg else 0, [S(msg)]]
        elif type(e) is AttributeError and msg == WART:
            end = [1, 2, [S(msg)]]          # the one known wart (ASSUMPTIONS): exactly this type and text
        else:
            end = [3, S(type(e).__name__), S(msg)]
    errtext = io.fetch_error()
    remaining = io.input.stream._stream.read()
    if isinstance(remaining, bytes):
        remaining = remaining.decode("utf-8")
    nread = len(script) - remaining.count("\n")
    return [end, nread, errtext, io.fetch_output()]


def _validator(x):
    if x not in PLAIN_ACCEPT:
        raise ValueError("not ok: %s" % (x,))
    return x


def run_impl(c):
    from clikit.ui.components import ChoiceQuestion, ConfirmationQuestion, Question
    Question._has_stty_available = lambda self: False
    if c["k"] == 0:
        q = ChoiceQuestion(QTEXT, list(CHOICE_LISTS[c["cs"]]), c["d"])
        if c["multi"]:
            q.set_multi_select(True)
        if c["att"] is not None:
            q.set_max_attempts(c["att"])
        return [_ask(q, c, sc) for sc in [c["script"]] + ([c["again"]] if "again" in c else [])]
    if c["k"] == 1:
        q = ConfirmationQuestion("Sure", bool(c["d"]), ("^" if c.get("cs") else "(?i)^") + c["prefix"])
        return _ask(q, c, c["script"])
    q = Question("Name", c["d"])
    if c["val"]:
        q.set_validator(_validator)
    if c["att"] is not None:
        q.set_max_attempts(c["att"])
    return _ask(q, c, c["script"])


def parse_dialogue(text, marker):
    """The error output of an interactive ask must be: prompt (error line, prompt)* - the prompt being whatever the question
    writes first (up to and including its input marker), the same every time.  -> (prompt count, [error lines]) or None."""
    if text == "":
        return 0, []
    i = text.find(marker)
    if i < 0:
        return None
    prompt = text[:i + len(marker)]
    rest = text[len(prompt):]
    errors = []
    while rest:
        j = rest.find("\n" + prompt)
        if j < 0:
            return None
        err = rest[:j]
        if err == "" or "\n" in err:
            return None
        errors.append(err)
        rest = rest[j + 1 + len(prompt):]
    return 1 + len(errors), errors


def _counts(c, text):
    marker = {0: "\n > ", 1: "] ", 2: "Name "}[c["k"]]
    p = parse_dialogue(text, marker)
    return (-1, -1) if p is None else (len(p[1]), p[0])


def canon_impl(c, o):
    def one(x):
        end, nread, text = x[:3]
        nerr, nprompt = _counts(c, text)
        if c["k"] == 0:
            return [end, nread, nerr, nprompt, S(text)]
        return [end, nread, S(text)]
    if c["k"] == 0:
        return [one(x) for x in o]
    return one(o)


def oracle(c, o):
    if c["k"] == 0:
        for ob, script in zip(o, [c["script"]] + ([c["again"]] if "again" in c else [])):
            r = oracle1(dict(c, script=script), ob)
            if r:
                return r
        return None
    return oracle1(c, o)


# ---- the property's own reading of an entry (independent of the implementation and of the model) ----
WORDS = re.compile(r"^[a-zA-Z0-9_-]+(,[a-zA-Z0-9_-]+)*$")


def spec_value(cs, v):
    """One value: ("valid", the member it denotes) | ("invalid",) | ("undecided",).
    valid: the text of a choice that occurs once, or the canonical decimal index of a choice when no choice has that text;
    invalid: the text of a choice occurring twice (ambiguous), a text that is neither a choice nor integer-like, a canonical
    integer outside the list; everything else (other spellings of integers: +1, 1_0, 07) is left to the model."""
    n = cs.count(v)
    if n == 1:
        return ("valid", v)
    if n > 1:
        return ("invalid",)
    if re.match(r"^(0|-?[1-9][0-9]*)$", v):       # the canonical decimal text of an integer
        i = int(v)
        return ("valid", cs[i]) if 0 <= i < len(cs) else ("invalid",)
    if re.match(r"^\s*[+-]?[0-9][0-9_]*\s*$", v):
        return ("undecided",)
    return ("invalid",)


def spec_entry(c, cs, line):
    """A typed line of a choice question -> ("valid", expected answer) | ("invalid",) | ("undecided",)"""
    t = line.strip()
    if t == "":
        if c["d"] is None:
            return ("invalid",)
        t = c["d"]
    if not c["multi"]:
        r = spec_value(cs, t)
        return ("valid", [0, S(r[1])]) if r[0] == "valid" else r
    parts = [p.strip(" ") for p in t.split(",")]          # blanks around the commas do not count
    if any(" " in p for p in parts):
        return ("undecided",)       # a blank INSIDE a value (the code drops it; whether 'Iron Man' may be typed in a list is not claimed)
    if not WORDS.match(",".join(parts)):
        return ("invalid",)
    rs = [spec_value(cs, p) for p in parts]
    # the first value that is not valid decides
    for r in rs:
        if r[0] != "valid":
            return r
    return ("valid", [1, [S(r[1]) for r in rs]])


def spec_dialogue(c, cs):
    """What the property dictates for the script: (end, lines read, error lines printed) or None when an entry is undecided
    before the dialogue is over."""
    left = c["att"]
    bad = 0
    for i, line in enumerate(c["script"]):
        r = spec_entry(c, cs, line)
        if r[0] == "undecided":
            return None
        if r[0] == "valid":
            return ([0, r[1]], i + 1, bad)
        bad += 1
        if left is not None:
            left -= 1
            if left == 0:
                # the last allowed attempt: the error is raised, not printed
                return ("failed", i + 1, bad - 1)
    return ("gave-up", len(c["script"]), bad)


def oracle1(c, o):
    end, nread, text, stdout = o
    if stdout != "":
        return "question-wrote-to-standard-output"
    if end[0] == 3:
        return "unexpected-exception:" + unS(end[1])
    if not c["inter"]:
        # any question on a non-interactive input: its default, nothing read, nothing written
        if nread != 0:
            return "non-interactive-question-read-input"
        if text != "":
            return "non-interactive-question-wrote"
        if c["k"] == 0:
            exp = [0, [2]] if c["d"] is None else [0, [0, S(c["d"])]]
        elif c["k"] == 1:
            exp = [0, c["d"]]
        else:
            exp = [0, [2]] if c["d"] is None else [0, [0, S(c["d"])]]
        return None if end == exp else "non-interactive-question-not-default"
    nerr, nprompt = _counts(c, text)
    if nerr < 0:
        return "error-output-is-not-prompt-then-error-lines-each-followed-by-the-prompt"
    if c["k"] == 0:
        cs = CHOICE_LISTS[c["cs"]]
        if end[0] == 0:
            a = end[1]
            vals = [unS(a[1])] if a[0] == 0 else ([unS(x) for x in a[1]] if a[0] == 1 else None)
            if vals is None or any(v not in cs for v in vals):
                return "answer-not-a-member-of-the-choices"
            if (a[0] == 1) != bool(c["multi"]):
                return "answer-shape-does-not-match-multi-select"
        # the attempt budget, in both directions, and the accounting of invalid entries
        if end[0] == 1 and c["att"] is None:
            return "failed-although-attempts-unlimited"
        if end[0] == 1 and nread != c["att"]:
            return "failed-after-wrong-number-of-attempts"
        if end[0] == 2 and nread != len(c["script"]):
            return "gave-up-before-end-of-input"
        # one prompt per round (a round = one line read, or the end of input met), one error line per invalid entry
        # except the one that used up the budget (its error is raised)
        rounds = nread + (1 if end[0] == 2 else 0)
        if nprompt != rounds:
            return "prompts-do-not-match-rounds"
        invalid_rounds = nread - (1 if end[0] == 0 else 0)
        if nerr != max(0, invalid_rounds - (1 if end[0] == 1 else 0)):
            return "errors-printed-do-not-match-invalid-entries"
        sp = spec_dialogue(c, cs)
        if sp is not None:
            s_end, s_read, s_err = sp
            if s_end == "failed":
                if end[0] != 1:
                    return "limit-used-up-by-invalid-entries-but-no-failure"
            elif s_end == "gave-up":
                if end[0] != 2:
                    return "did-not-give-up-at-end-of-input"
            elif end != s_end:
                # an index and the value it denotes are interchangeable; a valid entry is answered at once
                return "valid-entry-not-answered-with-the-member-it-denotes"
            if nread != s_read:
                return "lines-read-do-not-match-the-entries"
            if nerr != s_err:
                return "errors-printed-do-not-match-invalid-entries"
        return None
    if c["k"] == 1:
        if not c["script"]:
            return None if (end == [2] and nprompt == 1 and nerr == 0) else "confirmation-at-end-of-input"
        if nread != 1 or nprompt != 1 or nerr != 0:
            return "confirmation-reads-one-line-after-one-prompt"
        t = c["script"][0].strip()
        exp = bool(c["d"]) if t == "" else (t.startswith(c["prefix"]) if c.get("cs") else t.lower().startswith(c["prefix"]))
        if end != [0, int(exp)]:
            return "confirmation-answer"
        return None
    # the plain question: the typed text (or the default), the validator's verdict under the attempt budget
    def value(line):
        t = line.strip()
        return c["d"] if t == "" else t
    if not c["val"]:
        if not c["script"]:
            return None if (end == [2] and nread == 0 and nprompt == 1) else "question-at-end-of-input"
        v = value(c["script"][0])
        exp = [0, [2]] if v is None else [0, [0, S(v)]]
        if end != exp or nread != 1 or nprompt != 1 or nerr != 0:
            return "question-answer"
        return None
    left, bad = c["att"], 0
    want = ("gave-up", len(c["script"]), None)
    for i, line in enumerate(c["script"]):
        v = value(line)
        if v in PLAIN_ACCEPT:
            want = ([0, [0, S(v)]], i + 1, bad)
            break
        bad += 1
        if left is not None:
            left -= 1
            if left == 0:
                want = ("failed", i + 1, bad - 1)
                break
    else:
        want = ("gave-up", len(c["script"]), bad)
    kind = {0: None, 1: "failed", 2: "gave-up"}[end[0]]
    if (kind or end) != want[0] or nread != want[1] or nerr != want[2]:
        return "validated-question-accounting"
    if nprompt != nread + (1 if end[0] == 2 else 0):
        return "prompts-do-not-match-rounds"
    return None


def nontrivial_key(c, o):
    if c["k"] == 0 and c["inter"] and (_counts(c, o[0][2])[0] >= 1 or o[0][0][0] == 1 or c["multi"]):
        return [c[k] for k in ("cs", "multi", "d", "att", "script")] + [c.get("again")]
    if c["k"] == 1:
        return [c["inter"], c["d"], c["prefix"], c["script"], c.get("cs", 0)]
    if c["k"] == 2:
        return [2, c["inter"], c["d"], c["val"], c["att"], c["script"]]
    return None


def shrink(c):
    sc = c["script"]
    for i in range(len(sc)):
        yield dict(c, script=sc[:i] + sc[i + 1:])
    if "again" in c:
        d = dict(c)
        del d["again"]
        yield d
