"""C18 - questions return only valid answers, count attempts exactly and terminate."""
import itertools
from hutil import S, unS

MODEL = "C18"
PROP_FILES = ["Props/C18.v"]
CASE_TIMEOUT = 5
RULE = ("choice lists (1-5 entries incl. numeric-looking, duplicated, spaced and case-differing entries) x single/multi-select x "
        "defaults x attempt limits {unlimited,1,2,3} x all answer scripts up to 3 lines (quick) / 4 (thorough) over an adversarial "
        "answer alphabet, each ending in end of input; confirmation over patterns x answers x defaults; interactive on/off; "
        "non-trivial = a script with >= 1 invalid entry or a multi-select answer; distinct by case")
TRUSTED = ["the terminal auto-completion path (stty available) is outside the model: Question._has_stty_available is forced to False "
           "in the harness (it is False anyway without a terminal; forcing it avoids spawning stty for every prompt)"]
ASSUMPTIONS = ["defaults are valid indexes; confirmation patterns are case-insensitive prefixes"]

CHOICE_LISTS = [["Superman", "Batman", "Spiderman"], ["a"], ["10", "20", "1"], ["dup", "x", "dup"], ["Iron Man", "iron man", "Thor"],
                ["1", "0"], ["yes", "no", "maybe", "never", "ok"]]
ANSWERS = ["", " ", "0", "1", "2", "7", "-1", "+1", "1_0", " 1 ", "x", "dup", "Batman", "batman", "Iron Man", "IronMan", "0,1", "0, 2",
           "Batman,Superman", "1,,2", ",", "a", "10", "yes,no", "0,x", "1,1"]


def gen(rng, tier, info):
    depth = {"quick": 2, "thorough": 3, "search": 2}[tier]
    cases = []
    for ci, cs in enumerate(CHOICE_LISTS):
        defaults = [None, "0"] + (["0,1"] if len(cs) > 1 else [])
        for multi in (0, 1):
            for d in defaults:
                if d == "0,1" and not multi:
                    continue
                for att in (None, 1, 2, 3):
                    cases.append({"k": 0, "inter": 0, "cs": ci, "multi": multi, "d": d, "att": att, "script": []})
                    for k in range(0, depth + 1):
                        pool = ANSWERS if k <= 1 else ANSWERS[::2] + ["Batman"]
                        if k == depth and tier == "quick":
                            pool = ["", "0", "x", "dup", "Batman", "0,1", "7", "-1"]
                        for seq in itertools.product(pool, repeat=k):
                            cases.append({"k": 0, "inter": 1, "cs": ci, "multi": multi, "d": d, "att": att, "script": list(seq)})
                            if k >= 1 and att is not None and len(seq) <= 2:
                                # the same question object asked again afterwards
                                for second in (["0"], ["x", "0"]):
                                    cases.append({"k": 0, "inter": 1, "cs": ci, "multi": multi, "d": d, "att": att,
                                                  "script": list(seq), "again": second})
    n_choice = len(cases)
    for inter in (0, 1):
        for d in (0, 1):
            for prefix in ("y", "j", "ok"):
                for script in [[]] + [[a] for a in ["", " ", "y", "Y", "yes", "n", "no", "J", "ja", "okay", "OK", "o", " y ", "ny", "x"]]:
                    cases.append({"k": 1, "inter": inter, "d": d, "prefix": prefix, "script": script})
    info["exhaustive"] = True
    info["distribution"] = {"choice_cases": n_choice, "confirmation_cases": len(cases) - n_choice, "answer_alphabet": len(ANSWERS)}
    return cases


def wire(c):
    if c["k"] == 0:
        return [0, c["inter"], [S(x) for x in CHOICE_LISTS[c["cs"]]], c["multi"], [] if c["d"] is None else [S(c["d"])],
                [] if c["att"] is None else [c["att"]], [[S(l) for l in sc] for sc in [c["script"]] + ([c["again"]] if "again" in c else [])]]
    return [1, c["inter"], c["d"], S(c["prefix"]), [S(l) for l in c["script"]]]


def describe(c):
    if c["k"] == 0:
        return "ChoiceQuestion(%r, multi=%s, default=%r, attempts=%r) interactive=%s typed lines %r then end of input" % (
            CHOICE_LISTS[c["cs"]], bool(c["multi"]), c["d"], c["att"], bool(c["inter"]), c["script"])
    return "ConfirmationQuestion(default=%s, pattern=(?i)^%s) interactive=%s typed %r" % (bool(c["d"]), c["prefix"], bool(c["inter"]), c["script"])


def _ask(q, c, script):
    from clikit.io import BufferedIO
    data = "".join(l + "\n" for l in script)
    io = BufferedIO(data)
    if not c["inter"]:
        io.set_interactive(False)
    try:
        r = q.ask(io)
        if isinstance(r, list):
            end = [0, [1, [S(x) for x in r]]]
        elif r is None:
            end = [0, [2]]
        elif isinstance(r, bool):
            end = [0, int(r)]
        else:
            end = [0, [0, S(r)]]
    except Exception as e:
        msg = str(e)
        if type(e).__name__ == "Aborted":
            end = [2]
        elif "ambiguous" in msg:
            end = [1, 1]
        elif "is invalid" in msg:
            end = [1, 0]
        else:
            end = [1, 2]
    errtext = io.fetch_error()
    remaining = io.input.stream._stream.read()
    if isinstance(remaining, bytes):
        remaining = remaining.decode("utf-8")
    nread = len(script) - remaining.count("\n")
    nerr = errtext.count("is invalid") + errtext.count("is ambiguous") + errtext.count("object has no attribute")
    nprompt = errtext.count("Pick") if c["k"] == 0 else errtext.count("Sure")
    if c["k"] == 0:
        return [end, nread, nerr, nprompt, io.fetch_output()]
    return [end, nread, io.fetch_output()]


def run_impl(c):
    from clikit.ui.components import ChoiceQuestion, ConfirmationQuestion, Question
    Question._has_stty_available = lambda self: False
    if c["k"] == 0:
        q = ChoiceQuestion("Pick", list(CHOICE_LISTS[c["cs"]]), c["d"])
        if c["multi"]:
            q.set_multi_select(True)
        if c["att"] is not None:
            q.set_max_attempts(c["att"])
        return [_ask(q, c, sc) for sc in [c["script"]] + ([c["again"]] if "again" in c else [])]
    q = ConfirmationQuestion("Sure", bool(c["d"]), "(?i)^" + c["prefix"])
    return _ask(q, c, c["script"])


def canon_impl(c, o):
    if c["k"] == 0:
        return [x[:-1] for x in o]
    return o[:-1]


def oracle(c, o):
    if c["k"] == 0:
        for ob, script in zip(o, [c["script"]] + ([c["again"]] if "again" in c else [])):
            r = oracle1(dict(c, script=script), ob)
            if r:
                return r
        return None
    return oracle1(c, o)


def oracle1(c, o):
    if o[-1] != "":
        return "question-wrote-to-standard-output"
    end = o[0]
    if c["k"] == 0:
        cs = CHOICE_LISTS[c["cs"]]
        end, nread, nerr, nprompt = o[:4]
        if not c["inter"]:
            if nread or nerr or nprompt:
                return "non-interactive-question-read-or-wrote"
            exp = [0, [2]] if c["d"] is None else [0, [0, S(c["d"])]]
            return None if end == exp else "non-interactive-question-not-default"
        # typing the exact text of a (unique) choice gives that choice at once
        if not c["multi"] and c["script"]:
            first = c["script"][0]
            if first in cs and cs.count(first) == 1 and first == first.strip() and first != "":
                if end != [0, [0, S(first)]] or nread != 1 or nerr != 0:
                    return "typed-choice-text-not-accepted"
        if end[0] == 0:
            a = end[1]
            vals = [unS(a[1])] if a[0] == 0 else ([unS(x) for x in a[1]] if a[0] == 1 else None)
            if vals is None or any(v not in cs for v in vals):
                return "answer-not-a-member-of-the-choices"
            if (a[0] == 1) != bool(c["multi"]):
                return "answer-shape-does-not-match-multi-select"
        # attempts: one line per round; an invalid entry prints one error unless it was the last allowed one
        if end[0] == 1 and c["att"] is not None and nread != c["att"] and c["att"] > 0:
            return "failed-after-wrong-number-of-attempts"
        if end[0] == 1 and c["att"] is None:
            return "failed-although-attempts-unlimited"
        if end[0] == 2 and nread != len(c["script"]):
            return "gave-up-before-end-of-input"
        invalid_rounds = nread - (1 if end[0] == 0 else 0)
        exp_err = invalid_rounds - (1 if end[0] == 1 else 0)
        if nerr != max(0, exp_err):
            return "errors-printed-do-not-match-invalid-entries"
    else:
        end, nread = o[:2]
        if not c["inter"]:
            return None if (end == [0, c["d"]] and nread == 0) else "non-interactive-confirmation"
        if not c["script"]:
            return None if end == [2] else "confirmation-at-end-of-input"
        t = c["script"][0].strip()
        exp = bool(c["d"]) if t == "" else t.lower().startswith(c["prefix"])
        if end != [0, int(exp)]:
            return "confirmation-answer"
    return None


def nontrivial_key(c, o):
    if c["k"] == 0 and c["inter"] and (o[0][2] >= 1 or c["multi"]):
        return [c[k] for k in ("cs", "multi", "d", "att", "script")] + [c.get("again")]
    if c["k"] == 1:
        return [c["inter"], c["d"], c["prefix"], c["script"]]
    return None
