"""C12 - listeners run by priority then registration order until propagation stops."""
import itertools

MODEL = "C12"
PROP_FILES = ["Props/C12.v"]
RULE = ("op sequences over {add(event in 2, priority in {-1,0,5}, stops?), dispatch(event in 3), get_listeners(e0), "
        "get_listeners()} followed by a fixed query suffix (has_listeners(None/e), get_listener_priority for every "
        "(event, listener), dispatch and get_listeners per event); exhaustive to the tier's length, seeded random to "
        "length 40; non-trivial = >= 2 registrations and >= 1 dispatch before the suffix; distinct by op sequence")
TRUSTED = ["each registration uses a fresh callable (the same callable registered twice is outside model and generator)"]
ASSUMPTIONS = ["listeners are distinct callables; priorities are ints"]

PRIOS = [-1, 0, 5]
ALPHA = [[0, e, p, s] for e in (0, 1) for p in PRIOS for s in (0, 1)] + [[1, e] for e in (0, 1, 2)] + [[3, 0], [4]]


def suffix(ops):
    n = sum(1 for o in ops if o[0] == 0)
    suf = [[2, None]] + [[2, [e]] for e in (0, 1, 2)]
    suf += [[5, e, l] for e in (0, 1) for l in range(n)]
    suf += [[3, e] for e in (0, 1, 2)] + [[1, e] for e in (0, 1, 2)] + [[4]]
    return suf


def gen(rng, tier, info):
    depth = {"quick": 4, "thorough": 5, "search": 3}[tier]
    nrand = {"quick": 20000, "thorough": 200000, "search": 20000}[tier]
    cases = []
    for k in range(0, depth + 1):
        for seq in itertools.product(ALPHA, repeat=k):
            cases.append({"ops": list(seq)})
    info["exhaustive"] = True
    n_ex = len(cases)
    lens = {}
    for _ in range(nrand):
        k = rng.randint(depth + 1, 40)
        lens[k // 10 * 10] = lens.get(k // 10 * 10, 0) + 1
        ops = []
        for _ in range(k):
            r = rng.random()
            if r < 0.55:
                ops.append([0, rng.randint(0, 1), rng.choice(PRIOS + [2, 7, -3]), 1 if rng.random() < 0.15 else 0])
            elif r < 0.8:
                ops.append([1, rng.randint(0, 2)])
            elif r < 0.9:
                ops.append([3, rng.randint(0, 2)])
            else:
                ops.append([4])
        cases.append({"ops": ops})
    info["distribution"] = {"exhaustive_sequences": n_ex, "exhaustive_max_len": depth, "random_sequences": nrand,
                            "random_len_histogram": {str(k): v for k, v in sorted(lens.items())}}
    return cases


def full_ops(case):
    return case["ops"] + suffix(case["ops"])


def wire(case):
    out = []
    for o in full_ops(case):
        if o[0] == 2:
            out.append([2, [] if o[1] is None else o[1]])
        else:
            out.append(o)
    return out


def describe(case):
    names = {0: "add", 1: "dispatch", 2: "has_listeners", 3: "get_listeners", 4: "get_listeners()", 5: "get_listener_priority"}
    return "ops (then query suffix): " + "; ".join("%s%s" % (names[o[0]], tuple(o[1:])) for o in case["ops"])


def run_impl(case):
    from clikit.api.event import EventDispatcher, Event
    d = EventDispatcher()
    log = []
    listeners = []

    def mk(lid, stops):
        def listener(event, event_name, dispatcher):
            log.append(lid)
            if stops:
                event.stop_propagation()
        listener.lid = lid
        return listener

    obs = []
    for o in full_ops(case):
        try:
            if o[0] == 0:
                l = mk(len(listeners), bool(o[3]))
                listeners.append(l)
                d.add_listener("e%d" % o[1], l, o[2])
                obs.append([0])
            elif o[0] == 1:
                del log[:]
                (d.dispatch("e%d" % o[1], Event()) if len(obs) % 2 else d.dispatch("e%d" % o[1]))
                obs.append([1, list(log)])
            elif o[0] == 2:
                r = d.has_listeners(None if o[1] is None else "e%d" % o[1][0])
                obs.append([2, 1 if r else 0])
            elif o[0] == 3:
                obs.append([3, [l.lid for l in d.get_listeners("e%d" % o[1])]])
            elif o[0] == 4:
                r = d.get_listeners()
                obs.append([4, [[int(k[1:]), [l.lid for l in v]] for k, v in r.items()]])
            elif o[0] == 5:
                p = d.get_listener_priority("e%d" % o[1], listeners[o[2]])
                obs.append([5, [] if p is None else [p]])
        except Exception as e:
            obs.append(["EXC", type(e).__name__])
    return obs


def _canon(obs):
    out = []
    for o in obs:
        if isinstance(o, list) and o and o[0] == 4:
            out.append([4, sorted(o[1])])
        else:
            out.append(o)
    return out


def canon_impl(case, obs):
    return _canon(obs)


def canon_model(case, obs):
    return _canon(obs)


def oracle(case, obs):
    """The property itself, on the real observations."""
    regs = []  # (ev, prio, lid, stops)
    for o, ob in zip(full_ops(case), obs):
        if ob and ob[0] == "EXC":
            return "exception:" + ob[1]
        if o[0] == 0:
            regs.append((o[1], o[2], len(regs), o[3]))
        elif o[0] in (1, 3):
            mine = sorted([r for r in regs if r[0] == o[1]], key=lambda r: (-r[1], r[2]))
            exp = [r[2] for r in mine]
            if o[0] == 1:
                cut = []
                for r in mine:
                    cut.append(r[2])
                    if r[3]:
                        break
                if ob[1] != cut:
                    return "dispatch-order"
            elif ob[1] != exp:
                return "get_listeners-order"
        elif o[0] == 2:
            exp = any(True for r in regs if o[1] is None or r[0] == o[1][0])
            if bool(ob[1]) != exp:
                return "has_listeners"
        elif o[0] == 5:
            exp = [r[1] for r in regs if r[0] == o[1] and r[2] == o[2]]
            if ob[1] != exp:
                return "get_listener_priority"
        elif o[0] == 4:
            evs = sorted(set(r[0] for r in regs))
            exp = [[e, [r[2] for r in sorted([r for r in regs if r[0] == e], key=lambda r: (-r[1], r[2]))]] for e in evs]
            if sorted(ob[1]) != exp:
                return "get_listeners-all"
    return None


def nontrivial_key(case, obs):
    ops = case["ops"]
    if sum(1 for o in ops if o[0] == 0) >= 2 and any(o[0] == 1 for o in ops):
        return ops
    return None


def shrink(case):
    ops = case["ops"]
    for i in range(len(ops)):
        yield {"ops": ops[:i] + ops[i + 1:]}


def neighbours(case):
    ops = case["ops"]
    for i in range(len(ops) + 1):
        for a in ([1, 0], [1, 1], [3, 0]):
            yield {"ops": ops[:i] + [a] + ops[i:]}
