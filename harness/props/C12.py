"""C12 - listeners run by priority then registration order until propagation stops."""
import itertools

MODEL = "C12"
MODEL_ENTRY = "run_C12XN"    # Model/Dispatcher.v: run_C12X (the extended alphabet, xstep; base ops behave as in run_C12) for a
                             # sequence without a dispatching listener, else run_C12N (the third layer, nstep)
PROP_FILES = ["Props/C12.v"]
RULE = ("op sequences over {add(event in 2, priority in {-1,0,5}, stops?), dispatch(event in 3), get_listeners(e0), "
        "get_listeners()} exhaustive to length 4 (quick) / 5 (thorough); over a mixed alphabet of 27 ops that adds "
        "has_listeners(e0 / None), get_listener_priority, add of an ALREADY REGISTERED callable (same event same priority, "
        "same event other priority, other event), add without a priority (default), dispatch of an ALREADY STOPPED event, and "
        "a listener that registers a new listener while it is called (same event at a lower / equal / higher priority, other "
        "event): exhaustive to length 3, and to length 4 (quick) / 5 (thorough) over 14 of them; seeded random sequences to "
        "length 40 over all op kinds (priorities from {-1, 0, 5, 2, 7, -3} and, in 30 % of the draws, from 20 values up to 2^40 "
        "around the byte and word limits); the three events are called by one of six NAME SETS (e0/e1/e2; dotted names that are "
        "prefixes of each other; names differing only in case or a trailing blank; '', ' ', '*'); callables are of three kinds by "
        "creation order - a function, a function with other parameter names, a bound method of which every use (registration "
        "again, get_listener_priority) fetches a new equal object; NESTED dispatches - a listener that dispatches a later event on "
        "the dispatcher it is handed - exhaustive to length 3 (quick) / 4 (thorough) over 19 ops and in a fifth of the random "
        "sequences (model: the third layer of Model/Dispatcher.v, entry run_C12N, theorem nrun_refines; the oracle computes the "
        "expected flat call log from the registrations on its own; every dispatch, outer or nested, hands ITS name, ITS one event "
        "object and the dispatcher to its listeners); every sequence is followed by a fixed query suffix "
        "(has_listeners(None/e), get_listener_priority for every (event, callable), dispatch and get_listeners per event); "
        "registrations go straight to an EventDispatcher, or through ApplicationConfig.add_event_listener (dispatcher made "
        "on demand / set beforehand); every listener records the (event, event_name, dispatcher) it is called with and the "
        "value dispatch returns is recorded; non-trivial = >= 2 registrations and >= 1 dispatch before the suffix; distinct "
        "by (op sequence, registration route)")
TRUSTED = ["callables are identified by creation order; a listener created by another listener during a dispatch gets the next id "
           "at that moment (harness and model count alike)",
           "nested dispatches: a dispatching callable is registered again only for events before the one it dispatches (harness, "
           "oracle and model skip the op otherwise: no cycles); the model's dispatch takes fuel 8, the generator nests 3 deep at most"]
ASSUMPTIONS = ["priorities are ints",
               "for an event where one callable is registered more than once the oracle says nothing about multiplicity, order "
               "and get_listener_priority (the statement's 'each once' does not decide whether that is one listener or two); the "
               "model, which is the code's behaviour - one call per registration, first bucket in dict order - is still compared",
               "an event handed to dispatch with propagation already stopped reaches no listener (the title's 'until propagation "
               "stops'); the listener signature (event, event_name, dispatcher) and dispatch returning the event are the "
               "documented contract of the anchored class"]

PRIOS = [-1, 0, 5]
# priorities beyond one digit / one byte / one machine word (random histories only; the statement's "3 values" are any 3)
BIG_PRIOS = [2, 7, -3, 10, 11, -10, 100, 127, 128, 129, -128, -129, 255, 256, 1000, -1000, 65536, 2 ** 31, -2 ** 31 - 1, 2 ** 40]
# what the three events are called: the model knows events by number; the dispatcher must keep APART names that are prefixes
# of each other, dotted "namespaces", names that differ in case or in surrounding blanks, the empty name
NAMESETS = [["e0", "e1", "e2"],
            ["console.pre-handle", "console", "console.pre-handle.late"],
            ["pre-handle", "PRE-HANDLE", "pre-handle "],
            ["", " ", "*"],
            ["a.b", "a.b.c", "a"],
            ["config", "Config", "config.x"]]
ALPHA = [[0, e, p, s] for e in (0, 1) for p in PRIOS for s in (0, 1)] + [[1, e] for e in (0, 1, 2)] + [[3, 0], [4]]
# op kinds beyond the base alphabet: 2 has_listeners, 5 get_listener_priority(event, callable), 6 add an already registered
# callable again [6, event, priority, callable], 7 add with the default priority [7, event, stops], 8 dispatch an already
# stopped event, 9 add a listener that registers a new listener when called [9, event, priority, event2, priority2]
XNEW = [[2, [0]], [2, None], [5, 0, 0], [5, 1, 0], [5, 0, 1],
        [6, 0, 0, 0], [6, 0, 5, 0], [6, 1, 0, 0], [6, 0, 0, 1],
        [7, 0, 0], [7, 0, 1], [7, 1, 0],
        [8, 0], [8, 1],
        [9, 0, 0, 0, 0], [9, 0, 0, 0, 5], [9, 0, 5, 0, -1], [9, 0, 0, 1, 0]]
MIX = [[0, 0, 0, 0], [0, 0, 0, 1], [0, 0, 5, 0], [0, 0, 5, 1], [0, 1, 0, 0], [1, 0], [1, 1], [3, 0], [4]] + XNEW
MIX4 = [[0, 0, 0, 0], [0, 0, 5, 0], [0, 0, 0, 1], [1, 0], [3, 0], [4], [2, [0]], [5, 0, 0],
        [6, 0, 0, 0], [6, 0, 5, 0], [7, 0, 0], [8, 0], [9, 0, 0, 0, 0], [9, 0, 0, 0, 5]]
# NESTED dispatch: op 10 = add a listener that, when called, dispatches another event on the dispatcher it is handed
# [10, event, priority, event2, stops] (event2 > event: no cycles).  Model: the third layer of Model/Dispatcher.v (nstep,
# run_C12N; theorem nrun_refines); the oracle computes the expected flat call log from the registrations on its own.
NEST = [[10, 0, 0, 1, 0], [10, 0, 5, 1, 0], [10, 0, 0, 1, 1], [10, 0, 0, 2, 0], [10, 1, 0, 2, 0], [10, 1, 5, 2, 1],
        [0, 0, 0, 0], [0, 0, 5, 0], [0, 0, 0, 1], [0, 1, 0, 0], [0, 1, 5, 1], [0, 1, -1, 0], [0, 2, 0, 0], [0, 2, 0, 1],
        [9, 1, 0, 1, 5], [9, 1, 0, 0, 5], [1, 0], [1, 1], [8, 0]]


def n_static(ops):
    """callables the ops themselves create (those a listener creates during a dispatch come on top)"""
    return sum(1 for o in ops if o[0] in (0, 7, 9, 10))


def is_nested(case):
    return any(o[0] == 10 for o in case["ops"])


def suffix(ops):
    n = n_static(ops) + (2 if any(o[0] == 9 for o in ops) else 0)
    suf = [[2, None]] + [[2, [e]] for e in (0, 1, 2)]
    suf += [[5, e, l] for e in (0, 1) for l in range(n)]
    suf += [[3, e] for e in (0, 1, 2)] + [[1, e] for e in (0, 1, 2)] + [[4]]
    return suf


def rand_prio(rng):
    return rng.choice(PRIOS + [2, 7, -3]) if rng.random() < 0.7 else rng.choice(BIG_PRIOS)


def rand_ops(rng, k, nested=False):
    ops, nc = [], 0
    for _ in range(k):
        r = rng.random()
        e = rng.randint(0, 1)
        p = rand_prio(rng)
        if nested and r < 0.12:
            e = rng.randint(0, 1)
            ops.append([10, e, p, rng.randint(e + 1, 2), 1 if rng.random() < 0.2 else 0])
            nc += 1
        elif nested and r < 0.20:
            ops.append([0, 2, p, 1 if rng.random() < 0.2 else 0])         # somebody to hear the innermost event
            nc += 1
        elif r < 0.34:
            ops.append([0, e, p, 1 if rng.random() < 0.15 else 0])
            nc += 1
        elif r < 0.40:
            ops.append([7, e, 1 if rng.random() < 0.15 else 0])
            nc += 1
        elif r < 0.47:
            ops.append([9, e, p, rng.randint(0, 1), rand_prio(rng)])
            nc += 1
        elif r < 0.56:
            ops.append([6, e, p, rng.randrange(nc + 1)])
        elif r < 0.76:
            ops.append([1, rng.randint(0, 2)])
        elif r < 0.80:
            ops.append([8, rng.randint(0, 1)])
        elif r < 0.86:
            ops.append([3, rng.randint(0, 2)])
        elif r < 0.90:
            ops.append([4])
        elif r < 0.95:
            ops.append([2, rng.choice([None, [0], [1], [2]])])
        else:
            ops.append([5, e, rng.randrange(nc + 2)])
    return ops


def gen(rng, tier, info):
    depth = {"quick": 4, "thorough": 5, "search": 3}[tier]
    nrand = {"quick": 20000, "thorough": 200000, "search": 20000}[tier]
    cases = []
    for k in range(0, depth + 1):
        for seq in itertools.product(ALPHA, repeat=k):
            # the event names rotate through NAMESETS (the model knows events by number)
            cases.append({"ops": list(seq), "names": len(cases) % len(NAMESETS)} if k >= 2 else {"ops": list(seq)})
    n_base = len(cases)
    for k in range(1, 4):
        for seq in itertools.product(MIX, repeat=k):
            if any(o[0] in (2, 5, 6, 7, 8, 9) for o in seq):
                cases.append({"ops": list(seq), "via": len(cases) % 4, "names": (len(cases) // 4) % len(NAMESETS)})
    n_mix = len(cases) - n_base
    for k in range(4, depth + 1):
        for seq in itertools.product(MIX4, repeat=k):
            if any(o[0] in (2, 5, 6, 7, 8, 9) for o in seq):
                cases.append({"ops": list(seq), "via": 0})
    n_mix4 = len(cases) - n_base - n_mix
    # nested dispatches: every sequence of <= 3 (quick) / 4 (thorough) ops of NEST with a dispatching listener
    # and an outer dispatch after it, + random ones
    n_nest = 0
    for k in range(2, {"quick": 3, "thorough": 4, "search": 3}[tier] + 1):
        for seq in itertools.product(NEST, repeat=k):
            first = next((i for i, o in enumerate(seq) if o[0] == 10), None)
            if first is not None and any(o[0] == 1 and o[1] <= 1 for o in seq[first + 1:]):
                cases.append({"ops": list(seq), "via": n_nest % 3, "names": n_nest % len(NAMESETS)})
                n_nest += 1
    info["exhaustive"] = True
    lens = {}
    n_rand_nested = 0
    for i in range(nrand):
        k = rng.randint(depth + 1, 40)
        lens[k // 10 * 10] = lens.get(k // 10 * 10, 0) + 1
        nested = i % 5 == 4
        n_rand_nested += nested
        cases.append({"ops": rand_ops(rng, k, nested), "via": rng.randint(0, 3), "names": rng.randrange(len(NAMESETS))})
    info["distribution"] = {"exhaustive_sequences_base_alphabet": n_base, "exhaustive_max_len": depth,
                            "exhaustive_sequences_mixed_alphabet_len_<=3": n_mix,
                            "exhaustive_sequences_14_op_mixed_alphabet_len_4..%d" % depth: n_mix4,
                            "exhaustive_sequences_with_a_nested_dispatch": n_nest,
                            "random_sequences": nrand, "of_which_with_nested_dispatches": n_rand_nested,
                            "event_name_sets": len(NAMESETS), "priorities_in_random_sequences": sorted(set(PRIOS + [2, 7, -3] + BIG_PRIOS)),
                            "random_len_histogram": {str(k): v for k, v in sorted(lens.items())},
                            "note": "the statement's 'exhaustive to length 7' is not what runs: 17^7 sequences; see RULE"}
    return cases


def full_ops(case):
    return case["ops"] + suffix(case["ops"])


def wire(case):
    out = []
    for o in full_ops(case):
        if o[0] == 2:
            out.append([2, [] if o[1] is None else o[1]])
        else:
            out.append(o)
    return out


def describe(case):
    names = {0: "add", 1: "dispatch", 2: "has_listeners", 3: "get_listeners", 4: "get_listeners()", 5: "get_listener_priority",
             6: "add-registered-callable-again(event, priority, callable)", 7: "add-with-default-priority(event, stops)",
             8: "dispatch-already-stopped-event", 9: "add-listener-that-registers(event, priority, event2, priority2)",
             10: "add-listener-that-dispatches(event, priority, event2, stops)"}
    via = ["EventDispatcher.add_listener", "ApplicationConfig.add_event_listener (dispatcher made on demand)",
           "ApplicationConfig.add_event_listener (dispatcher set beforehand)",
           "ApplicationConfig.add_event_listener, the dispatcher taken from the configuration ONCE, before any registration (as ConsoleApplication does)"][case.get("via", 0)]
    return "registrations through %s; events 0,1,2 are called %r; callable k is a function (k %% 3 = 0), a function with other parameter names (1), a bound method fetched anew for every use (2); ops (then query suffix): " % (via, NAMESETS[case.get("names", 0)]) + \
        "; ".join("%s%s" % (names[o[0]], tuple(o[1:])) for o in case["ops"])


def run_impl(case):
    import types
    from clikit.api.event import EventDispatcher, Event
    via = case.get("via", 0)
    evname = NAMESETS[case.get("names", 0)]
    config = None
    if via == 0:
        disp = [EventDispatcher()]
    else:
        from clikit.api.config.application_config import ApplicationConfig
        config = ApplicationConfig()
        if via == 2:
            config.set_event_dispatcher(EventDispatcher())
        disp = [config.dispatcher]

    def d():
        # through the configuration the dispatcher exists once something is registered; before that nothing is
        # registered anywhere, which is what an unused dispatcher answers.  via 3: the dispatcher is asked for ONCE, before
        # anything is registered, and kept - as ConsoleApplication and Command do at construction (fix cc21fd1: a listener
        # added to the configuration afterwards was never called); no dispatcher = nobody is called
        if disp[0] is None and config is not None and via != 3:
            disp[0] = config.dispatcher
        return disp[0] if disp[0] is not None else EventDispatcher()

    # one frame per dispatch in progress (the harness's own, or one made by a listener): [event name, event object handed in
    # or None, calls made by THIS dispatch as (callable id, event, event name, dispatcher)]
    frames = []
    flat = []         # callable ids of the running outer dispatch in call order, nested ones included
    bad_args = []
    getters = []      # creation order = id; getters[k]() is the object handed to the API for callable k
    target = []       # per callable: the event it dispatches when called, or None

    def check_frame(fr, dd, ret):
        """the listeners of one dispatch were handed its name, its dispatcher and ONE event object: the one given, else a new
        one - which dispatch returns"""
        name, ev, calls = fr
        ok = all(c[2] == name and c[3] is dd and isinstance(c[1], Event) for c in calls) and len(set(id(c[1]) for c in calls)) <= 1 \
            and (ev is None or all(c[1] is ev for c in calls))
        ret_ok = isinstance(ret, Event) and (ret is ev if ev is not None else all(c[1] is ret for c in calls))
        return ok, ret_ok

    def mk(stops, registers, dispatches=None):
        cid = len(getters)

        def body(event, event_name, dispatcher):
            if frames:
                # a new event object per dispatch: never the one of the dispatch this one is nested in
                if len(frames) > 1 and any(c[1] is event for c in frames[-2][2]):
                    bad_args.append(cid)
                frames[-1][2].append((cid, event, event_name, dispatcher))
            flat.append(cid)
            if stops:
                event.stop_propagation()
            if registers is not None:
                # uses the dispatcher it was handed, as a listener does
                dispatcher.add_listener(evname[registers[0]], mk(False, None), registers[1])
            if dispatches is not None:
                fr = [evname[dispatches], None, []]
                frames.append(fr)
                try:
                    ret = dispatcher.dispatch(evname[dispatches])
                finally:
                    frames.pop()
                ok, ret_ok = check_frame(fr, dispatcher, ret)
                if not (ok and ret_ok):
                    bad_args.append(cid)

        # three kinds of callable: a function, a function whose parameters have other names, a bound method of which every
        # use fetches a NEW object (equal, not identical - what `config.method` gives each time it is written)
        if cid % 3 == 0:
            def listener(event, event_name, dispatcher):
                body(event, event_name, dispatcher)
            listener.cid = cid
            get = lambda: listener
        elif cid % 3 == 1:
            def listener(e, n, dsp):
                body(e, n, dsp)
            listener.cid = cid
            get = lambda: listener
        else:
            def on_event(self, event, event_name, dispatcher):
                body(event, event_name, dispatcher)
            on_event.cid = cid
            holder = type("Holder", (), {})()
            get = lambda: types.MethodType(on_event, holder)
        getters.append(get)
        target.append(dispatches)
        return get()

    def add(ev, l, prio=None):
        name = evname[ev]
        if config is not None:
            (config.add_event_listener(name, l) if prio is None else config.add_event_listener(name, l, prio))
        else:
            (d().add_listener(name, l) if prio is None else d().add_listener(name, l, prio))

    obs = []
    for step, o in enumerate(full_ops(case)):
        try:
            if o[0] == 0:
                add(o[1], mk(bool(o[3]), None), o[2])
                obs.append([0])
            elif o[0] == 7:
                add(o[1], mk(bool(o[2]), None))
                obs.append([0])
            elif o[0] == 9:
                add(o[1], mk(False, (o[3], o[4])), o[2])
                obs.append([0])
            elif o[0] == 10:
                add(o[1], mk(bool(o[4]), None, o[3]), o[2])
                obs.append([0])
            elif o[0] == 6:
                # a callable that dispatches event t is registered again only for events < t (no cycles)
                if o[3] < len(getters) and (target[o[3]] is None or o[1] < target[o[3]]):
                    add(o[1], getters[o[3]](), o[2])
                obs.append([0])
            elif o[0] in (1, 8):
                del flat[:], bad_args[:]
                dd = d()
                name = evname[o[1]]
                if o[0] == 8:
                    ev = Event()
                    ev.stop_propagation()
                elif step % 2:
                    ev = Event()
                else:
                    ev = None
                fr = [name, ev, []]
                frames.append(fr)
                try:
                    ret = dd.dispatch(name) if ev is None else dd.dispatch(name, ev)
                finally:
                    frames.pop()
                args_ok, ret_ok = check_frame(fr, dd, ret)
                obs.append([1, list(flat), [int(args_ok and not bad_args), int(ret_ok)]])
            elif o[0] == 2:
                r = d().has_listeners(None if o[1] is None else evname[o[1][0]])
                obs.append([2, 1 if r else 0])
            elif o[0] == 3:
                obs.append([3, [l.cid for l in d().get_listeners(evname[o[1]])]])
            elif o[0] == 4:
                r = d().get_listeners()
                obs.append([4, [[evname.index(k), [l.cid for l in v]] for k, v in r.items()]])
            elif o[0] == 5:
                l = getters[o[2]]() if o[2] < len(getters) else (lambda event, event_name, dispatcher: None)
                p = d().get_listener_priority(evname[o[1]], l)
                obs.append([5, [] if p is None else [p]])
        except Exception as e:
            obs.append(["EXC", type(e).__name__])
    return obs


def _canon(obs):
    out = []
    for o in obs:
        if isinstance(o, list) and o and o[0] == 4:
            out.append([4, sorted(o[1])])
        elif isinstance(o, list) and o and o[0] == 1:
            out.append([1, o[1]])      # the call-argument / return-value flags are the oracle's business
        else:
            out.append(o)
    return out


def canon_impl(case, obs):
    return _canon(obs)


def canon_model(case, obs):
    return _canon(obs)


def oracle(case, obs):
    """The property itself, on the real observations."""
    regs = []   # (ev, prio, callable id, registration index)
    cal = []    # per callable: (stops, registers, dispatches)

    def new(ev, prio, stops, registers, dispatches=None):
        cal.append((stops, registers, dispatches))
        regs.append((ev, prio, len(cal) - 1, len(regs)))

    def order(ev):
        return sorted([r for r in regs if r[0] == ev], key=lambda r: (-r[1], r[3]))

    def repeated(ev):
        cs = [r[2] for r in regs if r[0] == ev]
        return len(cs) != len(set(cs))

    def run(ev, log, touched):
        """what a dispatch of ev calls, in call order, dispatches made by the called listeners included: the registrations
        of ev AS THEY ARE WHEN THIS DISPATCH STARTS, highest priority first, registration order within a priority, up to the
        first listener that stops; every listener acts (registers / dispatches) when it is called"""
        touched.add(ev)
        for r in order(ev):
            c = r[2]
            log.append(c)
            if cal[c][1] is not None:
                new(cal[c][1][0], cal[c][1][1], False, None)
            if cal[c][2] is not None:
                run(cal[c][2], log, touched)
            if cal[c][0]:
                break

    for o, ob in zip(full_ops(case), obs):
        if ob and ob[0] == "EXC":
            return "exception:" + ob[1]
        if o[0] == 0:
            new(o[1], o[2], bool(o[3]), None)
        elif o[0] == 7:
            new(o[1], 0, bool(o[2]), None)          # registered without a priority: the default, 0
        elif o[0] == 9:
            new(o[1], o[2], False, (o[3], o[4]))
        elif o[0] == 10:
            new(o[1], o[2], bool(o[4]), None, o[3])
        elif o[0] == 6:
            if o[3] < len(cal) and (cal[o[3]][2] is None or o[1] < cal[o[3]][2]):
                regs.append((o[1], o[2], o[3], len(regs)))
        elif o[0] in (1, 8):
            if ob[2][0] != 1:
                return "listener-call-arguments"
            if ob[2][1] != 1:
                return "dispatch-return-value"
            if o[0] == 8:
                if ob[1] != []:
                    return "stopped-event-reached-a-listener"
                continue
            before = list(regs)                     # the registrations SO FAR: what a listener registers meanwhile is not among them
            mine = [r[2] for r in order(o[1])]
            nested = any(cal[c][2] is not None for c in mine)
            log, touched = [], set()
            run(o[1], log, touched)
            if not any(repeated(e) for e in touched) and ob[1] != log:
                return "nested-dispatch-order" if nested else "dispatch-order"
            # a listener of another event, or one registered only during this dispatch, is never called - whatever the
            # multiplicities (with nested dispatches: of none of the events dispatched meanwhile)
            allowed = set(r[2] for r in regs if r[0] in touched)
            if not nested:
                allowed = set(r[2] for r in before if r[0] == o[1])
            if any(c not in allowed for c in ob[1]):
                return "dispatch-called-a-listener-not-registered-for-the-event-so-far"
        elif o[0] == 3:
            if not repeated(o[1]) and ob[1] != [r[2] for r in order(o[1])]:
                return "get_listeners-order"
        elif o[0] == 2:
            exp = any(True for r in regs if o[1] is None or r[0] == o[1][0])
            if bool(ob[1]) != exp:
                return "has_listeners"
        elif o[0] == 5:
            mine = [r[1] for r in regs if r[0] == o[1] and r[2] == o[2]]
            if len(mine) <= 1 and ob[1] != mine:
                return "get_listener_priority"
            if len(mine) > 1 and (len(ob[1]) != 1 or ob[1][0] not in mine):
                return "get_listener_priority"
        elif o[0] == 4:
            evs = sorted(set(r[0] for r in regs))
            if sorted(x[0] for x in ob[1]) != evs:
                return "get_listeners-all"
            for e, ls in ob[1]:
                if not repeated(e) and ls != [r[2] for r in order(e)]:
                    return "get_listeners-all"
    return None


def nontrivial_key(case, obs):
    ops = case["ops"]
    if sum(1 for o in ops if o[0] in (0, 6, 7, 9, 10)) >= 2 and any(o[0] == 1 for o in ops):
        return [ops, case.get("via", 0), case.get("names", 0)]
    return None


def _with(case, **kw):
    d = {k: v for k, v in case.items()}
    d.update(kw)
    return d


def shrink(case):
    ops = case["ops"]
    for i in range(len(ops)):
        yield _with(case, ops=ops[:i] + ops[i + 1:])
    if case.get("via", 0):
        yield _with(case, via=0)
    if case.get("names", 0):
        yield _with(case, names=0)
    for i, o in enumerate(ops):
        # a smaller priority
        if o[0] in (0, 6, 9, 10) and abs(o[2]) > 5:
            for p in (5, 0, 1 if o[2] > 0 else -1):
                yield _with(case, ops=ops[:i] + [o[:2] + [p] + o[3:]] + ops[i + 1:])


def neighbours(case):
    ops = case["ops"]
    for i in range(len(ops) + 1):
        for a in ([1, 0], [1, 1], [3, 0]):
            yield _with(case, ops=ops[:i] + [a] + ops[i:])
