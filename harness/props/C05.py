"""C05 - parsing is a pure function of the command line, the format and the mode."""
import itertools, copy, json
from hutil import S, unS, canon_floats, canon_floats_w
import parsergen as G
from props import C01 as L
from props import C02 as M
import translate_c05

MODEL = "C05"
PROP_FILES = ["Props/C05.v"]
RULE = ("histories of parse requests on ONE DefaultArgsParser.  Pool of requests = 31 fixed lines over 5 formats (two of them sharing "
        "every name with another but not the flags) + fixed lines over base formats, a command option, the 'cmd11' argument name, "
        "grouped and glued short options + requests drawn from the seed out of C01's generator (a valid spelling over a generated "
        "format: base levels, command names, groups) and C02's (a single-fault mutation, a token soup); every line strict and "
        "lenient.  All histories of length 1-2 over the pool, with format objects built per request and with one object per format "
        "(quick; thorough adds length 3 over the 41 original requests), seeded random to length 6, a third of them through two+ "
        "CommandConfig objects sharing one parser via set_args_parser / Command.parse, half of those with a leniency setting per "
        "configuration and a third of their requests NOT SAYING a mode (Command.parse(raw): the configuration decides, whatever "
        "earlier requests named).  Formats 5 and 6 are twins of format 1 in everything but the DEFAULTS.  Each result compared with "
        "a fresh parser's AND with what a process answers that has imported the library and never parsed anything (one forked "
        "child per distinct request; a history that differs anywhere is run again on its own in such a child and judged there); "
        "argv list, RawArgs tokens/option_tokens/script name/text and the format's listings (own and base chain, aliases, command "
        "options) snapshotted before/after; every Args returned is read again at the end of the history.  Next to that the state-"
        "taking model of Props/C05.v (parse_obj: the maps reset at entry are a parameter) is compared with the real body of parse() "
        "run with the rebinding of _options / _arguments / both disabled (histories over one format: all pairs of the pool's "
        "requests on it + random to length 6): model and code must leak alike.  Non-trivial = >= 2 "
        "requests of which >= 1 sets an option; distinct by history")
TRUSTED = ["'does not alter the list / raw arguments / format it was handed' is about Python aliasing: carried by snapshot comparison (testing)",
           "the reference 'what a fresh parser gives' is taken in a forked child of a process that only imported clikit (os.fork in the "
           "worker): state outside the parser object - module, class, format / option objects - shows as "
           "'result-differs-from-a-process-that-never-parsed-anything'",
           "harness/translate_c05.py: the model's parse starts from empty scratch maps because the source of DefaultArgsParser.parse "
           "assigns fresh OrderedDicts to self._arguments and self._options before anything else (AST check, re-run by every C05 check)"]
ASSUMPTIONS = ["exhaustive to length 2 (quick) / 3 over the 41 original requests (thorough), not the 6 of the quantifier; lengths 3..6 are sampled"]

EXTRA = ["zz"]
# formats 3 and 4 are "twins" of 0 and 2: the same option / argument / command names with other flags and aliases, so that
# anything a parser remembers by NAME about an earlier format shows (seeded change C05-d)
FORMATS = [G.SMALL_FORMATS[21], G.SMALL_FORMATS[37], G.SMALL_FORMATS[31],
           [[G.opt("verbose", "v", G.REQ_V), G.opt("opt", "o", G.NO_VALUE), G.arg("a1", G.A_OPT | G.A_MULTI)]],
           [[G.cname("server", []), G.cname("add", ["srv"]), G.opt("verbose", "v", G.NO_VALUE), G.opt("may", "m", G.REQ_V), G.arg("am", G.A_REQ)]],
           # formats 5 and 6 are twins of 1 and of each other in everything but the DEFAULTS (names, short names, flags, order
           # all equal): whatever a parser - or the module it lives in - keeps about "a format that lists this" shows (audit
           # mutant C05-4: a module-level memo of the flat format keyed by names and flags)
           [[G.opt("verbose", "v", G.NO_VALUE), G.opt("num", "n", G.REQ_V | G.O_INT, 3), G.opt("may", "m", G.OPT_V, "other"),
             G.opt("mul", "l", G.MULTI_V, ["m0"]), G.opt("quiet", None, G.NO_VALUE), G.arg("a1", G.A_REQ), G.arg("a2", G.A_OPT, "D2"),
             G.arg("am", G.A_MULTI, ["r0"])]],
           [[G.opt("verbose", "v", G.NO_VALUE), G.opt("num", "n", G.REQ_V | G.O_INT), G.opt("may", "m", G.OPT_V),
             G.opt("mul", "l", G.MULTI_V), G.opt("quiet", None, G.NO_VALUE), G.arg("a1", G.A_REQ), G.arg("a2", G.A_OPT),
             G.arg("am", G.A_MULTI)]]]
LINES = [
    [0, ["x"]], [0, ["--opt", "v", "x"]], [0, ["-v", "x"]], [0, ["x", "y"]], [0, ["--zz"]], [0, []],
    [1, ["x", "--num=5", "--mul", "a", "--mul", "b"]], [1, ["x"]], [1, ["x", "--num=abc"]], [1, ["x", "-v", "--may"]],
    [1, ["--quiet"]], [1, ["x", "y", "z1", "z2"]],
    [2, ["server", "add", "--may=1", "p", "q"]], [2, ["p"]], [2, ["server", "-v"]], [2, ["--may", "--", "-v"]],
    [0, ["x", "--", "y", "z"]], [0, ["-v", "--opt"]], [1, ["x", "--mul", "a", "--zz"]], [2, ["server", "--", "--may"]],
    [0, ["--", "--opt"]], [1, ["--", "x", "y", "--num"]],
    [0, ["x y"]], [0, ["--opt", "v x"]], [0, ["--opt", "v", "x"]],       # different argv lists that join to the same text (C05-g)
    [3, ["-v", "x", "y"]], [3, ["--opt", "x", "y"]], [3, ["x"]], [4, ["server", "srv", "--may", "1", "p"]], [4, ["srv", "p"]], [4, ["--may"]],
    [5, ["x", "--may"]], [5, ["x"]], [6, ["x", "-v", "--may"]], [6, ["x"]],           # the default-only twins of format 1 (whose lines 6..11 stand above)
]
POOL = [[fi, 0, toks] for fi, toks in LINES] + [[fi, 1, toks] for fi, toks in LINES[:8] + LINES[16:18]]

# more fixed requests: base formats (#33, #34), the argument named like the parser's first pseudo-argument (#39 after #28),
# a command option in the format, grouped / glued short options, multi-valued options twice
CO_FMT = [[G.cname("server", ["srv"]), G.copt("remove", "r", ["rm", "D"]), G.opt("verbose", "v", G.NO_VALUE), G.opt("quiet", "q", G.NO_VALUE),
           G.opt("opt", "o", G.REQ_V, "dflt"), G.arg("a1", G.A_REQ)]]
WITNESS_FMT = [[G.opt("num", "n", G.REQ_V | G.O_INT), G.arg("port", G.A_OPT | G.A_INT, 80)]]
MORE = [
    (G.SMALL_FORMATS[33], ["server", "x", "--opt=1", "y"]), (G.SMALL_FORMATS[33], ["srv", "-v", "x"]), (G.SMALL_FORMATS[33], ["-vo1"]),
    (G.SMALL_FORMATS[34], ["server", "add", "--mul", "a", "-lb", "x", "y", "z"]), (G.SMALL_FORMATS[34], ["x", "--mul"]),
    (G.SMALL_FORMATS[28], ["server", "x"]), (G.SMALL_FORMATS[39], ["server", "x"]), (G.SMALL_FORMATS[39], ["x"]),
    (G.SMALL_FORMATS[37], ["-vn5", "x"]), (G.SMALL_FORMATS[37], ["x", "-vl", "a", "-lb", "--", "-v"]),
    # the witness of Props/C05.v reuse_unfixed_refuted (ReuseWitness.H_opts / H_args): replayed on the real parse() body with the
    # reset disabled, and on the parser as it is
    (WITNESS_FMT, ["--num", "5"]), (WITNESS_FMT, []), (WITNESS_FMT, ["8080"]),
    (CO_FMT, ["srv", "-vqoX", "x"]), (CO_FMT, ["-vq", "x"]), (CO_FMT, ["x", "--remove"]), (CO_FMT, ["-vr", "x"]), (CO_FMT, ["-qvo"]),
]


def drawn_requests(rng, n_formats):
    """requests out of C01's and C02's generators over formats drawn from the seed: (levels, lenient, tokens)"""
    out = []
    for i in range(n_formats):
        lv = G.rand_levels(rng, nopts=rng.randint(1, 4), nargs=rng.randint(0, 3), nbase=(0, 1, 2)[i % 3], ncn=(0, 1, 2, 1)[i % 4],
                           short_flags=(2, 0, 3)[i % 3], short_valued=(1, 0)[i % 2])
        asg = L.assignments(lv, rng, 1, max_multi=2)[0]
        lines = L.spell_all(lv, asg, rng, limit=3, group_bias=0.6)
        if not lines:
            continue
        entries = lines[0]
        segs = L.group_segments(entries)
        good = L.finish(L.grouped(entries, max(segs, key=lambda s: s[1] - s[0])) if segs else entries)[0]
        out.append((lv, rng.randint(0, 1), good))
        fl = M.faults(entries, lv, rng)
        name, bad = rng.choice(fl)
        out.append((lv, rng.randint(0, 1), bad))
        if i % 2 == 0:
            al = M.alphabet(lv)
            out.append((lv, rng.randint(0, 1), [rng.choice(al) for _ in range(rng.randint(1, 4))]))
    return out


def build_pool(rng, tier):
    pool = [(FORMATS[fi], ln, toks) for fi, ln, toks in POOL]
    core = len(pool)
    pool += [(FORMATS[fi], 1, toks) for fi, toks in LINES[8:16] + LINES[18:]]            # lenient mode on all
    for lv, toks in MORE:
        pool += [(lv, 0, toks), (lv, 1, toks)]
    pool += drawn_requests(rng, {"quick": 8, "thorough": 24, "search": 4}[tier])
    return pool, core


def mk_case(reqs, share):
    """reqs: [(levels, lenient, tokens)] -> a case whose "fmts" holds the distinct formats it uses"""
    fmts, keys, out = [], {}, []
    for lv, ln, toks in reqs:
        k = json.dumps(lv, sort_keys=True)
        if k not in keys:
            keys[k] = len(fmts)
            fmts.append(lv)
        out.append([keys[k], ln, list(toks)])
    return {"fmts": fmts, "reqs": out, "share": share}


def via_ok(lv):
    return len(lv) == 1 and all(e["k"] in ("o", "a") for e in lv[0])


def mk_via_case(reqs, rng=None):
    """the same history through Command.parse of command configurations sharing one parser: every format gets the command
    name of its configuration in front.  With rng: every configuration has its own leniency setting ("cfgl": 0 strict,
    1 lenient) and about a third of the requests do not say a mode (2): Command.parse(raw) - the configuration decides,
    whatever mode earlier requests named"""
    c = mk_case(reqs, 1)
    c["fmts"] = [[[G.cname("c%d" % i, [])] + lv[0]] for i, lv in enumerate(c["fmts"])]
    c["via"] = 1
    if rng is not None:
        c["cfgl"] = [rng.randint(0, 1) for _ in c["fmts"]]
        c["reqs"] = [[fi, 2 if rng.random() < 0.35 else ln, toks] for fi, ln, toks in c["reqs"]]
    return c


def mode_of(c, r):
    """the leniency a request is parsed with: what it says, else what its command's configuration says"""
    return c["cfgl"][r[0]] if r[1] == 2 else r[1]


def gen(rng, tier, info):
    depth = {"quick": 2, "thorough": 3, "search": 2}[tier]
    nrand = {"quick": 3000, "thorough": 30000, "search": 2000}[tier]
    pool, core = build_pool(rng, tier)
    cases = []
    for r in pool:
        cases.append(mk_case([r], 0))
    # all histories of length 2: format objects built for each request (and dropped) / ONE format object per format for the
    # whole history (an application keeps its formats; whatever a parser remembers about "the same format, the same text"
    # shows there, C05-g); with kept objects every Args is read again at the end
    for a in pool:
        for b in pool:
            cases.append(mk_case([a, b], 0))
            cases.append(mk_case([a, b], 1))
    if depth >= 3:
        for seq in itertools.product(range(core), repeat=3):
            cases.append(mk_case([pool[i] for i in seq], 0))
    n_ex = len(cases)
    eligible = [r for r in pool if via_ok(r[0])]
    n_via = 0
    for a in eligible[:40]:
        for b in eligible[:40]:
            cases.append(mk_via_case([a, b], rng if n_via % 2 else None))
            n_via += 1
    for i in range(nrand):
        k = rng.randint(3, 6)
        if i % 3 == 2:
            cases.append(mk_via_case([rng.choice(eligible) for _ in range(k)], rng if i % 2 else None))
            n_via += 1
        else:
            cases.append(mk_case([rng.choice(pool) for _ in range(k)], rng.randrange(3)))
    # the state-taking model (Model/Parser.v parse_from / parse_obj; Props/C05.v reuse_unfixed_refuted) against the real body
    # of parse() with the rebinding of a scratch map at entry DISABLED: 1 = only _arguments reset (the code before the
    # repair), 2 = only _options, 3 = none.  Here re-use is expected to differ from fresh - model and code must leak alike.
    # Histories over ONE format (any lines, both modes): what one format leaves in the maps has the shape the same format
    # expects; across formats the code meets shapes (a text where a list is expected) the model does not describe.
    n_unreset = 0
    by_fmt = {}
    for r in pool:
        by_fmt.setdefault(json.dumps(r[0], sort_keys=True), []).append(r)
    groups = sorted(by_fmt.values(), key=lambda g: -len(g))
    def kinds(g):
        # a leftover CommandName object in _arguments is a value the model writes as its name (Parser.v flatten): formats
        # with command names only with _arguments reset
        return (1,) if G.fmt_cnames(g[0][0]) else (1, 2, 3)
    for g in groups:
        for a in g:
            for b in g:
                for r in kinds(g):
                    c = mk_case([a, b], 0)
                    c["resets"] = r
                    cases.append(c)
                    n_unreset += 1
    for i in range(nrand // 3):
        g = rng.choice(groups[:12])
        c = mk_case([rng.choice(g) for _ in range(rng.randint(3, 6))], 0)
        c["resets"] = rng.choice(kinds(g))
        cases.append(c)
        n_unreset += 1
    info["exhaustive"] = True
    info["distribution"] = {"pool": len(pool), "histories_on_a_parser_with_a_reset_disabled": n_unreset, "pool_original_requests": core, "pool_formats": len(set(json.dumps(r[0], sort_keys=True) for r in pool)),
                            "pool_lenient": sum(1 for r in pool if r[1]), "exhaustive": n_ex, "random": nrand, "max_len_exhaustive": depth,
                            "through_shared_parser_of_command_configs": n_via}
    return cases


def case_fmts(c):
    return c["fmts"] if "fmts" in c else FORMATS


def wire(c):
    w = [[G.wire_levels(f) for f in case_fmts(c)], [[r[0], mode_of(c, r), [S(t) for t in r[2]]] for r in c["reqs"]], [S(x) for x in EXTRA]]
    return w + [c["resets"]] if c.get("resets") else w


def describe(c):
    fm = case_fmts(c)
    used = sorted(set(r[0] for r in c["reqs"]))
    how = ("one parser whose parse() does not reset %s: " % {1: "_options", 2: "_arguments", 3: "_arguments/_options"}[c["resets"]]) if c.get("resets") else \
          "commands sharing one parser (set_args_parser): " if c.get("via") else \
          {0: "one parser: ", 1: "one parser, one format object per format: ", 2: "one parser, every object kept: "}[c.get("share", 0)]
    return how + "; ".join("fmt#%d %s %r" % (r[0], ["strict", "lenient", "mode not said (configuration: %s)" % ("lenient" if c.get("cfgl") and c["cfgl"][r[0]] else "strict")][r[1]], r[2]) for r in c["reqs"]) + \
        " where " + "; ".join("fmt#%d = %s" % (i, G.fmt_shape(fm[i])) for i in used)


def _fmt_vector(fmt):
    """everything the format lists: own elements and, recursively, the base chain"""
    if fmt is None:
        return None
    return [list(fmt.get_arguments().keys()), list(fmt.get_options().keys()), [c.string for c in fmt.get_command_names()],
            [(a.name, a.flags, repr(a.default)) for a in fmt.get_arguments().values()],
            [(o.long_name, o.short_name, o.flags, repr(o.default)) for o in fmt.get_options().values()],
            [(c.string, list(c.aliases)) for c in fmt.get_command_names()],
            [(o.long_name, o.short_name, list(o.long_aliases), list(o.short_aliases)) for o in fmt.get_command_options()],
            [list(fmt.get_arguments(False).keys()), list(fmt.get_options(False).keys()), [c.string for c in fmt.get_command_names(False)],
             [o.long_name for o in fmt.get_command_options(False)]],
            _fmt_vector(fmt.base_format)]


def _build_format(levels):
    from clikit.api.args.format import ArgsFormat
    fmt = None
    for lvl in levels:
        fmt = ArgsFormat([G.mk_element(e) for e in lvl], fmt)
    return fmt


def _via_commands(fmts, shared, cfgl=None):
    """one CommandConfig per format, all using the same parser object; the format of a command = its name + its elements"""
    from clikit.api.config.command_config import CommandConfig
    from clikit.api.command.command import Command
    cmds = []
    for i, lv in enumerate(fmts):
        cfg = CommandConfig(lv[0][0]["name"])
        cfg.set_args_parser(shared)
        if cfgl is not None:
            (cfg.enable_lenient_args_parsing if cfgl[i] else cfg.disable_lenient_args_parsing)()
        for e in lv[0][1:]:
            d = e["default"]
            d = list(d) if isinstance(d, list) else d
            if e["k"] == "o":
                cfg.add_option(e["long"], e["short"], e["flags"], None, d)
            else:
                cfg.add_argument(e["name"], e["flags"], None, d)
        cmds.append(Command(cfg))
    return cmds


_SOURCE_FACT = []


def source_resets_at_entry():
    """1 when the source the parser class was imported from still starts parse() by resetting both scratch maps and keeps
    no other state on the object (harness/translate_c05.py; what C05's model assumes), else 0.  Once per worker."""
    if not _SOURCE_FACT:
        import inspect
        from clikit.args import DefaultArgsParser
        try:
            translate_c05.check(path=inspect.getsourcefile(DefaultArgsParser))
            _SOURCE_FACT.append(1)
        except Exception:
            _SOURCE_FACT.append(0)
    return _SOURCE_FACT[0]


# ---------------------------------------------------------------- the reference: a process that has never parsed anything
# "What a fresh parser gives" is computed, for every request, in a process forked from a server that was itself forked from
# this worker BEFORE the worker parsed anything and that only imports the library: whatever the library keeps anywhere - on
# the parser, its class, its module, the Args / format classes - a request evaluated there meets the state of a just-imported
# library.  (A new DefaultArgsParser() in the worker shares every module-level and class-level object with the parser under
# test: an audit mutant that memoised the flat format in a module dict gave 'reused == fresh' on 37 000 histories.)
# One child per request; answers are memoised per (format description, mode, tokens) - a function of the request by construction.
# The HISTORY of a case runs in the worker first; when anything in it differs from the reference (or from a new parser, or a
# snapshot changed) it is run AGAIN in such a child and that run is what is reported: there it meets the state of a just-
# imported library plus what the history itself did, so a history reported as failing fails again when it is replayed alone
# (in the worker a history also meets whatever the cases before it left in the library's modules).  A fork per case for
# every case costs 10 ms a case; on a tree without such state no history is run twice.
_REF = {}


def _ref_answer(req):
    from clikit.args import DefaultArgsParser
    if req[0] == "hist":
        return _run_history(req[1])
    levels, lenient, toks = req[1]
    return G.parse_once(DefaultArgsParser(), _build_format(levels), toks, bool(lenient), EXTRA)


def _ref_server(rfd, wfd):
    import os, signal
    signal.signal(signal.SIGALRM, signal.SIG_DFL)
    import clikit.args, clikit.api.args.format, clikit.api.command.command, clikit.api.config.command_config      # import only
    fin = os.fdopen(rfd, "r")
    for line in fin:
        rid, req = json.loads(line)
        r2, w2 = os.pipe()
        pid = os.fork()
        if pid == 0:
            try:
                ans = [rid, _ref_answer(req)]
            except BaseException as e:
                ans = [rid, ["REF-EXC", type(e).__name__, str(e)[:200]]]
            try:
                os.write(w2, (json.dumps(ans) + "\n").encode())
            finally:
                os._exit(0)
        os.close(w2)
        chunks = []
        while True:
            b = os.read(r2, 65536)
            if not b:
                break
            chunks.append(b)
        os.close(r2)
        os.waitpid(pid, 0)
        data = b"".join(chunks) or (json.dumps([rid, ["REF-DIED"]]) + "\n").encode()
        os.write(wfd, data)
    os._exit(0)


def pristine(levels, lenient, toks):
    """the observation of parse(tokens, format, mode) in a process that has never parsed anything"""
    key = json.dumps([levels, int(bool(lenient)), list(toks)], sort_keys=True)
    if key in _REF.setdefault("memo", {}):
        return _REF["memo"][key]
    ans = _ref_call(["req", [levels, int(bool(lenient)), list(toks)]])
    _REF["memo"][key] = ans
    return ans


def _ref_call(req):
    import os
    if "to" not in _REF:
        r1, w1 = os.pipe()
        r2, w2 = os.pipe()
        pid = os.fork()
        if pid == 0:
            os.close(w1)
            os.close(r2)
            try:
                _ref_server(r1, w2)
            finally:
                os._exit(0)
        os.close(r1)
        os.close(w2)
        _REF.update({"to": w1, "from": os.fdopen(r2, "r"), "n": 0})
    _REF["n"] += 1
    rid = _REF["n"]
    os.write(_REF["to"], (json.dumps([rid, req]) + "\n").encode())
    while True:
        line = _REF["from"].readline()
        if not line:
            raise RuntimeError("reference process closed")
        got, ans = json.loads(line)
        if got == rid:            # (an answer to a request whose case timed out meanwhile is skipped)
            break
    if isinstance(ans, list) and ans and ans[0] in ("REF-EXC", "REF-DIED"):
        raise RuntimeError("reference process: %r" % (ans,))
    return ans


_UNRESET = {}


def unreset_class(r):
    """DefaultArgsParser whose parse() runs the real body but can no longer rebind self._options (r = 1), self._arguments
    (r = 2) or either (r = 3): the attribute becomes a property that keeps the object created by __init__ and ignores later
    assignments.  (translate_c05 checks that parse entry and __init__ are the only places that rebind them.)"""
    if r not in _UNRESET:
        from clikit.args import DefaultArgsParser

        def sticky(slot):
            def get(self):
                return self.__dict__[slot]

            def set_(self, v):
                if slot not in self.__dict__:
                    self.__dict__[slot] = v
            return property(get, set_)
        ns = {}
        if r in (2, 3):
            ns["_arguments"] = sticky("_kept_arguments")
        if r in (1, 3):
            ns["_options"] = sticky("_kept_options")
        _UNRESET[r] = type("UnresetParser%d" % r, (DefaultArgsParser,), ns)
    return _UNRESET[r]


def run_impl(c):
    # the reference answers come first: the server is forked before this worker has parsed anything
    if c.get("resets"):
        return _run_history(c) + [source_resets_at_entry(), []]
    pristine_out = [pristine(case_fmts(c)[r[0]], mode_of(c, r), r[2]) for r in c["reqs"]]
    h = _run_history(c)
    if h[1] != pristine_out or h[1] != h[2] or not h[3] or not h[4]:
        h = _ref_call(["hist", c])            # judged on what it does on its own
    return h + [source_resets_at_entry(), pristine_out]


def _run_history(c):
    from clikit.args import DefaultArgsParser, ArgvArgs
    from hutil import err
    shared = unreset_class(c["resets"])() if c.get("resets") else DefaultArgsParser()
    fmts = case_fmts(c)
    share = c.get("share", 0)
    out, fresh_out, untouched, reread = [], [], 1, 1
    kept = {}
    held = []          # with kept objects: (format, its listing, argv, copy, raw, tokens, option tokens, text, Args or None, first observation)
    cmds = _via_commands(fmts, shared, c.get("cfgl")) if c.get("via") else None
    for fi, said, toks in c["reqs"]:
        lenient = mode_of(c, [fi, said])
        # a format object built for this request only (and dropped afterwards) - or, with "share", one object per format
        # for the whole history
        if cmds is not None:
            fmt = cmds[fi].args_format
        elif share == 1 and fi in kept:
            fmt = kept[fi]
        else:
            fmt = _build_format(fmts[fi])
            if share == 1:
                kept[fi] = fmt
        before = _fmt_vector(fmt)
        argv = ["script"] + list(toks)
        argv_before = list(argv)
        raw = ArgvArgs(argv)
        tok_before, opt_before, text_before = list(raw.tokens), list(raw.option_tokens), (raw.script_name, raw.to_string())
        a, obs = None, None
        try:
            if cmds is not None:
                a = cmds[fi].parse(raw) if said == 2 else cmds[fi].parse(raw, bool(lenient))
            else:
                a = shared.parse(raw, fmt, bool(lenient))
            obs = G.observe_args(fmt, a, EXTRA)
            out.append([0, obs])
        except Exception as e:
            out.append(err(e))
        if argv != argv_before or raw.tokens != tok_before or raw.option_tokens != opt_before or \
           (raw.script_name, raw.to_string()) != text_before or _fmt_vector(fmt) != before:
            untouched = 0
        fresh_out.append(G.parse_once(DefaultArgsParser(), fmt, toks, bool(lenient), EXTRA))
        if share or cmds is not None:
            held.append((fmt, before, argv, argv_before, raw, tok_before, opt_before, text_before, a, obs))
        del fmt, raw, a
    # what was handed in and what was handed out earlier is still what it was
    for fmt, before, argv, argv_before, raw, tok_before, opt_before, text_before, a, obs in held:
        if argv != argv_before or raw.tokens != tok_before or raw.option_tokens != opt_before or \
           (raw.script_name, raw.to_string()) != text_before or _fmt_vector(fmt) != before:
            untouched = 0
        if a is not None and G.observe_args(fmt, a, EXTRA) != obs:
            reread = 0
    return [0, out, fresh_out, untouched, reread]


def canon_impl(c, o):
    return canon_floats([0, o[1]])


def canon_model_w(c, w):
    return canon_floats_w(w)


def oracle(c, o):
    if c.get("resets"):
        # a deliberately broken parser: nothing to demand of it; the model (parse_obj) must predict what it does
        return None
    if not o[3]:
        return "parse-altered-its-inputs"
    if len(o) > 4 and not o[4]:
        return "earlier-result-changed-by-a-later-parse"
    for i, (a, b) in enumerate(zip(o[1], o[2])):
        if a != b:
            return "reused-parser-differs-from-fresh"
    for a, b in zip(o[1], o[6] if len(o) > 6 else []):
        if a != b:
            # equal to a new parser object in this process, but not to what a process that never parsed anything answers:
            # the state sits outside the parser object (module, class, format / option objects)
            return "result-differs-from-a-process-that-never-parsed-anything"
    if len(o) > 5 and not o[5]:
        # nothing wrong seen on this history, but the fact the model's theorems rest on no longer holds for the source
        return "source-of-parse-no-longer-resets-its-scratch-first-or-keeps-other-state"
    return None


def nontrivial_key(c, o):
    if len(c["reqs"]) >= 2 and any(any(t.startswith("-") and t != "--" for t in r[2]) for r in c["reqs"]):
        return [c.get("fmts"), c["reqs"], c.get("share", 0), c.get("via", 0), c.get("resets", 0)]
    return None


def shrink(c):
    r = c["reqs"]
    for i in range(len(r)):
        d = dict(c)
        d["reqs"] = r[:i] + r[i + 1:]
        yield d
    for i in range(len(r)):
        for j in range(len(r[i][2])):
            d = dict(c)
            d["reqs"] = r[:i] + [[r[i][0], r[i][1], r[i][2][:j] + r[i][2][j + 1:]]] + r[i + 1:]
            yield d
