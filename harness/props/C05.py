"""C05 - parsing is a pure function of the command line, the format and the mode."""
import itertools, copy
from hutil import S, unS, canon_floats, canon_floats_w
import parsergen as G

MODEL = "C05"
PROP_FILES = ["Props/C05.v"]
RULE = ("histories of parse requests on ONE DefaultArgsParser: all sequences of length 1-2 (quick) / 1-3 (thorough) over a pool of 38 "
        "requests (5 formats, two of them sharing every name with another but not the flags, x strict/lenient x succeeding lines and each error kind), seeded random to length 6; each result compared "
        "with a fresh parser's; argv list, RawArgs tokens/option_tokens and the format's listings snapshotted before/after; non-trivial = >= 2 requests of which >= 1 sets "
        "an option; distinct by history")
TRUSTED = ["'does not alter the list / raw arguments / format it was handed' is about Python aliasing: carried by snapshot comparison (testing)"]
ASSUMPTIONS = []

EXTRA = ["zz"]
# formats 3 and 4 are "twins" of 0 and 2: the same option / argument / command names with other flags and aliases, so that
# anything a parser remembers by NAME about an earlier format shows (seeded change C05-d)
FORMATS = [G.SMALL_FORMATS[21], G.SMALL_FORMATS[37], G.SMALL_FORMATS[31],
           [[G.opt("verbose", "v", G.REQ_V), G.opt("opt", "o", G.NO_VALUE), G.arg("a1", G.A_OPT | G.A_MULTI)]],
           [[G.cname("server", []), G.cname("add", ["srv"]), G.opt("verbose", "v", G.NO_VALUE), G.opt("may", "m", G.REQ_V), G.arg("am", G.A_REQ)]]]
LINES = [
    [0, ["x"]], [0, ["--opt", "v", "x"]], [0, ["-v", "x"]], [0, ["x", "y"]], [0, ["--zz"]], [0, []],
    [1, ["x", "--num=5", "--mul", "a", "--mul", "b"]], [1, ["x"]], [1, ["x", "--num=abc"]], [1, ["x", "-v", "--may"]],
    [1, ["--quiet"]], [1, ["x", "y", "z1", "z2"]],
    [2, ["server", "add", "--may=1", "p", "q"]], [2, ["p"]], [2, ["server", "-v"]], [2, ["--may", "--", "-v"]],
    [0, ["x", "--", "y", "z"]], [0, ["-v", "--opt"]], [1, ["x", "--mul", "a", "--zz"]], [2, ["server", "--", "--may"]],
    [0, ["--", "--opt"]], [1, ["--", "x", "y", "--num"]],
    [0, ["x y"]], [0, ["--opt", "v x"]], [0, ["--opt", "v", "x"]],       # different argv lists that join to the same text (C05-g)
    [3, ["-v", "x", "y"]], [3, ["--opt", "x", "y"]], [3, ["x"]], [4, ["server", "srv", "--may", "1", "p"]], [4, ["srv", "p"]], [4, ["--may"]],
]
POOL = [[fi, 0, toks] for fi, toks in LINES] + [[fi, 1, toks] for fi, toks in LINES[:8] + LINES[16:18]]


def gen(rng, tier, info):
    depth = {"quick": 2, "thorough": 3, "search": 2}[tier]
    nrand = {"quick": 3000, "thorough": 30000, "search": 2000}[tier]
    cases = []
    for k in range(1, depth + 1):
        for seq in itertools.product(range(len(POOL)), repeat=k):
            cases.append({"reqs": [POOL[i] for i in seq]})
    # the same histories of length 2 with ONE format object per format for the whole history (an application keeps its
    # formats): whatever a parser remembers about "the same format, the same text" shows here (C05-g)
    for seq in itertools.product(range(len(POOL)), repeat=2):
        cases.append({"reqs": [POOL[i] for i in seq], "share": 1})
    n_ex = len(cases)
    for _ in range(nrand):
        k = rng.randint(depth + 1, 6)
        cases.append({"reqs": [POOL[rng.randrange(len(POOL))] for _ in range(k)], "share": rng.randrange(2)})
    info["exhaustive"] = True
    info["distribution"] = {"pool": len(POOL), "exhaustive": n_ex, "random": nrand, "max_len_exhaustive": depth}
    return cases


def wire(c):
    return [[G.wire_levels(f) for f in FORMATS], [[r[0], r[1], [S(t) for t in r[2]]] for r in c["reqs"]], [S(x) for x in EXTRA]]


def describe(c):
    return ("one parser, one format object per format: " if c.get("share") else "one parser: ") + "; ".join("fmt#%d %s %r" % (r[0], "lenient" if r[1] else "strict", r[2]) for r in c["reqs"])


def _fmt_vector(fmt):
    return [list(fmt.get_arguments().keys()), list(fmt.get_options().keys()), [c.string for c in fmt.get_command_names()],
            [(a.name, a.flags, repr(a.default)) for a in fmt.get_arguments().values()],
            [(o.long_name, o.short_name, o.flags, repr(o.default)) for o in fmt.get_options().values()]]


def run_impl(c):
    from clikit.args import DefaultArgsParser, ArgvArgs
    from clikit.api.args.format import ArgsFormat
    shared = DefaultArgsParser()
    out, fresh_out, untouched = [], [], 1
    kept = {}
    for fi, lenient, toks in c["reqs"]:
        # a format object built for this request only (and dropped afterwards) - or, with "share", one object per format
        # for the whole history
        if c.get("share") and fi in kept:
            fmt = kept[fi]
        else:
            fmt = None
            for lvl in FORMATS[fi]:
                fmt = ArgsFormat([G.mk_element(e) for e in lvl], fmt)
            if c.get("share"):
                kept[fi] = fmt
        before = _fmt_vector(fmt)
        argv = ["script"] + list(toks)
        argv_before = list(argv)
        raw = ArgvArgs(argv)
        tok_before, opt_before = list(raw.tokens), list(raw.option_tokens)
        try:
            a = shared.parse(raw, fmt, bool(lenient))
            out.append([0, G.observe_args(fmt, a, EXTRA)])
        except Exception as e:
            from hutil import err
            out.append(err(e))
        if argv != argv_before or raw.tokens != tok_before or raw.option_tokens != opt_before or _fmt_vector(fmt) != before:
            untouched = 0
        fresh_out.append(G.parse_once(DefaultArgsParser(), fmt, toks, bool(lenient), EXTRA))
        del fmt, raw
    return [0, out, fresh_out, untouched]


def canon_impl(c, o):
    return canon_floats([0, o[1]])


def canon_model_w(c, w):
    return canon_floats_w(w)


def oracle(c, o):
    if not o[3]:
        return "parse-altered-its-inputs"
    for i, (a, b) in enumerate(zip(o[1], o[2])):
        if a != b:
            return "reused-parser-differs-from-fresh"
    return None


def nontrivial_key(c, o):
    if len(c["reqs"]) >= 2 and any(any(t.startswith("-") and t != "--" for t in r[2]) for r in c["reqs"]):
        return c["reqs"]
    return None


def shrink(c):
    r = c["reqs"]
    for i in range(len(r)):
        yield {"reqs": r[:i] + r[i + 1:], "share": c.get("share", 0)}
