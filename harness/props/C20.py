"""C20 - error traces always render and show the real message and failing line.

Three kinds of case:
  kind 0  a whole render: a generated program (file on disk, exec'd source-less code, vendor module, recursion, chained
          causes ...) raises an exception; ExceptionTrace(e).render(io, simple) on a BufferedIO at some verbosity; the bytes
          and the io.write_line calls are compared with the model, which gets the frames / token streams / paths the run saw;
  kind 1  the highlighter alone on a real Python file (split_to_lines, code_snippet at some line);
  kind 2  crashtest's FrameCollection.compact on a frame sequence (the model of compact is tied to the library).
"""
import itertools, os, sys, io, re, json
from hutil import S, unS

MODEL = "C20"
PROP_FILES = ["Props/C20.v"]
CASE_TIMEOUT = 60
RULE = ("kind 0: generated programs (raise site x surrounding statements from a pool with markup-like text, non-ASCII, tabs, multi-line "
        "strings and calls, backslash continuations, comments ending in a backslash, f-strings) x origin (file, exec'd source-less code "
        "under ordinary and markup-like file names, module-level code incl. a failure on line 1..4 of its file, a vendor module, files of "
        "more than 1000 lines) x recursion depth drawn uniformly from 1..60 (self and mutual) x chained causes (raise .. from, raised while "
        "handling; and 14 shapes of __cause__ / __context__ chain linked after the program raised: plain, self-cause, self-context, cycles "
        "of two by cause / by context, a mixed cycle of three, a cycle behind a link, from None over a context, 3000 links by cause / by "
        "context, a cause with markup in name and message / with a broken __str__ / offering a solution) x 36 messages (incl. CR, FF, "
        "VT, FS/GS/RS, NEL, U+2028, a final line break, the same escape twice, two and three backslashes before '<') x 20 exception types (two with a broken __str__; SystemExit, KeyboardInterrupt, a BaseException subclass, an ExceptionGroup) x 4 verbosities x UTF-8 "
        "on/off x plain/ANSI x simple/full x 8 ignore patterns (absolute prefix, everything, nothing, relative fragments that re.match "
        "must NOT honour, the program's own file) x working/home directory; kind 1: the highlighter on real Python files of the "
        "repository and the standard library and on generated texts (tab-indented, non-ASCII, 1200 lines, every fourth with CRLF and every "
        "fourth with lone-CR line ends); kind 2: compact on frame "
        "sequences. non-trivial = distinct (site, origin, recursion, verbosity, message class) / file / sequence")
TRUSTED = ["tokenize, inspect and crashtest (Inspector, Frame) are outside clikit: their outputs (token streams, frames, file contents) are "
           "INPUTS of the model, taken from the same run; the hypotheses the theorems put on token streams (wf_tokens) are checked on "
           "every token stream of the run by the harness (validated, not proved); FrameCollection.compact is modelled and tied (kind 2)",
           "re.match(ignore, filename), os.getcwd(), expanduser('~') are inputs; pastel is the model of C11 (Markup.v), tied here again "
           "through the bytes"]
ASSUMPTIONS = ["exceptions that were raised (non-empty traceback); an exception object that was never raised renders nothing by design of "
               "_render_exception and is outside the quantifier",
               "the class-level caches (ExceptionTrace._FRAME_SNIPPET_CACHE, crashtest Frame._content_cache) are cleared between cases and "
               "every case uses fresh file names: staleness across renders is C17's subject",
               "'verbatim' = equal up to trailing white space; lines without any token (a lone continuation backslash) are not claimed"]

MSGS = ["boom", "", "two\nlines", "naïve é λ ✓", "<error>open", "close</error>", "</b>", "<b>bold</b> and <c1>x</c1>", "a < b > c",
        "trailing backslash \\", "back\\<slash", "<fg=red>x</>", "\\", "tab\there", "  padded  ", "<", "ends with <", "</>", "100% {braces}",
        "\x1b[31mred\x1b[0m", "three\n\n  lines\\\nlast", "<fg=nope>y", "\\<b>", "x" * 300,
        # characters str.splitlines() takes for line ends although "\n" is the only one the report knows, and a final line break
        "a\rb", "a\x0cb", "a\u2028b", "ends\n", "a\x85b", "v\x0bt and fs\x1cgs\x1drs\x1e.", "x\r\ny", "\n",
        # the same escape more than once in one text; several backslashes before a '<'; '<' and a backslash at the very end
        "a\\<b\\<c \\<d>", "two \\\\<b> three \\\\\\<", "<<>> \\<\\< <\\", "x<\\\ny\\<\nz\\"]
EXCS = ["RuntimeError", "ValueError", "KeyError", "Custom", "MarkupName", "ClosingName", "OSError", "SyntaxError", "Lib",
        "Sol0", "Sol1", "Sol2", "Sol3", "SolSelf", "StrRaises", "StrNone",
        # "any type": exceptions that are no Exception (what Application.run does not catch is C04's subject; the report must render)
        "SystemExit", "KeyboardInterrupt", "BaseCustom", "Group"]
N_PLAIN_EXCS = 9        # EXCS[9:14] offer solutions, EXCS[14:] have a broken __str__
STR_FAILED = "<exception str() failed>"      # what the report says instead of a message that cannot be had (as CPython's traceback does)
# solutions offered by the exception (crashtest ProvidesSolution / Solution): title, description, links
SOLUTIONS = {
    "Sol0": [("Use the other thing.", "Do this\nand then that.", ["https://example.org/docs"])],
    "Sol1": [("Use <b>tags</b>...", "wrap the text in <info>...</info>,\n  then close with </b>  ", ["https://x.y/<z>", "https://x.y/a?b=<c1>"])],
    "Sol2": [("Close </error>", "", []), ("Second \\", "ends with a backslash \\", ["l\\", "m"])],
    "Sol3": [("", "  \n\n<fg=nope>x", ["</>"])],
    "SolSelf": [("I am my own solution", "a < b\\<c", [])],
}
FNAMES = ["<string>", "<stdin>", "<b>", "</b>", "<fg=red>", "a<error>b", "<frozen x>", "weird\\"]

I = "{I}"
POOL = [
    ["import os"],
    ["# plain comment"],
    ["# <b>markup</b> in a comment </error>"],
    ["X = '<fg=red>text</>'"],
    ["NAME = 'naïve é λ ✓'  # ünïcode"],
    ['DOC = """multi', "line <b>string</b>", "  ends\"\"\" + 'tail'"],
    ["VALUES = [", "    1,", "    2,  # two", "]"],
    ["TOTAL = 1 + \\", "    2"],
    ["PATH = 'C:\\\\dir'  # C:\\"],
    [""],
    ["LT = 1 < 2 and 3 > 2"],
    ["def small(a, b=2):", I + "return a", ""],
    ["class K(object):", I + "'''doc <u>'''", I + "attr = 1"],
    ["F = f'{1}<b>{2!r}'"],
    ["if 1 < 2:", I + "Y = 1", "else:", I + "Y = 2"],
    ["S = 'it''s' \"q\" r'\\d+'; B = b'bytes'"],
    ["N = 0x1F + 1_000 + 1.5e3 + 2j"],
    ["L = lambda v: v  # λ"],
    ["T = (1,", "", "     2)"],
    ["W = 1   "],
    ["E = '''", "x \\", "'''"],
    ["G = f'a\\{1}'"],
    ["@staticmethod", "def deco():", I + "pass"],
    ["Z = {'k': [1, 2], 'self': None}  # print len self"],
    ["ASSERT = 1; assert ASSERT, \\", "    'msg'"],
    ["\\", "FIRST = 1  # the first token of the file is on line 2"],
    ["# page break below", "\f", "AFTER_FF = 1"],
    ["U = 'line\u2028sep' + 'nel\x85x'  # \x1c \x1d \x1e are not line ends for Python"],
    ["BR = f'{{braces}} {1:>{2}} {{'"],
    ['FF = """a', "b\x0cc \x0b d", 'e"""  # form feed and vertical tab inside a multi-line string'],
    ['MF = f"""x', "y", '{1}z"""  # a multi-line f-string whose literal part ends with a line break'],
    ['US = """a\u2028b\x85c', 'd"""'],
    ["RX = r'\\<a\\<b>' + r'\\\\<'  # \\< twice \\<, then \\\\<"],
]
BODY = [
    ["x = 1"],
    ["# comment <b>inside</b>"],
    ["y = 'é' + \"<c1>\""],
    ["z = [", I + "1,", "]"],
    ["if x:", I + "pass"],
    ['d = """', "  </error>", '"""'],
    ["w = x + \\", I + "1"],
    [""],
    ["for _i in range(1): pass  # loop \\"],
]
# raise sites: lines at the body indentation; FAIL(...) raises its last argument
SITES = [
    ["raise exc"],
    ["raise exc  # <error>trailing</error> \\"],
    ["value = fail(", I + "exc,", ")"],
    ["value = ('</b>' + fail(exc))"],
    ["total = 1 + \\", I + "fail(exc)"],
    ["return (lambda: fail(exc))()"],
    ["return list(fail(exc) for _ in [1])"],
    ['text = """a', '<b>b"""; raise exc'],
    ["fail('</b>',", I + "exc)"],
    ["try:", I + "{}['k']", "except KeyError:", I + "raise exc"],
    ["raise exc from ValueError('cause </b>')"],
    ["if True:", I + "if exc is not None:", I + I + "raise exc"],
]


# ignore patterns: none / the vendor directory (absolute prefix) / everything / nothing / a RELATIVE fragment of the vendor path (re.match
# anchors at the start: it ignores nothing) / a fragment that matches anywhere only with a leading .* / exactly the program's own file
IGNORES = [None, "vendor", ".*", "nomatch\\^", "vendor_pkg", "lib\\.py", ".*vendor_pkg", "progfile"]
# what the rendered exception is chained to (__cause__ / __context__), set on the exception object AFTER the generated program has
# raised it (so that its own traceback is the program's); every link but the exception itself was really raised (has a traceback).
# Python allows every one of these shapes and its own traceback printer copes with them; "any cause chain" of the property text
CHAINS = ["none", "plain-cause", "plain-context", "self-cause", "self-context", "two-cycle-cause", "two-cycle-context",
          "three-cycle-mixed", "from-none-with-context", "cause-3000-links", "context-3000-links", "markup-cause", "broken-str-cause",
          "cause-with-solution", "cycle-behind-a-link"]
LONG_CHAIN = 3000


def _case(**kw):
    c = {"kind": 0, "head": [], "body": [], "site": 0, "tail": [], "ind": "    ", "origin": "file", "vendor": 0, "rec": "none", "depth": 1,
         "msg": 0, "exc": 0, "verb": 0, "utf8": 1, "fmt": "plain", "simple": 0, "ignore": 0, "paths": 0, "pad": 0, "top": 0, "chain": 0}
    c.update(kw)
    return c


def gen(rng, tier, info):
    cases = []
    quick = tier != "thorough"
    # --- kind 0, systematic part: every site x verbosity; every message x simple/full; every exception type; every file name
    for s in range(len(SITES)):
        for v in range(4):
            cases.append(_case(site=s, verb=v, head=[1, 5], body=[2], tail=[8], msg=rng.randrange(len(MSGS))))
    for m in range(len(MSGS)):
        for simple in (0, 1):
            for fmt in ("plain", "ansi"):
                cases.append(_case(msg=m, simple=simple, fmt=fmt, verb=rng.randrange(4)))
    for e in range(len(EXCS)):
        for v in (0, 3):
            cases.append(_case(exc=e, verb=v, msg=rng.randrange(len(MSGS))))
    for e in range(N_PLAIN_EXCS, len(EXCS)):
        for fmt in ("plain", "ansi"):
            for u in (0, 1):
                cases.append(_case(exc=e, fmt=fmt, utf8=u, verb=rng.randrange(4)))
    for e in (EXCS.index("StrRaises"), EXCS.index("StrNone")):
        for simple in (0, 1):
            cases.append(_case(exc=e, simple=simple, verb=rng.randrange(4)))
    for fi in range(len(FNAMES)):
        for v in (0, 1, 3):
            cases.append(_case(origin="exec:%d" % fi, verb=v, site=rng.randrange(len(SITES))))
    for p in range(len(POOL)):
        # the failing line right below / above each pool statement
        cases.append(_case(head=[p], verb=3, site=0))
        cases.append(_case(tail=[p], verb=0, site=0))
    for origin in ("module", "module-exec", "latin1", "changed"):
        for v in (0, 1, 3):
            cases.append(_case(origin=origin, verb=v, head=[3, 7]))
            cases.append(_case(origin=origin, verb=v, head=[4, 15], body=[2]))      # non-ASCII text in the file
    for rec in ("self", "mutual"):
        for d in ([1, 2, 3, 5, 60] if quick else [1, 2, 3, 4, 5, 8, 13, 30, 60]):
            for v in (1, 3):
                cases.append(_case(rec=rec, depth=d, verb=v))
    for ign in range(1, len(IGNORES)):
        for v in range(4):
            cases.append(_case(vendor=1, ignore=ign, verb=v))
            if ign >= 4:
                cases.append(_case(vendor=1, ignore=ign, verb=v, rec="mutual", depth=3, fmt="ansi"))
                cases.append(_case(vendor=0, ignore=ign, verb=v, origin="exec:0"))
    # a failure on line 1..4 of its file (the window of the snippet is cut at the top), also as the only line
    for top in (1, 2, 3, 4):
        for v in (0, 3):
            for fmt in ("plain", "ansi"):
                cases.append(_case(origin="module", top=top, verb=v, fmt=fmt, tail=[0, 5] if top % 2 else []))
        cases.append(_case(origin="module-exec", top=top, verb=1))
        # ... the failing line being the LAST line of a file that does not end with a line break
        cases.append(_case(origin="module", top=top, verb=3, tail=[], nonl=1))
        cases.append(_case(origin="module", top=top, verb=0, tail=[], nonl=1, fmt="ansi"))
    # files of more than 1000 lines: four-digit line numbers (and 999 -> 1000 inside one snippet)
    for pad, v, fmt in ((1200, 0, "plain"), (1200, 3, "ansi"), (990, 0, "plain"), (994, 3, "plain"), (1200, 1, "plain")):
        cases.append(_case(pad=pad, verb=v, fmt=fmt, head=[5], rec="self", depth=2))
    # cause / context chains of every shape (cycles, thousands of links, causes with markup or without a message) x verbosity
    for ch in range(1, len(CHAINS)):
        for v in range(4):
            cases.append(_case(chain=ch, verb=v, msg=rng.randrange(len(MSGS)), fmt="ansi" if (ch + v) % 4 == 0 else "plain"))
        cases.append(_case(chain=ch, simple=1, verb=rng.randrange(4)))
        cases.append(_case(chain=ch, verb=1, site=9))        # raised inside an except block: Python sets a context of its own
        cases.append(_case(chain=ch, verb=3, site=10, exc=EXCS.index("Sol1")))   # raised with `from`: an explicit cause of its own
    # --- kind 0, random part
    n_rand = 350 if quick else 6000
    if tier == "search":
        n_rand = 400
    for _ in range(n_rand):
        origin = rng.choice(["file"] * 6 + ["exec:%d" % rng.randrange(len(FNAMES)), "module", "module-exec", "latin1", "changed"])
        cases.append(_case(
            head=[rng.randrange(len(POOL)) for _ in range(rng.randrange(0, 5))],
            body=[rng.randrange(len(BODY)) for _ in range(rng.randrange(0, 4))],
            tail=[rng.randrange(len(POOL)) for _ in range(rng.randrange(0, 4))],
            site=rng.randrange(len(SITES)), ind=rng.choice(["    ", "\t", "  "]), origin=origin,
            vendor=rng.randrange(2), rec=rng.choice(["none", "none", "self", "mutual"]), depth=rng.randint(1, 60),
            msg=rng.randrange(len(MSGS)), exc=rng.randrange(len(EXCS)), verb=rng.randrange(4), utf8=rng.randrange(2),
            fmt=rng.choice(["plain", "plain", "ansi"]), simple=int(rng.random() < 0.1), ignore=rng.randrange(len(IGNORES)), paths=rng.randrange(3),
            pad=rng.choice([0] * 30 + [996, 1100]), top=(rng.randint(1, 4) if origin in ("module", "module-exec") and rng.random() < 0.3 else 0),
            chain=(rng.randrange(1, len(CHAINS)) if rng.random() < 0.25 else 0)))
    n0 = len(cases)
    # --- kind 1: the highlighter alone on real files
    files = _corpus_files(quick)
    for f in files:
        n = _count_lines(f)
        for line in sorted(set([1, 2, max(1, n // 2), max(1, n - 1), n, n + 1, rng.randrange(1, n + 2)])):
            cases.append({"kind": 1, "file": f, "line": line, "before": rng.choice([2, 4]), "after": rng.choice([2, 4]), "utf8": rng.randrange(2)})
    # ... and on generated texts: tab-indented bodies, non-ASCII, form feed, a first token on line 2, 1200 lines
    for k in range(12 if quick else 120):
        cc = _case(head=[rng.randrange(len(POOL)) for _ in range(rng.randrange(1, 6))], body=[rng.randrange(len(BODY)) for _ in range(3)],
                   tail=[rng.randrange(len(POOL)) for _ in range(rng.randrange(0, 4))], site=rng.randrange(len(SITES)),
                   ind=("\t" if k % 2 == 0 else "  "), rec=rng.choice(["none", "mutual"]), pad=(1200 if k % 6 == 5 else 0))
        text, site_line = build_source(cc)
        n = len(text.split("\n"))
        # a text read without newline translation: Windows line ends (every fourth text), a lone CR (every fourth)
        if k % 3 == 2:
            text = text.rstrip("\n") + "  # no line break at the end of the file"
            n = len(text.split("\n"))
        if k % 4 == 1:
            text = text.replace("\n", "\r\n")
        elif k % 4 == 3:
            text = text.replace("\n", "\r")
        for line in sorted(set([1, 3, site_line, n - 1, n] + ([999, 1000, 1001] if cc["pad"] else []))):
            cases.append({"kind": 1, "file": "generated-%d" % k, "text": text, "line": line, "before": rng.choice([2, 4]), "after": rng.choice([2, 4]),
                          "utf8": rng.randrange(2)})
    n1 = len(cases) - n0
    # --- kind 2: compact on all frame sequences over 3 frames up to length 6/7, random longer ones
    maxlen = 6 if quick else 8
    for ln in range(0, maxlen + 1):
        for seq in itertools.product(range(3), repeat=ln):
            cases.append({"kind": 2, "seq": list(seq)})
    for _ in range(300 if quick else 5000):
        cases.append({"kind": 2, "seq": [rng.randrange(rng.choice([2, 3, 5])) for _ in range(rng.randrange(5, 40))]})
    info["exhaustive"] = False
    info["distribution"] = {"renders": n0, "highlighter_files": len(files), "highlighter_cases": n1, "compact_sequences": len(cases) - n0 - n1,
                            "cause_chain_shapes": len(CHAINS), "sites": len(SITES), "pool_statements": len(POOL), "messages": len(MSGS), "exception_types": len(EXCS),
                            "source-less file names": len(FNAMES)}
    return cases


def _corpus_files(quick):
    import sysconfig
    out = []
    for root in ["/repo/src/clikit", os.path.join(os.environ.get("CLIKIT_SRC", "/repo/src"), "clikit")][:1]:
        for d, _, fs in sorted(os.walk(root)):
            for f in sorted(fs):
                if f.endswith(".py"):
                    out.append(os.path.join(d, f))
    std = sysconfig.get_paths()["stdlib"]
    extra = ["textwrap.py", "tokenize.py", "keyword.py", "fnmatch.py", "glob.py", "string.py", "colorsys.py", "this.py", "abc.py",
             "bisect.py", "copy.py", "heapq.py", "shlex.py", "getopt.py", "contextlib.py", "dis.py"]
    for f in extra:
        p = os.path.join(std, f)
        if os.path.exists(p):
            out.append(p)
    out = [f for f in out if os.path.getsize(f) > 0]
    if quick:
        # a few files of the standard library and the repository's own non-ASCII file first, then a sample of small clikit files
        first = [f for f in out if os.path.basename(f) in ("keyword.py", "bisect.py", "colorsys.py", "fnmatch.py", "exception_trace.py")]
        out = [f for f in out if os.path.getsize(f) < 9000 and f not in first]
        out = first + out[::3][:36]
    else:
        out = [f for f in out if os.path.getsize(f) < 60000]
    return out


def _count_lines(f):
    try:
        return len(open(f, encoding="utf-8").read().split("\n"))
    except Exception:
        return 1


# ------------------------------------------------------------------ building and running a program
_STATE = {}


def _workdir():
    if "dir" not in _STATE:
        import tempfile, atexit, shutil
        d = tempfile.mkdtemp(prefix="clikit-verif-c20-", dir="/var/tmp")
        atexit.register(shutil.rmtree, d, True)
        _STATE["dir"] = d
        _STATE["n"] = 0
        _STATE["cwd0"] = os.getcwd()
        _STATE["home0"] = os.environ.get("HOME")
    _STATE["n"] += 1
    d = os.path.join(_STATE["dir"], "c%d" % _STATE["n"])
    os.makedirs(d)
    return d


def _expand(lines, ind, level):
    return [(ind * level + l.replace(I, ind)) if l else l for l in lines]


def build_source(c):
    """-> (source text, 1-based line number of the first physical line of the raise site)"""
    ind = c["ind"]
    out = []
    if c.get("top"):
        # module-level code that fails on line `top` (1..4) of its file
        fill = ["import os", "X = '<b>'  # é", "", "Y = [1,"]
        out = fill[:c["top"] - 1]
        if c["top"] == 4:
            out[2] = "# three"
            out += ["raise EXC  # line 4 </b> \\"]
        else:
            out += ["raise EXC"]
        for p in c["tail"]:
            out += _expand(POOL[p], ind, 0)
        return "\n".join(out) + ("" if c.get("nonl") else "\n"), c["top"]
    out += ["P%d = %d  # filler" % (i, i) for i in range(c.get("pad", 0))]
    for p in c["head"]:
        out += _expand(POOL[p], ind, 0)
    out += ["def fail(*a):", ind + "raise a[-1]", ""]
    if c["origin"] in ("module", "module-exec"):
        site_line = len(out) + 1
        out += ["exc = EXC", "if True:"] + _expand(["if exc is not None:", I + "raise exc"], ind, 1)
    else:
        rec = c["rec"]
        out += ["def work(depth, exc, call):"]
        for b in c["body"]:
            out += _expand(BODY[b], ind, 1)
        if rec == "self":
            out += _expand(["if depth > 1:", I + "return work(depth - 1, exc, call)"], ind, 1)
        elif rec == "mutual":
            out += _expand(["if depth > 1:", I + "return other(depth - 1, exc, call)"], ind, 1)
        site_line = len(out) + 1
        out += _expand(SITES[c["site"]], ind, 1)
        out += [""]
        if rec == "mutual":
            out += ["def other(depth, exc, call):", ind + "return work(depth, exc, call)  # back <b>", ""]
    for p in c["tail"]:
        out += _expand(POOL[p], ind, 0)
    if c["origin"] not in ("module", "module-exec"):
        out += ["def entry(depth, exc, call):", ind + "try:", ind * 2 + "call(work, depth, exc, call)", ind + "except BaseException as e:",
                ind * 2 + "return e"]
    return "\n".join(out) + "\n", site_line


def make_exc(kind, msg):
    name = EXCS[kind]
    if name == "RuntimeError":
        return RuntimeError(msg)
    if name == "ValueError":
        return ValueError(msg)
    if name == "KeyError":
        return KeyError(msg)
    if name == "Custom":
        class CustomFailure(Exception):
            def __str__(self):
                return "custom: " + self.args[0]
        return CustomFailure(msg)
    if name == "MarkupName":
        return type("<b>Boom</b>", (Exception,), {})(msg)
    if name == "ClosingName":
        return type("Boom</error>", (Exception,), {})(msg)
    if name == "OSError":
        return OSError(2, msg)
    if name == "SyntaxError":
        return SyntaxError(msg, ("some<b>file.py", 3, 1, "x = </b>\n"))
    if name == "SystemExit":
        return SystemExit(msg)
    if name == "KeyboardInterrupt":
        return KeyboardInterrupt(msg)
    if name == "BaseCustom":
        return type("Stop<b>", (BaseException,), {})(msg)
    if name == "Group":
        return ExceptionGroup(msg, [ValueError("inner </b>"), KeyError("k")])
    if name == "StrRaises":
        class NoMessage(Exception):
            def __str__(self):
                raise RuntimeError("this exception cannot say what happened")
        return NoMessage(msg)
    if name == "StrNone":
        class NoneMessage(Exception):
            def __str__(self):
                return None
        return NoneMessage(msg)
    if name.startswith("Sol"):
        from crashtest.contracts.base_solution import BaseSolution
        from crashtest.contracts.provides_solution import ProvidesSolution
        from crashtest.contracts.solution import Solution
        sols = []
        for t, d, ls in SOLUTIONS[name]:
            so = BaseSolution(t, d)
            so.documentation_links.extend(ls)
            sols.append(so)
        if name == "SolSelf":
            class SelfSolving(Exception, Solution):
                solution_title = SOLUTIONS[name][0][0]
                solution_description = SOLUTIONS[name][0][1]
                documentation_links = []
            return SelfSolving(msg)

        class Solvable(Exception, ProvidesSolution):
            @property
            def solution(self):
                return sols[0]
        if len(sols) > 1:
            class Both(Solvable, Solution):
                solution_title = sols[1].solution_title
                solution_description = sols[1].solution_description
                documentation_links = sols[1].documentation_links
            return Both(msg)
        return Solvable(msg)
    from clikit.api.exceptions import CliKitException

    class LibFailure(CliKitException):
        pass
    return LibFailure(msg)


def run_program(c):
    """Runs the generated program; returns the exception it raised (with its traceback) and context."""
    import warnings
    warnings.simplefilter("ignore")
    d = _workdir()
    src, site_line = build_source(c)
    exc = make_exc(c["exc"], MSGS[c["msg"]])
    origin = c["origin"]
    vendor_dir = os.path.join(d, "vendor_pkg")
    os.makedirs(vendor_dir)
    vpath = os.path.join(vendor_dir, "lib.py")
    with open(vpath, "w") as f:
        f.write("# vendor code\ndef call(fn, *a):\n    return fn(*a)  # <b>vendor</b>\n")
    vns = {}
    exec(compile(open(vpath).read(), vpath, "exec"), vns)
    direct_src = "def call(fn, *a):\n    return fn(*a)\n"
    lpath = os.path.join(d, "launcher.py")
    with open(lpath, "w") as f:
        f.write(direct_src + "def entry_code(code, ns):\n    try:\n        exec(code, ns)\n    except BaseException as e:\n        return e\n")
    lns = {}
    exec(compile(open(lpath).read(), lpath, "exec"), lns)
    call = vns["call"] if c["vendor"] else lns["call"]
    if origin == "file" or origin == "module":
        path = os.path.join(d, "prog_é.py" if c["msg"] % 5 == 3 else "prog.py")
        with open(path, "w", encoding="utf-8") as f:
            f.write(src)
    elif origin == "latin1":
        path = os.path.join(d, "latin.py")
        src = "# -*- coding: latin-1 -*-\n" + src.replace("✓", "").replace("λ", "")
        # what latin-1 cannot say (U+2028 in a string, ...) is written as "?": such characters only occur in strings and comments
        src = "".join(ch if ord(ch) < 256 else "?" for ch in src)
        site_line += 1
        with open(path, "wb") as f:
            f.write(src.encode("latin-1"))
    elif origin == "changed":
        path = os.path.join(d, "changed.py")
        with open(path, "w", encoding="utf-8") as f:
            f.write(src)
    elif origin == "module-exec":
        path = "<module-source>"
    else:
        path = FNAMES[int(origin.split(":")[1])]
    if origin == "latin1":
        code = compile(src.encode("latin-1"), path, "exec")
    else:
        code = compile(src, path, "exec")
    if origin == "changed":
        # the file is edited after it was loaded: what is on disk no longer tokenizes
        with open(path, "w", encoding="utf-8") as f:
            f.write("def broken(:\n    \'\'\'unterminated\n")
    ns = {"EXC": exc}
    if origin in ("module", "module-exec"):
        e = lns["entry_code"](code, ns)
    else:
        exec(code, ns)
        e = ns["entry"](c["depth"], exc, call)
    return {"dir": d, "exc": e, "src": src, "path": path, "site_line": site_line, "vendor_dir": vendor_dir}


def _raised(e):
    """e with a traceback of its own (raised and caught here)"""
    try:
        raise e
    except BaseException as x:  # noqa
        return x


def link_chain(e, kind):
    """chains the exception e (already raised by the generated program: its traceback is not touched) to causes / contexts"""
    name = CHAINS[kind]
    if name == "none":
        return
    mk = lambda m: _raised(ValueError(m))
    cut = lambda x: (setattr(x, "__cause__", None), setattr(x, "__context__", None), setattr(x, "__suppress_context__", False))
    if name == "plain-cause":
        e.__cause__ = mk("the cause")
    elif name == "plain-context":
        cut(e)
        e.__context__ = mk("the context")
    elif name == "self-cause":                    # raise e from e
        e.__cause__ = e
    elif name == "self-context":
        cut(e)
        e.__context__ = e
    elif name == "two-cycle-cause":               # raise first from second, where second had been raised from first
        b = mk("second")
        b.__cause__ = e
        e.__cause__ = b
    elif name == "two-cycle-context":
        cut(e)
        b = mk("second")
        b.__context__ = e
        e.__context__ = b
    elif name == "three-cycle-mixed":
        cut(e)
        b, d = mk("second"), mk("third")
        e.__context__ = b
        b.__cause__ = d
        d.__context__ = e
    elif name == "from-none-with-context":        # raise e from None inside an except block
        e.__context__ = _raised(KeyError("k"))
        e.__cause__ = None
        e.__suppress_context__ = True
    elif name in ("cause-3000-links", "context-3000-links"):
        last = None
        for n in range(LONG_CHAIN):               # a retry loop: raise Error(n) from last
            x = mk("attempt %d" % n)
            if name.startswith("cause"):
                x.__cause__ = last
            else:
                x.__context__ = last
            last = x
        if name.startswith("cause"):
            e.__cause__ = last
        else:
            cut(e)
            e.__context__ = last
    elif name == "markup-cause":
        e.__cause__ = _raised(type("Boom</error>", (Exception,), {})("</b> <error>open \\"))
    elif name == "broken-str-cause":
        e.__cause__ = _raised(make_exc(EXCS.index("StrRaises"), "x"))
    elif name == "cause-with-solution":
        e.__cause__ = _raised(make_exc(EXCS.index("Sol2"), "y"))
    elif name == "cycle-behind-a-link":           # e -> a -> b -> a
        a, b = mk("a"), mk("b")
        a.__cause__ = b
        b.__cause__ = a
        e.__cause__ = a


def _tokens(text):
    """the token stream the highlighter sees for this text: list of model tokens, or 'TokenError' / 'Other'"""
    import tokenize
    from clikit.ui.components.exception_trace import Highlighter
    from clikit.utils._compat import encode
    kinds = {tokenize.ENDMARKER: 0, tokenize.STRING: 1, tokenize.NUMBER: 2, tokenize.COMMENT: 3, tokenize.OP: 4, tokenize.NEWLINE: 5}
    out = []
    try:
        for t in tokenize.tokenize(io.BytesIO(encode(text)).readline):
            out.append([kinds.get(t.type, 6), int(t.string in Highlighter.KEYWORDS),
                        int(t.string in Highlighter.BUILTINS or t.string == "self"), S(t.string),
                        t.start[0], t.start[1], t.end[0], t.end[1], S(t.line)])
            if t.type == tokenize.ENDMARKER:
                break
    except tokenize.TokenError:
        return "TokenError"
    except Exception:
        return "Other"
    return out


def _tokres(t):
    if t == "TokenError":
        return [1]
    if t == "Other":
        return [2]
    return [0, t]


def _norm(text):
    return text.replace("\r\n", "\n").replace("\r", "\n")


def _style_set():
    from clikit.formatter.default_style_set import DefaultStyleSet
    out = []
    for tag, st in DefaultStyleSet().styles.items():
        o = lambda v: [] if v is None else [S(v)]
        out.append([o(st.tag), o(st.foreground_color), o(st.background_color), int(st.is_bold()), int(st.is_italic()), int(st.is_dark()),
                    int(st.is_underlined()), int(st.is_blinking()), int(st.is_inverse()), int(st.is_hidden())])
    return out


def _exc_code(e):
    import tokenize
    if isinstance(e, tokenize.TokenError):
        return 110
    if type(e) is ValueError:
        return 1
    if isinstance(e, KeyError):
        return 102
    return 109


def _message_of(e):
    """(the message, whether the exception has one): an exception whose __str__ raises or returns a non-string has no message
    text; the report then says what CPython's own traceback says"""
    try:
        return str(e), True
    except Exception:
        return STR_FAILED, False


def run_impl(c):
    if c["kind"] == 1:
        return run_highlighter(c)
    if c["kind"] == 2:
        return run_compact(c)
    from clikit.ui.components.exception_trace import ExceptionTrace
    from clikit.io import BufferedIO
    from clikit.formatter import AnsiFormatter
    from clikit.api.io import flags as F
    from crashtest.inspector import Inspector
    from crashtest.frame import Frame
    ExceptionTrace._FRAME_SNIPPET_CACHE.clear()
    Frame._content_cache.clear()
    r = run_program(c)
    e = r["exc"]
    if not isinstance(e, BaseException):
        raise RuntimeError("generated program did not raise: %r" % (e,))
    link_chain(e, c.get("chain", 0))
    # working / home directory
    if c["paths"] == 1:
        os.chdir(r["dir"])
    else:
        os.chdir("/")
    os.environ["HOME"] = r["dir"] if c["paths"] == 2 else "/nonexistent-home"
    fmt = AnsiFormatter(forced=True) if c["fmt"] == "ansi" else None
    bio = BufferedIO(formatter=fmt, supports_utf8=bool(c["utf8"]))
    bio.set_verbosity([F.NORMAL, F.VERBOSE, F.VERY_VERBOSE, F.DEBUG][c["verb"]])
    log = []
    orig = bio.output.write_line

    def rec(string, flags=None):
        log.append([bio.output._indent, string])
        orig(string, flags=flags)
    bio.output.write_line = rec
    from crashtest.solution_providers.solution_provider_repository import SolutionProviderRepository
    repo = SolutionProviderRepository() if c["exc"] % 2 == 0 or EXCS[c["exc"]].startswith("Sol") else None
    trace = ExceptionTrace(e, repo)
    pattern = IGNORES[c["ignore"]]
    if pattern == "vendor":
        pattern = re.escape(r["vendor_dir"])
    elif pattern == "progfile":
        pattern = re.escape(r["path"]) + "$"
    if pattern is not None:
        trace.ignore_files_in(pattern)
    try:
        trace.render(bio, bool(c["simple"]))
        status = None
    except Exception as ex:
        status = ex
    out = bio.fetch_output()
    plain_out = None
    if c["fmt"] == "ansi" and status is None:
        # the same render on an undecorated output: decoration must change only the look
        ExceptionTrace._FRAME_SNIPPET_CACHE.clear()
        pio = BufferedIO(supports_utf8=bool(c["utf8"]))
        pio.set_verbosity([F.NORMAL, F.VERBOSE, F.VERY_VERBOSE, F.DEBUG][c["verb"]])
        t2 = ExceptionTrace(e, repo)
        if pattern is not None:
            t2.ignore_files_in(pattern)
        try:
            t2.render(pio, bool(c["simple"]))
            plain_out = pio.fetch_output()
        except Exception as ex:
            plain_out = "RAISED " + type(ex).__name__
    # ---- what the model needs (from the same libraries the renderer used)
    frames = []
    files = []
    findex = {}
    for fr in Inspector(e).frames:
        try:
            content = _tokens(_norm(fr.file_content))
            text = fr.file_content
        except Exception:
            content, text = "Other", None
        key = fr.filename
        if key not in findex:
            findex[key] = len(files)
            files.append({"tok": content, "text": text})
        frames.append({"file": fr.filename, "ignored": bool(pattern is not None and re.match(pattern, fr.filename)), "lineno": fr.lineno,
                       "func": fr.function, "line": fr.line, "fi": findex[key], "lt": _tokens(_norm(fr.line.strip()))})
    home = os.path.expanduser("~")
    sols = []
    if repo is not None:
        sols = [[so.solution_title, so.solution_description, list(so.documentation_links)] for so in repo.get_solutions_for_exception(e)]
    obs = {"sols": sols,"status": status, "out": out, "log": log, "frames": frames, "files": files, "cwd": os.getcwd(), "home": home,
           "name": type(e).__name__, "msg": _message_of(e)[0], "msg_ok": _message_of(e)[1], "pattern": pattern, "plain_out": plain_out, "run": {k: r[k] for k in ("src", "path", "site_line")}}
    os.chdir(_STATE["cwd0"])
    if _STATE["home0"] is None:
        os.environ.pop("HOME", None)
    else:
        os.environ["HOME"] = _STATE["home0"]
    import shutil
    shutil.rmtree(r["dir"], ignore_errors=True)
    return obs


def run_highlighter(c):
    from clikit.ui.components.exception_trace import Highlighter
    text = c["text"] if "text" in c else open(c["file"], encoding="utf-8").read()
    h = Highlighter(supports_utf8=bool(c["utf8"]))
    try:
        lines = h.highlighted_lines(text)
        snip = Highlighter(supports_utf8=bool(c["utf8"])).code_snippet(text, c["line"], c["before"], c["after"])
        status = None
    except Exception as ex:
        lines, snip, status = None, None, ex
    return {"status": status, "lines": lines, "snip": snip, "tok": _tokens(_norm(text)), "text": _norm(text)}


def run_compact(c):
    from crashtest.frame_collection import FrameCollection
    from crashtest.frame import Frame
    fs = []
    for k in c["seq"]:
        f = Frame.__new__(Frame)
        f._filename, f._function, f._lineno = "f%d.py" % (k % 2), "fn%d" % k, 10 + k
        fs.append(f)
    cols = FrameCollection(fs).compact()
    return {"cols": [[col._count, [[S(f.filename), S(f.function), f.lineno] for f in col]] for col in cols]}


def wire_from(c, o):
    if c["kind"] == 1:
        if not isinstance(o["tok"], list):
            return [9]
        return [1, o["tok"], c["line"], c["before"], c["after"], c["utf8"]]
    if c["kind"] == 2:
        return [2, [[S("f%d.py" % (k % 2)), S("fn%d" % k), 10 + k] for k in c["seq"]]]
    files = [_tokres(f["tok"]) for f in o["files"]]
    frames = [[S(f["file"]), int(f["ignored"]), f["lineno"], S(f["func"]), S(f["line"]), f["fi"], _tokres(f["lt"])] for f in o["frames"]]
    fk = 1 if c["fmt"] == "ansi" else 2
    return [0, fk, 0, _style_set(), c["simple"], int(c["verb"] >= 1), int(c["verb"] >= 3), c["utf8"], S(o["cwd"]), S(o["home"]), ord(os.path.sep),
            S(o["name"]), S(o["msg"]), files, frames, [[S(t), S(d), [S(l) for l in ls]] for t, d, ls in o["sols"]]]


def canon_impl(c, o):
    if c["kind"] == 1:
        if o["status"] is not None:
            return [-1, _exc_code(o["status"])]
        return [[S(l) for l in o["lines"]], [S(l) for l in o["snip"]]]
    if c["kind"] == 2:
        return o["cols"]
    if o["status"] is not None:
        return [[-1, _exc_code(o["status"])]]
    return [[0, S(o["out"])], [0, [[i, S(t)] for i, t in o["log"]]]]


def canon_model(c, m):
    if c["kind"] == 0 and isinstance(m, list) and m and m[0] and m[0][0] == -1:
        return [m[0]]
    return m


# ------------------------------------------------------------------ the property on the real observations
# a numbered line of a snippet: an optional marker, the line number, one delimiter character, the source text (the arrow and
# the bar are what the renderer uses today; any other marker / delimiter reads the same)
SNIP = re.compile(r"^(\s*)([^\w\s]{1,2} |  )\s*(\d+)([^\w\s]) (.*)$")
SGR = re.compile("\x1b\\[[0-9;]*m")


def _single_line_rows(tok, nlines):
    """rows that are made of single-line tokens only (and have at least one token or are blank)"""
    multi = set()
    for t in tok:
        if t[4] and t[4] < t[6]:
            for r_ in range(t[4], t[6] + 1):
                multi.add(r_)
    return [r_ for r_ in range(1, nlines + 1) if r_ not in multi]


def _rows_with_tokens(tok):
    return set(t[4] for t in tok if t[4] and t[0] != 0)


def _src_lines(text):
    src = _norm(text).split("\n")
    if src and src[-1] == "":
        src.pop()
    return src


def stream_hypotheses(tok):
    """The hypotheses of theorem row_shown / one_line_per_row, checked on a token stream (wire-form tokens):
    returns (error or None, number of rows the theorem applies to)."""
    cur = 1
    for t in tok:                                   # rows_ok
        k, s, sr, sc, er, ec = t[0], t[3], t[4], t[5], t[6], t[7]
        if sr == 0:
            continue
        if k == 0:
            break
        if not (cur <= sr <= er):
            return "rows-not-monotone", 0
        if sr < er and k != 5 and len(unS(s).split("\n")) != er - sr + 1:
            return "multi-line-token-line-breaks", 0
        cur = sr if k == 5 else er
    rows = {}
    multi = set()
    for t in tok:
        if t[4] == 0 or t[0] == 0:
            continue
        if t[4] < t[6]:
            for r_ in range(t[4], t[6] + 1):
                multi.add(r_)
        rows.setdefault(t[4], []).append(t)
    n = 0
    for r_, ts in rows.items():
        if r_ in multi or not any(t[0] != 5 for t in ts):
            continue
        ln = ts[0][8]
        if NLc in ln[:-1]:
            return "physical-line-with-inner-line-break", 0
        c = 0
        for t in ts:
            if t[8] != ln or t[6] != r_ or not (0 <= t[5] <= t[7]):
                return "token-not-on-its-line", 0
            if t[0] != 5:
                if t[5] < c:
                    return "tokens-overlap", 0
                if t[3] != ln[t[5]:t[7]]:
                    return "token-string-is-not-its-slice", 0
                c = t[7]
        n += 1
    return None, n


NLc = 10


def check_snippet(block, text, tok, lineno, where):
    """block: [(marked, number, shown)] consecutive snippet lines; text: the source or None"""
    nums = [n for _, n, _ in block]
    if nums != list(range(nums[0], nums[0] + len(nums))):
        return "snippet-numbers-not-consecutive:" + where
    marked = [n for m, n, _ in block if m]
    src = _src_lines(text) if text else []
    has_source = bool(text) and isinstance(tok, list)
    if has_source and 1 <= lineno <= len(src):
        if marked != [lineno]:
            return "failing-line-not-marked-exactly:" + where
    elif any(n != lineno for n in marked):
        return "wrong-line-marked:" + where
    if has_source:
        ok_rows = set(_single_line_rows(tok, len(src)))
        with_tok = _rows_with_tokens(tok)
        for _, n, shown in block:
            if n in ok_rows and n <= len(src):
                line = src[n - 1]
                if n not in with_tok and line.strip():
                    continue        # a line without any token (lone continuation backslash): not claimed
                if shown.rstrip() != line.rstrip():
                    return "source-line-not-verbatim:" + where
    return None


def oracle(c, o):
    if c["kind"] == 2:
        # compact is crashtest's, not clikit's: the case family exists to tie the MODEL of compact (Trace.v, theorem
        # compact_keeps_frames) to the library.  What the property needs from the library's answer is checked here: folding
        # invents no frame, and every frame but the last (the failing one, shown on its own) is in some collection.
        want = [[S("f%d.py" % (k % 2)), S("fn%d" % k), 10 + k] for k in c["seq"]]
        flat = [f for _, frames in o["cols"] for f in frames]
        if any(f not in want for f in flat):
            return "compact-invents-a-frame"
        if any(f not in flat for f in want[:-1]):
            return "compact-loses-a-frame"
        return None
    if c["kind"] == 1:
        if not isinstance(o["tok"], list):
            return None      # tokenize refuses the file: outside the claim
        if o["status"] is not None:
            return "highlighter-raises:" + type(o["status"]).__name__
        herr, _ = stream_hypotheses(o["tok"])
        if herr:
            return "token-stream-hypothesis-fails:" + herr
        from clikit.formatter import PlainFormatter
        pf = PlainFormatter()
        block = []
        for l in o["snip"]:
            m = SNIP.match(pf.remove_format(l))
            if not m:
                return "snippet-line-malformed"
            block.append((m.group(2).strip() != "", int(m.group(3)), m.group(5)))
        if block:
            r = check_snippet(block, o["text"], o["tok"], c["line"], "highlighter")
            if r:
                return r
        # every line of the whole file
        src = _src_lines(o["text"])
        ok_rows = set(_single_line_rows(o["tok"], len(src)))
        with_tok = _rows_with_tokens(o["tok"])
        for n, l in enumerate(o["lines"], 1):
            if n in ok_rows and n <= len(src) and (n in with_tok or not src[n - 1].strip()):
                if pf.remove_format(l).rstrip() != src[n - 1].rstrip():
                    return "source-line-not-verbatim:file"
        return None
    if o["status"] is not None:
        return "render-raises:" + type(o["status"]).__name__
    for fl_ in o["files"]:
        if isinstance(fl_["tok"], list):
            herr, _ = stream_hypotheses(fl_["tok"])
            if herr:
                return "token-stream-hypothesis-fails:" + herr
    # What follows is the STATEMENT on the text that was written, decoded as leniently as the statement allows: the wording of
    # headings ("Stack trace"), of the location line ("at file:line in function"), blank lines, what else the report says
    # (solutions, the source line under a frame at -v, snippets under frames at debug) are not the property's business - the
    # bytes are compared with the model, which is where such a change shows (as a divergence).
    out, msg, name = o["out"], o["msg"], o["name"]
    if c["fmt"] == "ansi":
        # 'style markup aside': the clauses are read on the text without its SGR sequences (a message that holds such a
        # sequence itself loses it on both sides)
        out, msg = SGR.sub("", out), SGR.sub("", msg)
    strip_lines = lambda s: [l.rstrip(" ") for l in s.split("\n")]
    if c["simple"]:
        if o["msg_ok"] and strip_lines(out) != strip_lines(msg + "\n"):
            return "simple-report-is-not-the-message"
        return None
    lines = out.split("\n")
    # contains the class name (outside the code it shows) ...
    if not any(name.strip() in l for l in lines if not SNIP.match(l)):
        return "class-name-missing"
    # ... and the message text: its lines, in this order, on consecutive lines of the report (whatever else stands on them)
    want = [l.strip(" ") for l in msg.split("\n")]
    # (an exception whose __str__ fails has no message text: the clause asks nothing of it - the report must still render)
    if o["msg_ok"] and not any(all(want[k] in lines[i + k] for k in range(len(want))) for i in range(len(lines) - len(want) + 1)):
        return "message-text-missing"
    # the snippet of the failing frame: the numbered lines after the last line that names the failing frame's line number and
    # function; if no such line can be made out, the last run of numbered lines of the report
    last = o["frames"][-1]
    at = [i for i, l in enumerate(lines) if not SNIP.match(l) and re.search(r"(^|\D)%d(\D|$)" % last["lineno"], l) and last["func"].strip() in l]
    start = None
    if at:
        start = at[-1] + 1
    else:
        runs = [i for i, l in enumerate(lines) if SNIP.match(l) and (i == 0 or not SNIP.match(lines[i - 1]))]
        if runs:
            start = runs[-1]
    block = []
    for l in (lines[start:] if start is not None else []):
        m = SNIP.match(l)
        if not m:
            break
        block.append((m.group(2).strip() != "", int(m.group(3)), m.group(5)))
    fl = o["files"][last["fi"]]
    if block:
        r = check_snippet(block, fl["text"], fl["tok"], last["lineno"], "failing-frame")
        if r:
            return r
    elif fl["text"] and isinstance(fl["tok"], list) and 1 <= last["lineno"] <= len(_src_lines(fl["text"])):
        # a file that cannot be read (text None) or that tokenize rejects (edited since it was loaded): the report goes on
        # without the snippet (fix caca46b) - the tie compares that with the model
        return "snippet-missing"
    # the stack trace: frames under an ignored path only at debug verbosity; the others all listed
    verbose, debug = c["verb"] >= 1, c["verb"] >= 3
    head = lines[:(start - 1 if at else start) if start is not None else len(lines)]
    rel = lambda p: p.replace(o["cwd"] + os.path.sep, "").replace(o["home"] + os.path.sep, "~" + os.path.sep) if o["cwd"] != "/" else \
        p.replace(o["home"] + os.path.sep, "~" + os.path.sep)
    ident = lambda f: (rel(f["file"]).strip(), f["lineno"], f["func"].strip())

    def names(l, f):
        # a line of the listing names the frame f: its file (as the report abbreviates it), its line number, its function
        fi_, ln_, fn_ = ident(f)
        return (not SNIP.match(l)) and fi_ in l and fn_ in l and re.search(r"(^|\D)%d(\D|$)" % ln_, l) is not None
    if debug:
        # a snippet shown under a listed frame numbers consecutively and marks that frame's line (when there is one)
        for i, l in enumerate(head):
            cands = [f for f in o["frames"][:-1] if names(l, f)]
            if not cands:
                continue
            blk = []
            for l2 in head[i + 1:]:
                m2 = SNIP.match(l2)
                if not m2:
                    break
                blk.append((m2.group(2).strip() != "", int(m2.group(3)), m2.group(5)))
            fr = cands[0]
            fl2 = o["files"][fr["fi"]]
            if blk and len(set(ident(f) for f in cands)) == 1:
                r = check_snippet(blk, fl2["text"], fl2["tok"], fr["lineno"], "stack-frame")
                if r:
                    return r
    if not debug:
        stack_kept = [f for f in o["frames"] if not f["ignored"]]
        # every frame that is not ignored is listed, except the frame of the snippet (the last one: where it was raised)
        expect = [f for f in o["frames"][:-1] if not f["ignored"]] if verbose else []
        for f in o["frames"]:
            if f["ignored"] and any(names(l, f) for l in head) and not any(ident(g) == ident(f) for g in stack_kept):
                return "ignored-frame-listed"
    else:
        expect = o["frames"][:-1]
    if verbose:
        for f in expect:
            if not any(names(l, f) for l in head):
                if not debug and o["frames"][-1]["ignored"] and f is expect[-1]:
                    # known finding: the exception was raised INSIDE ignored code - the raising frame is filtered out, the
                    # listing then drops the last frame it is given (meant to be the snippet's), i.e. the caller's
                    return "caller-frame-lost-when-raised-in-ignored-code"
                return "frame-missing-from-stack-trace"
    return None


def nontrivial_key(c, o):
    if c["kind"] == 1:
        return ["hl", c["file"]]
    if c["kind"] == 2:
        return ["compact", c["seq"]] if len(set(c["seq"])) < len(c["seq"]) else None
    return [c["site"], c["origin"], c["rec"], min(c["depth"], 3), c["verb"], c["msg"], c["exc"], c["simple"], c["fmt"], c["vendor"], c["ignore"],
            c.get("chain", 0)]


def describe(c):
    if c["kind"] == 1:
        return "Highlighter on %s, snippet around line %d (%d before, %d after), utf8=%d" % (c["file"], c["line"], c["before"], c["after"], c["utf8"])
    if c["kind"] == 2:
        return "FrameCollection.compact on frames %r" % (c["seq"],)
    src, site = build_source(c)
    return ("%s(%r) raised at line %d of a generated program (origin %s, vendor call %d, recursion %s depth %d); rendered %s at verbosity %d, "
            "utf8=%d, %s formatter, ignore pattern %r, paths %d, chained to: %s.\n--- source ---\n%s" % (
                EXCS[c["exc"]], MSGS[c["msg"]], site, c["origin"], c["vendor"], c["rec"], c["depth"], "simple" if c["simple"] else "full",
                c["verb"], c["utf8"], c["fmt"], IGNORES[c["ignore"]], c["paths"], CHAINS[c.get("chain", 0)], src))


def shrink(c):
    if c["kind"] == 2:
        for i in range(len(c["seq"])):
            yield {"kind": 2, "seq": c["seq"][:i] + c["seq"][i + 1:]}
        return
    if c["kind"] == 1:
        return
    for k in ("head", "body", "tail"):
        for i in range(len(c[k])):
            d = dict(c)
            d[k] = c[k][:i] + c[k][i + 1:]
            yield d
    for k, v in (("chain", 0), ("vendor", 0), ("rec", "none"), ("depth", 1), ("ignore", 0), ("paths", 0), ("exc", 0), ("msg", 0), ("site", 0), ("ind", "    "),
                 ("utf8", 1), ("origin", "file")):
        if c.get(k, v) != v:
            d = dict(c)
            d[k] = v
            yield d
