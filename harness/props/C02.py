"""C02 - malformed command lines are rejected with the documented errors and only those."""
import itertools
from hutil import S, unS, canon_floats, canon_floats_w
import parsergen as G

MODEL = "C02"
PROP_FILES = ["Props/C02.v"]
RULE = ("token sequences over a per-format adversarial alphabet ('', '-', '--', '---', '--=', '-=', known/unknown long and short "
        "options with and without '=value', grouped shorts, negative numbers, 'null', words, command names/aliases) x 40 small "
        "formats x strict/lenient: exhaustive to length 2 (quick) / 3 (thorough) for all formats and one more for 6 of them, "
        "seeded random to length 6; non-trivial = reaches an error or sets a value; distinct by (format, mode, tokens)")
TRUSTED = []
ASSUMPTIONS = ["formats are valid (built through ArgsFormat), option/argument objects are valid (C07)"]

EXTRA = ["zz", "z"]


def alphabet(levels):
    toks = ["", "-", "--", "---", "--=", "-=", "--zz", "--zz=1", "-z", "-5", "null", "word", "x"]
    for o in G.fmt_options(levels):
        toks += ["--" + o["long"], "--" + o["long"] + "=val", "--" + o["long"] + "=", "--" + o["long"] + "=5"]
        if o["short"]:
            toks += ["-" + o["short"], "-" + o["short"] + "val", "-" + o["short"] + "5", "-" + o["short"] + "=", "-v" + o["short"],
                     "-" + o["short"] + "v", "--" + o["short"]]
    for c in G.fmt_cnames(levels):
        toks += [c["name"]] + c["aliases"]
    seen, out = set(), []
    for t in toks:
        if t not in seen:
            seen.add(t)
            out.append(t)
    return out


def gen(rng, tier, info):
    depth = {"quick": 2, "thorough": 3, "search": 2}[tier]
    nrand = {"quick": 20000, "thorough": 200000, "search": 10000}[tier]
    cases = []
    hist = {}
    for fi, levels in enumerate(G.SMALL_FORMATS):
        al = alphabet(levels)
        d = depth + (1 if fi in (0, 7, 21, 22, 28, 33) else 0)
        if len(al) > 30 and d > depth:
            al_deep = al[:13] + [t for t in al[13:] if "=" not in t][:12]
        else:
            al_deep = al
        for k in range(0, d + 1):
            use = al if k <= depth else al_deep
            for seq in itertools.product(use, repeat=k):
                for lenient in (0, 1):
                    cases.append({"f": fi, "len": lenient, "toks": list(seq)})
        hist[fi] = len(al)
    n_ex = len(cases)
    for _ in range(nrand):
        fi = rng.randrange(len(G.SMALL_FORMATS))
        al = alphabet(G.SMALL_FORMATS[fi])
        k = rng.randint(depth + 1, 6)
        cases.append({"f": fi, "len": rng.randint(0, 1), "toks": [rng.choice(al) for _ in range(k)]})
    info["exhaustive"] = True
    info["distribution"] = {"formats": len(G.SMALL_FORMATS), "exhaustive_cases": n_ex, "random_cases": nrand,
                            "alphabet_sizes": hist, "exhaustive_len": depth}
    return cases


def wire(c):
    return [G.wire_levels(G.SMALL_FORMATS[c["f"]]), c["len"], [S(t) for t in c["toks"]], [S(x) for x in EXTRA]]


def describe(c):
    return "format#%d %s tokens=%r" % (c["f"], "lenient" if c["len"] else "strict", c["toks"])


def run_impl(c):
    from clikit.args import DefaultArgsParser
    fmt = G.mk_format(G.SMALL_FORMATS[c["f"]])
    out = G.parse_once(DefaultArgsParser(), fmt, c["toks"], bool(c["len"]), EXTRA)
    # the property's third clause needs the strict result next to the lenient one
    if c["len"]:
        strict = G.parse_once(DefaultArgsParser(), fmt, c["toks"], False, EXTRA)
        return [out, strict]
    return [out]


def canon_impl(c, o):
    return canon_floats(o[0])


def canon_model_w(c, w):
    return canon_floats_w(w)


def oracle(c, o):
    r = o[0]
    if r[0] == -1:
        code = r[1]
        if code not in (1, 2, 3):
            return "other-exception-escapes:%d" % code
        if c["len"] and code in (2, 3):
            return "lenient-raises-parse-error:%d" % code
    if not c["len"] and r[0] == 0:
        why = must_fail(c)
        if why:
            return "strict-accepts:" + why
    if c["len"]:
        strict = o[1]
        if strict[0] == 0 and r != strict:
            return "lenient-differs-from-successful-strict"
    return None


def must_fail(c):
    """single-fault shapes that strict parsing has to reject, decided from the tokens alone"""
    levels = G.SMALL_FORMATS[c["f"]]
    opts = {o["long"]: o for o in G.fmt_options(levels)}
    shorts = {o["short"]: o for o in G.fmt_options(levels) if o["short"]}
    toks = c["toks"]
    for i, t in enumerate(toks):
        if t == "--":
            break
        if t.startswith("--"):
            name, eq, val = t[2:].partition("=")
            o = opts.get(name) or shorts.get(name)
            if o is None:
                return "unknown-option"
            valueless = bool(o["flags"] & G.NO_VALUE) or not (o["flags"] & (G.REQ_V | G.OPT_V | G.MULTI_V))
            if eq and valueless:
                return "value-given-to-flag"
            needs = bool(o["flags"] & (G.REQ_V | G.MULTI_V))
            if needs and ((eq and val == "") or (not eq and (i + 1 == len(toks) or toks[i + 1].startswith("-") or toks[i + 1] == ""))):
                return "required-value-missing"
    return None


def nontrivial_key(c, o):
    r = o[0]
    if r[0] == -1 or (r[0] == 0 and (r[1][0] or r[1][2])):
        return [c["f"], c["len"], c["toks"]]
    return None


def shrink(c):
    t = c["toks"]
    for i in range(len(t)):
        yield {"f": c["f"], "len": c["len"], "toks": t[:i] + t[i + 1:]}
