"""C02 - malformed command lines are rejected with the documented errors and only those."""
import itertools
from hutil import S, unS, canon_floats, canon_floats_w
import parsergen as G
from props import C01 as L

MODEL = "C02"
PROP_FILES = ["Props/C02.v"]
RULE = ("formats = 40 fixed small ones + small formats drawn from the seed (options of every mode/type/nullable/short/default, <= 2 "
        "arguments, command names, base levels) x strict/lenient.  (a) token sequences over a per-format adversarial alphabet "
        "('', '-', '--', '---', '--=', '-=', known/unknown long and short options with and without '=value', '=-5', a second '=', "
        "groups of 2-4 short options with junk and values, negative numbers, 'null', words, command names/aliases): exhaustive to "
        "length 2 over the whole alphabet and at length 3 over one representative per token class (10 tokens; thorough: 22 "
        "tokens at length 3, 10 at length 4), seeded random of length 3-6 over the whole alphabet.  (b) single-fault mutations of valid C01 lines (any spelling, groups included): an unknown long "
        "/ short option inserted between two items or appended to a group of flags, a required argument dropped, a surplus "
        "positional added, the value of a value-requiring option stripped, a typed value replaced by an unconvertible text, a "
        "value attached to a flag - the oracle demands the error kind the statement fixes for that fault; the unknown letter of a "
        "group also behind 4 / 7 / 12 repeated flags, and the alphabet holds groups of 8 letters.  (c) typed values: for every "
        "typed option (--name=T, -nT, --name T) and typed argument of every format, 45 texts that LOOK numeric (1e3, 2.0, .5, inf, "
        "nan, 1e999, 0x1F, 1_0, ' 5', '+5', '-0', non-ASCII digits, 30 and 400 digits ...) and 20 that look boolean: where "
        "CPython's int() / float() reject the text (booleans: texts no spelling table could accept) the oracle demands the "
        "ValueError, the rest is compared with the model.  Non-trivial = reaches "
        "an error or sets a value; distinct by (format, mode, tokens)")
TRUSTED = []
ASSUMPTIONS = ["formats are valid (built through ArgsFormat), option/argument objects are valid (C07)",
               "'a value that does not convert to the declared type' is read as: CPython's int() / float() reject the text (the declared "
               "types are Python's); for booleans the oracle judges only texts outside any plausible table of spellings",
               "exhaustive depth is 2 over the whole alphabet and 3 (quick) / 4 (thorough) over a reduced one, not the 6 of the quantifier; lengths 3..6 are sampled"]

EXTRA = ["zz", "z"]


def is_flag(o):
    return L.okind(o) == "flag"


def alphabet(levels):
    toks = ["", "-", "--", "---", "--=", "-=", "--zz", "--zz=1", "-z", "-5", "null", "word", "x", "true"]
    opts = G.fmt_options(levels)
    for o in opts:
        toks += ["--" + o["long"], "--" + o["long"] + "=val", "--" + o["long"] + "=", "--" + o["long"] + "=5"]
        if not is_flag(o):
            toks += ["--" + o["long"] + "=-5", "--" + o["long"] + "=a=b"]
        if o["short"]:
            toks += ["-" + o["short"], "-" + o["short"] + "val", "-" + o["short"] + "5", "-" + o["short"] + "=", "-v" + o["short"],
                     "-" + o["short"] + "v", "--" + o["short"]]
    # groups of the format's own short names: flags only, flags + a valued member (value omitted / glued), a repeated flag,
    # an unknown letter in the middle
    sf = [o["short"] for o in opts if o["short"] and is_flag(o)]
    sv = [o["short"] for o in opts if o["short"] and not is_flag(o)]
    if sf:
        toks += ["-" + sf[0] * 3, "-" + sf[0] + "z" + sf[0]]
        # LONG groups (a group has no maximal length): eight flags; an unknown letter in seventh place
        toks += ["-" + (sf[0] + sf[-1]) * 4, "-" + sf[0] * 6 + "z" + sf[0]]
    if len(sf) >= 2:
        toks += ["-" + sf[0] + sf[1], "-" + "".join(sf[:3]) + sf[0]]
    if sf and sv:
        toks += ["-" + "".join(sf[:3]) + sv[0], "-" + "".join(sf[:2]) + sv[0] + "VAL", "-" + sf[0] + sv[0] + "-5"]
    for c in G.fmt_cnames(levels):
        toks += [c["name"]] + c["aliases"]
    seen, out = set(), []
    for t in toks:
        if t not in seen:
            seen.add(t)
            out.append(t)
    return out


def reduced_alphabet(levels, size=10):
    """one representative per token class (what the token loop and the option handlers distinguish)"""
    opts = G.fmt_options(levels)
    toks = ["", "-", "--", "--zz", "-z", "x"]
    flags = sorted([o for o in opts if is_flag(o)], key=lambda o: o["short"] is None)
    valued = sorted([o for o in opts if not is_flag(o)], key=lambda o: o["short"] is None)
    if flags:
        f = flags[0]
        toks.append("-" + f["short"] if f["short"] else "--" + f["long"])
    if valued:
        v = valued[0]
        toks += ["--" + v["long"], "--" + v["long"] + "=val"]
        if v["short"]:
            toks.append("-" + v["short"] + "val")
    cns = G.fmt_cnames(levels)
    if cns:
        toks.append(cns[0]["name"])
    # room left: further classes
    more = []
    if flags and valued and flags[0]["short"] and valued[0]["short"]:
        more.append("-" + flags[0]["short"] + valued[0]["short"])
    if flags:
        more.append("--" + flags[0]["long"] + "=val")
    if valued and valued[0]["short"]:
        more.append("-" + valued[0]["short"])
    if len(valued) > 1:
        more.append("--" + valued[1]["long"] + "=5")
    if len(flags) > 1:
        more.append("-" + flags[1]["short"] if flags[1]["short"] else "--" + flags[1]["long"])
    more += ["-5", "null", "--=", "5"]
    more += alphabet(levels)            # then whatever else the full alphabet holds, in its order
    for t in more:
        if len(toks) >= size:
            break
        if t not in toks:
            toks.append(t)
    return toks


# ---------------------------------------------------------------- single-fault mutations of valid lines
# the error kind the statement fixes for each fault (hutil.exc_code: 1 ValueError, 2 cannot-parse, 3 no-such-option)
FAULT_CODE = {"unknown-long-option": 3, "unknown-short-option": 3, "unknown-letter-in-group": 3, "missing-required-argument": 2,
              "surplus-positional": 2, "required-value-stripped": 2, "unconvertible-option-value": 1, "unconvertible-argument-value": 1,
              "value-given-to-flag": 2}


def looks_ahead(e):
    """an entry whose last option may still take the next token as its value (value omitted)"""
    return e[0] == "o" and (e[2][0] == 2 or (e[2][0] == 3 and e[2][2] and e[2][2][1][0] == 2))


def first_dashed(entries, i):
    """the token after entry i-1 starts with '-' (or there is none): a value look-ahead from entry i-1 finds nothing"""
    if i >= len(entries):
        return True
    e = entries[i]
    t = "--" if e[0] == "dd" else (e[1] if e[0] in ("n", "p") else e[1][0])
    return t.startswith("-")


def faults(entries, levels, rng):
    """-> [(fault name, tokens)]: each a single fault applied to the valid line `entries` (see C01.spell_all)"""
    opts = G.fmt_options(levels)
    args = G.fmt_args(levels)
    longs = {o["long"]: o for o in opts}
    shorts = set(o["short"] for o in opts if o["short"])
    unk = next(c for c in "ZXYWKJ" if c not in shorts)
    dd = next((i for i, e in enumerate(entries) if e[0] == "dd"), len(entries))
    toks = lambda es: L.finish(es)[0]
    out = []
    b = rng.randint(0, dd)                                   # a boundary between two items in front of "--"
    out.append(("unknown-long-option", toks(entries[:b] + [("x", [rng.choice(["--zz", "--zz=1", "--" + unk.lower() * 2])], None)] + entries[b:])))
    b = rng.randint(0, dd)
    out.append(("unknown-short-option", toks(entries[:b] + [("x", [rng.choice(["-" + unk, "-" + unk + "x", "-" + unk + "=1"])], None)] + entries[b:])))
    fl = [i for i, e in enumerate(entries) if L.is_short_flag(e) or (e[0] == "o" and e[2][0] == 3 and not e[2][2])]
    if fl:
        i = rng.choice(fl)
        e = entries[i]
        # (the group made longer first, now and then: a flag may be repeated)
        longer = e[1][0] + e[1][0][1] * rng.choice([0, 0, 0, 4, 7, 12])
        out.append(("unknown-letter-in-group", toks(entries[:i] + [("x", [longer + unk + rng.choice(["", e[1][0][1]])], None)] + entries[i + 1:])))
    vals = [i for i, e in enumerate(entries) if e[0] == "p"]
    nreq = sum(1 for a in args if a["flags"] & G.A_REQ)
    multi = any(a["flags"] & G.A_MULTI for a in args)
    if nreq >= 1 and len(vals) == nreq:
        i = rng.choice(vals)
        out.append(("missing-required-argument", toks(entries[:i] + entries[i + 1:])))
    if not multi and len(vals) == len(args):
        bs = [b for b in range(len(entries) + 1) if not (b > 0 and looks_ahead(entries[b - 1]))]
        b = rng.choice(bs)
        out.append(("surplus-positional", toks(entries[:b] + [("p", "surplus")] + entries[b:])))
    # the value of a value-requiring option stripped
    cand = []
    for i, e in enumerate(entries):
        if e[0] != "o":
            continue
        d = e[2]
        if d[0] == 1 and L.okind(longs[unS(d[1])]) in ("req", "multi"):
            o = longs[unS(d[1])]
            if d[2] == 0:
                cand.append((i, ["--" + o["long"] + "="]))
            elif first_dashed(entries, i + 1):
                cand.append((i, ["--" + o["long"]] if d[2] == 1 else ["-" + o["short"]]))
        elif d[0] == 3 and d[2] and d[2][1][0] in (0, 1) and L.okind(longs[unS(d[2][0])]) in ("req", "multi") and first_dashed(entries, i + 1):
            letters = "".join(longs[unS(n)]["short"] for n in d[1]) + longs[unS(d[2][0])]["short"]
            cand.append((i, ["-" + letters]))
    if cand:
        i, t = rng.choice(cand)
        out.append(("required-value-stripped", toks(entries[:i] + [("x", t, None)] + entries[i + 1:])))
    # a typed value replaced by a text that does not convert
    cand = []
    for i, e in enumerate(entries):
        if e[0] == "o" and e[2][0] == 1 and L.otype(longs[unS(e[2][1])]) != "str":
            o, form = longs[unS(e[2][1])], e[2][2]
            t = [["--" + o["long"] + "=abc"], ["--" + o["long"], "abc"], ["-" + (o["short"] or "") + "abc"], ["-" + (o["short"] or ""), "abc"]][form]
            cand.append((i, t))
    if cand:
        i, t = rng.choice(cand)
        out.append(("unconvertible-option-value", toks(entries[:i] + [("x", t, None)] + entries[i + 1:])))
    cand = [i for k, i in enumerate(vals) if args and L.atype(args[min(k, len(args) - 1)]) != "str"]
    if cand:
        i = rng.choice(cand)
        out.append(("unconvertible-argument-value", toks(entries[:i] + [("p", "abc")] + entries[i + 1:])))
    cand = [i for i, e in enumerate(entries) if e[0] == "o" and e[2][0] == 0]
    if cand:
        i = rng.choice(cand)
        out.append(("value-given-to-flag", toks(entries[:i] + [("x", ["--" + unS(entries[i][2][1]) + rng.choice(["=val", "=", "=1"])], None)] + entries[i + 1:])))
    return out


# ---------------------------------------------------------------- typed values: texts that LOOK numeric / boolean
# (the alphabet's values are 'val', '5', '-5', 'a=b'; C01's valid values '5', '12', '1.5', '1e3'.  Whether a text converts is
# decided here by CPython's own int() / float() - the declared types are Python's - and for booleans only texts are judged that
# no table of spellings could accept; everything else is compared with the model only.)
NUM_TEXTS = ["1e3", "1E3", "2.0", "2.5", ".5", "5.", "inf", "-inf", "Infinity", "nan", "NaN", "1e999", "-1e999", "1e-999", "0x1F", "0b1",
             "0o7", "1_0", "_1", "1__0", " 5", "5 ", "\t5\n", "+5", "-0", "--5", "\u0663", "\u0661\u0662", "\uff15", "\u00bd", "1,5", "1 000", "5L", "1j",
             "1e", "e3", "9" * 30, "1" + "0" * 400, "-", "+", ".", "0.1e1", "1e1_0", "null", "NULL", "None", "true"]
BOOL_TEXTS = ["TRUE", "True", "ON", "2", "-1", "y", "n", "t", "f", "oui", " true", "true ", "1.0", "00", "01", "nul", "null", "maybe", "abc", "1e0"]
BOOL_NEVER = {"2", "-1", "maybe", "abc", "1e0", "1.0", "nul"}


def convertible(typ, nullable, text):
    """-> True / False / None (None: not judged by the oracle)"""
    if nullable and text == "null":
        return True
    if typ == "int":
        try:
            int(text)
            return True
        except ValueError:
            return False
    if typ == "float":
        try:
            float(text)
            return True
        except (ValueError, OverflowError):
            return False
    if typ == "bool":
        if text in ("true", "1", "yes", "on", "false", "0", "no", "off"):
            return True
        return False if text in BOOL_NEVER else None
    return True


def value_stream(fmts):
    """for every typed option / argument of every format and every text: a line that is valid but for (perhaps) that text"""
    cases, hist = [], {}

    def add(fref, toks, fault):
        for lenient in (0, 1):
            c = {"len": lenient, "toks": toks}
            if fault:
                c["fault"] = fault
            c.update(fref)
            cases.append(c)
        hist[fault or "convertible-or-not-judged"] = hist.get(fault or "convertible-or-not-judged", 0) + 1
    for fref, levels in fmts:
        args = G.fmt_args(levels)
        need = ["1"] * sum(1 for a in args if a["flags"] & G.A_REQ)          # '1' converts to every type
        for o in G.fmt_options(levels):
            typ = L.otype(o)
            if is_flag(o) or typ == "str":
                continue
            nullable = bool(o["flags"] & G.O_NULL)
            for t in (BOOL_TEXTS if typ == "bool" else NUM_TEXTS):
                cv = convertible(typ, nullable, t)
                fault = "unconvertible-option-value" if cv is False else None
                add(fref, ["--" + o["long"] + "=" + t] + need, fault)
                if o["short"]:
                    add(fref, need + ["-" + o["short"] + t], fault)
                if not t.startswith("-"):
                    add(fref, ["--" + o["long"], t] + need, fault)
        for k, a in enumerate(args):
            typ = L.atype(a)
            if typ == "str":
                continue
            nullable = bool(a["flags"] & G.A_NULL)
            for t in (BOOL_TEXTS if typ == "bool" else NUM_TEXTS):
                cv = convertible(typ, nullable, t)
                vals = ["1"] * k + [t] + ["1"] * max(0, len(need) - k - 1)
                add(fref, ["--"] + vals, "unconvertible-argument-value" if cv is False else None)
    return cases, hist


def mutation_stream(rng, tier, fmts):
    n_asg, n_lines = {"quick": (5, 8), "thorough": (12, 20), "search": (2, 2)}[tier]
    cases, hist = [], {}
    for fref, levels in fmts:
        for asg in L.assignments(levels, rng, n_asg, max_multi=2):
            for entries in L.spell_all(levels, asg, rng, limit=n_lines, group_bias=0.4) if True else []:
                if len(entries) > 14:
                    continue
                segs = L.group_segments(entries)
                if segs and rng.random() < 0.6:
                    entries = L.grouped(entries, max(segs, key=lambda s: (s[1] - s[0], rng.random())))
                for name, toks in faults(entries, levels, rng):
                    hist[name] = hist.get(name, 0) + 1
                    for lenient in (0, 1):
                        c = {"len": lenient, "toks": toks, "fault": name}
                        c.update(fref)
                        cases.append(c)
    return cases, hist


def formats(rng, tier):
    n = {"quick": 12, "thorough": 24, "search": 4}[tier]
    fmts = [({"f": fi}, lv) for fi, lv in enumerate(G.SMALL_FORMATS)]
    for i in range(n):
        lv = G.rand_levels(rng, nopts=rng.randint(1, 3), nargs=rng.randint(0, 2), ncn=rng.choice([0, 0, 1]), nbase=rng.choice([0, 0, 1]),
                           short_flags=(0, 1, 2)[i % 3], short_valued=(0, 1)[i % 2])
        fmts.append(({"lv": lv}, lv))
    return fmts


def gen(rng, tier, info):
    nrand = {"quick": 20000, "thorough": 200000, "search": 10000}[tier]
    fmts = formats(rng, tier)
    cases = []
    hist = {}

    def add(fref, lenient, toks):
        c = {"len": lenient, "toks": list(toks)}
        c.update(fref)
        cases.append(c)
    # exhaustive: the whole alphabet to length 2; one representative per token class (10 tokens) at length 3 (quick);
    # thorough: 22 tokens at length 3 and 10 at length 4
    plan = {"quick": [(10, 3)], "thorough": [(22, 3), (10, 4)], "search": []}[tier]
    for fref, levels in fmts:
        al = alphabet(levels)
        for k in range(0, 3):
            for seq in itertools.product(al, repeat=k):
                for lenient in (0, 1):
                    add(fref, lenient, seq)
        for size, k in plan:
            for seq in itertools.product(reduced_alphabet(levels, size), repeat=k):
                for lenient in (0, 1):
                    add(fref, lenient, seq)
        hist[str(fref.get("f", "generated"))] = [len(al)] + [min(size, len(reduced_alphabet(levels, size))) for size, _ in plan]
    n_ex = len(cases)
    mut, mhist = mutation_stream(rng, tier, fmts) if tier != "search" else ([], {})
    cases += mut
    vals, vhist = value_stream(fmts)
    cases += vals
    for _ in range(nrand):
        fref, levels = fmts[rng.randrange(len(fmts))]
        al = alphabet(levels)
        k = rng.randint(3, 6)
        add(fref, rng.randint(0, 1), [rng.choice(al) for _ in range(k)])
    info["exhaustive"] = True
    info["distribution"] = {"formats": len(fmts), "generated_formats": sum(1 for f, _ in fmts if "lv" in f),
                            "exhaustive_cases": n_ex, "random_cases": nrand, "alphabet_sizes (full, reduced...)": hist,
                            "exhaustive_len_full_alphabet": 2, "exhaustive (alphabet size, length) reduced": plan,
                            "single_fault_mutations": len(mut), "by_fault": mhist,
                            "typed_value_texts (numeric / boolean looking)": len(vals), "typed_value_cases_by_verdict": vhist}
    return cases


def wire(c):
    return [G.wire_levels(G.case_levels(c)), c["len"], [S(t) for t in c["toks"]], [S(x) for x in EXTRA]]


def describe(c):
    return "format %s %s tokens=%r%s" % (("#%d" % c["f"]) if "f" in c else G.fmt_shape(c["lv"]), "lenient" if c["len"] else "strict", c["toks"],
                                        (" (a valid line with one fault: %s)" % c["fault"]) if c.get("fault") else "")


def run_impl(c):
    from clikit.args import DefaultArgsParser
    fmt = G.case_format(c)
    out = G.parse_once(DefaultArgsParser(), fmt, c["toks"], bool(c["len"]), EXTRA)
    # the property's third clause needs the strict result next to the lenient one
    if c["len"]:
        strict = G.parse_once(DefaultArgsParser(), fmt, c["toks"], False, EXTRA)
        return [out, strict]
    return [out]


def canon_impl(c, o):
    return canon_floats(o[0])


def canon_model_w(c, w):
    return canon_floats_w(w)


def oracle(c, o):
    r = o[0]
    if r[0] == -1:
        code = r[1]
        if code not in (1, 2, 3):
            return "other-exception-escapes:%d" % code
        if c["len"] and code in (2, 3):
            return "lenient-raises-parse-error:%d" % code
    if not c["len"] and c.get("fault"):
        # a valid line with exactly one fault: the statement fixes the error kind
        want = FAULT_CODE[c["fault"]]
        if r != [-1, want]:
            return "fault-%s-gives:%s" % (c["fault"], "accepted" if r[0] == 0 else "error-%d" % r[1])
    if not c["len"] and r[0] == 0:
        why = must_fail(c)
        if why:
            return "strict-accepts:" + why
    if c["len"]:
        strict = o[1]
        if strict[0] == 0 and r != strict:
            return "lenient-differs-from-successful-strict"
    return None


def must_fail(c):
    """faulty shapes that strict parsing has to reject (by whichever of the parse errors comes first), decided from the tokens alone"""
    levels = G.case_levels(c)
    opts = {o["long"]: o for o in G.fmt_options(levels)}
    shorts = {o["short"]: o for o in G.fmt_options(levels) if o["short"]}
    toks = c["toks"]
    for i, t in enumerate(toks):
        if t == "--":
            break
        if t.startswith("--"):
            name, eq, val = t[2:].partition("=")
            o = opts.get(name) or shorts.get(name)
            if o is None:
                return "unknown-option"
            valueless = is_flag(o)
            if eq and valueless:
                return "value-given-to-flag"
            needs = bool(o["flags"] & (G.REQ_V | G.MULTI_V))
            if needs and ((eq and val == "") or (not eq and (i + 1 == len(toks) or toks[i + 1].startswith("-") or toks[i + 1] == ""))):
                return "required-value-missing"
        elif t.startswith("-") and t != "-":
            # short options: the letters are flags up to the first one that takes a value (the rest is its value)
            for j, ch in enumerate(t[1:]):
                o = shorts.get(ch)
                if o is None:
                    return "unknown-short-option"
                if not is_flag(o):
                    needs = bool(o["flags"] & (G.REQ_V | G.MULTI_V))
                    if needs and j == len(t) - 2 and (i + 1 == len(toks) or toks[i + 1].startswith("-") or toks[i + 1] == ""):
                        return "required-value-missing"
                    break
    return None


def nontrivial_key(c, o):
    r = o[0]
    if r[0] == -1 or (r[0] == 0 and (r[1][0] or r[1][2])):
        return [c.get("f", c.get("lv")), c["len"], c["toks"]]
    return None


def shrink(c):
    t = c["toks"]
    for i in range(len(t)):
        d = {k: v for k, v in c.items() if k not in ("toks", "fault")}
        d["toks"] = t[:i] + t[i + 1:]
        yield d
