"""C16 - a progress bar always shows a truthful, well-formed frame and ends at 100%."""
import itertools, os, re
from fractions import Fraction
from hutil import S, unS, err
import termemu

MODEL = "C16"
PROP_FILES = ["Props/C16.v"]
WIDTH = 160          # terminal width of the ANSI / plain / quiet cases (every frame fits: ASSUMPTIONS)
NARROW = 30          # second width of the section cases: the frame wraps inside its section
RULE = ("call sequences over {start(), start(max'), advance(1/3/-2/0/max//4), set_progress(0/1/max-1/max/max+3/7), display, clear, "
        "finish, set_message(plain short / plain long / tagged short / tagged long / empty / with characters beyond ASCII), write_line on the section below} with "
        "the clock advanced by {0, 10, 50, 200, 2000} ms before each call (virtual clock of exact fractions) x maxima "
        "{0,1,3,10,50,200} x bar widths 1..40 (bars without maximum too: their offset is double arithmetic, modelled bit for bit) x "
        "formats (built-in per verbosity; custom: one line with %message%, two lines with %message% / %elapsed% / %estimated%, one "
        "line with %elapsed% %remaining% %estimated%, two lines without a maximum) x min-interval {0.1, 0, 0.05} x max-interval "
        "{1, 0.5} x set_redraw_frequency {-, 1, 2, 5} x progress character {'>', tagged '>'} x ANSI / plain / section (a second section below, width 160 or 30) / quiet "
        "outputs (and quiet+plain, plain section, quiet section; the ANSI kinds also on a stream that says it supports ANSI with an "
        "AnsiFormatter that is NOT forced - what a terminal gives) x the minimum interval given to the constructor or afterwards to "
        "min_seconds_between_redraws(0.5 / 0.05 / 0.2 / 0) x a format showing a message set under a name of its own (%title%: plain, "
        "tagged, never set) x in an eighth of the random cases one or two long waits (59 s .. 2.3 days: every form of format_time): all sequences up to length 3 (quick) / 4 (thorough) for seven base "
        "set-ups (ANSI, plain, no maximum with width 7, section with redraw frequency 2 and writes below, verbose custom format "
        "with tagged messages and min-interval 0.05, plain without maximum and min-interval 0, a terminal with an unforced formatter and the "
        "interval 0.2 given to the setter and a named message) under uniform and mixed timings, "
        "random sequences up to length 60 over everything; every stream write with its clock value is compared and replayed on "
        "a terminal emulator (after every call on a section output); non-trivial = >= 2 frames; distinct by case")
TRUSTED = ["virtual clock: time.time replaced by exact fractions, constant during one call; Base/Term.v as the terminal; pastel is "
           "modelled by Model/Markup.v and SectionOutput by Model/Section.v (tied by C11 / C15 and by this run)"]
ASSUMPTIONS = ["the bar and empty-bar characters are the 1-cell defaults, the progress character is one visible cell ('>', also inside a tag); messages are one line of good markup (no line break, every tag "
               "closed); on a non-section ANSI output every frame is shorter than the terminal width (the line clause); "
               "%estimated% / %remaining% without a maximum raise the documented RuntimeError (model and code agree on it)",
               "a message under a name of its own is set once, before the first call (for the model it is a literal piece of the format); "
               "the whole run lasts less than seven days (format_time answers None beyond: the frame then says 'None' - code and model)"]

DTS = [0, 10, 50, 200, 2000]
LONG_DTS = [59000, 61000, 3600000, 5400000, 7200000, 90000000, 129600000, 200000000]      # ms: up to 2.3 days
# pieces: [0, text] literal, 1 current, 2 max, 3 bar, [4, spec] percent, [5, spec] elapsed, [6, spec] estimated, 7 message,
# [8, spec] remaining; spec = [] | [0, n] right-justified | [1, n] left-justified
CUSTOM = {
    "c1": [[0, " "], [1], [0, "/"], [2], [0, " ["], [3], [0, "] "], [4, [0, 3]], [0, "% "], [7]],
    "c2": [[7], [0, "\n "], [1], [0, " ["], [3], [0, "] "], [5, [0, 6]], [0, "/"], [6, [1, 6]]],
    "c3": [[7], [0, " "], [1], [0, "/"], [2], [0, " ["], [3], [0, "] "], [4, []], [0, "% "], [5, []], [0, "|"], [8, [0, 9]], [0, "|"],
           [6, []]],
    "c4": [[0, " "], [1], [0, " ["], [3], [0, "]\n "], [7], [0, " "], [5, []]],
    # [9, name]: a message set under a name of its own - set_message(text, name) - and shown by %name%
    "c5": [[9, "title"], [0, ": "], [1], [0, "/"], [2], [0, " ["], [3], [0, "] "], [7]],
}
NEEDS_MAX = ("c2", "c3")
NAMES = {1: "current", 2: "max", 3: "bar", 4: "percent", 5: "elapsed", 6: "estimated", 7: "message", 8: "remaining"}
MSGS = ["working", "a longer message here", "<info>ok</info>", "<info>a considerably longer tagged message</info> <b>done</b>",
        "p<fg=red>q</>r", "",
        "re\u00e7u: donn\u00e9es \u03bb\u0436", "<info>\u00e9t\u00e9</info> \u00fc"]      # one-cell characters beyond ASCII (appended: earlier cases name messages by text)
PCHARS = ["<info>></info>", "<b>></b>"]        # a progress character carrying a tag: one visible cell
TITLES = ["Downloading", "<comment>stage 2</comment> of 3"]      # the message named 'title' of format c5 (None: never set)
MINSETS = [0.5, 0.05, 0.2, 0]       # min_seconds_between_redraws(v) called after the constructor (0: the call changes nothing)
BELOW = ["below", "<info>two</info>\nlines", "a line of the section below that is longer than thirty cells"]


def fmt_string(pieces):
    out = ""
    for p in pieces:
        if p[0] == 0:
            out += p[1]
        elif p[0] == 9:
            out += "%" + p[1] + "%"
        else:
            sp = ""
            if len(p) > 1 and p[1]:
                sp = ":%s%ds" % ("-" if p[1][0] == 1 else "", p[1][1])
            out += "%" + NAMES[p[0]] + sp + "%"
    return out


_PH = re.compile(r"(?i)%([a-z\-_]+)(?::([^%]+))?%")


def parse_fmt(s):
    """a format string -> pieces (the placeholders the way ProgressBar.display finds them)"""
    inv = dict((v, k) for k, v in NAMES.items())
    out, pos = [], 0
    for m in _PH.finditer(s):
        if m.group(1) not in inv:
            continue
        if m.start() > pos:
            out.append([0, s[pos:m.start()]])
        out.append([inv[m.group(1)]])
        pos = m.end()
    if pos < len(s):
        out.append([0, s[pos:]])
    return out


OPS = [[0, None], [0, 5], [1, 1], [1, 3], [1, -2], [2, 7], [3], [4], [5], [1, 0], [0, 0]]


def cfg_of(**kw):
    c = {"kind": "ansi", "verb": 0, "max": 10, "bw": 10, "min": 0.1, "fmt": None, "msg": None, "maxs": 1, "rf": None, "w": WIDTH,
         "below": None, "pc": ">",
         "out": None,        # None: a buffer with a forced AnsiFormatter / a PlainFormatter; "tty": a stream that supports ANSI with an
                             # AnsiFormatter that is NOT forced (what a real terminal gives)
         "minset": None,     # min_seconds_between_redraws(v) after the constructor
         "named": None}      # the message named 'title' (format c5)
    c.update(kw)
    return c


def min_interval(cfg):
    """the configured minimum interval: the constructor's, or what the setter was given (it ignores values <= 0)"""
    return cfg["minset"] if cfg["minset"] is not None and cfg["minset"] > 0 else cfg["min"]


def norm_cfg(cfg):
    """cases written before the section kind / the redraw settings existed"""
    return cfg_of(**cfg)


def set_values(mx):
    return sorted(set([0, 1, max(0, mx - 1), mx, mx + 3]))


def exhaustive_setups():
    """(configuration, alphabet) pairs of the explicit exploration"""
    a = lambda *more: [list(o) for o in OPS] + [list(o) for o in more]
    small = [[0, None], [0, 5], [1, 1], [1, 3], [1, -2], [3], [4], [5]]
    return [
        (cfg_of(), a()),
        (cfg_of(kind="plain", max=3), a()),
        (cfg_of(max=0, bw=7), a()),
        (cfg_of(kind="section", max=3, bw=5, min=0, rf=2, below="below"), small + [[2, 3], [2, 6], [7, "x"]]),
        (cfg_of(verb=1, fmt="c1", msg=MSGS[1], min=0.05, pc=PCHARS[0]), small + [[2, 9], [2, 0], [6, MSGS[2]], [6, MSGS[3]]]),
        (cfg_of(kind="plain", max=0, bw=15, min=0), small + [[2, 1], [0, 0], [1, 0]]),
        # a terminal (ANSI by the stream, formatter not forced), the minimum interval given to the setter, a named message
        (cfg_of(out="tty", max=3, bw=6, min=0, minset=0.2, fmt="c5", named=TITLES[1], msg=MSGS[0]), small),
    ]


def gen(rng, tier, info):
    depth = {"quick": 3, "thorough": 4, "search": 2}[tier]
    nrand = {"quick": 5000, "thorough": 60000, "search": 2000}[tier]
    cases = []
    for cfg, al in exhaustive_setups():
        for k in range(1, depth + 1):
            for seq in itertools.product(range(len(al)), repeat=k):
                for dts in ([0] * k, [200] * k, [50, 2000, 10, 0][:k]) if cfg["minset"] is None else ([0] * k, [200] * k, [50, 200, 10, 0][:k]):
                    if k == 1 and dts != [0]:
                        continue
                    cases.append({"cfg": cfg, "ops": [[d, list(al[i])] for d, i in zip(dts, seq)]})
    n_ex = len(cases)
    for _ in range(nrand):
        kind = rng.choice(["ansi", "ansi", "ansi", "plain", "plain", "section", "section", "section", "quiet",
                           rng.choice(["quietplain", "sectionplain", "quietsection"])])
        mx = rng.choice([0, 1, 3, 10, 50, 200])
        fmt = rng.choice([None, None, None, "c1", "c2", "c3", "c4", "c5"])
        if fmt in NEEDS_MAX and mx == 0 and rng.random() < 0.9:
            fmt = "c4"     # %estimated% / %remaining% raise without a maximum (documented RuntimeError): kept rare
        sec = kind in ("section", "quietsection")
        cfg = cfg_of(kind=kind, verb=rng.choice([0, 0, 1, 2, 4]), max=mx, bw=rng.randint(1, 40), min=rng.choice([0.1, 0.1, 0, 0.05]),
                     fmt=fmt, msg=rng.choice([None, None] + MSGS), maxs=rng.choice([1, 1, 1, 0.5]), rf=rng.choice([None, None, 1, 2, 5]),
                     w=rng.choice([WIDTH, WIDTH, NARROW]) if sec else WIDTH,
                     below=rng.choice([None] + BELOW) if kind.startswith("section") or sec else None,
                     pc=rng.choice([">"] * 5 + PCHARS),
                     out="tty" if is_ansi(kind) and rng.random() < 0.3 else None,
                     minset=rng.choice(MINSETS) if rng.random() < 0.25 else None,
                     named=rng.choice(TITLES + [None]) if fmt == "c5" else None)
        pool = [list(o) for o in OPS] + [[1, 1]] * 6 + [[1, max(1, mx // 4)]] + [[2, k] for k in set_values(mx)] \
            + [[6, m] for m in rng.sample(MSGS, 2)]
        if sec:
            pool += [[7, rng.choice(BELOW)], [7, "y"]]
        ops = []
        for _ in range(rng.randint(2, 60)):
            o = rng.choice(pool)
            if o[0] == 0 and o[1] == 0 and fmt in NEEDS_MAX and rng.random() < 0.9:
                continue
            ops.append([rng.choice(DTS), list(o)])
        if ops and rng.random() < 0.12:
            # a bar that runs for long: one or two long waits (minutes, hours, more than a day - every form format_time knows;
            # the whole run stays under the seven days beyond which format_time answers None)
            for _ in range(rng.choice([1, 2])):
                ops[rng.randrange(len(ops))][0] = rng.choice(LONG_DTS)
        cases.append({"cfg": cfg, "ops": ops})
    info["exhaustive"] = True
    info["distribution"] = {"exhaustive": n_ex, "random": nrand, "depth": depth, "setups": len(exhaustive_setups())}
    return cases


T0 = 1000000


def sty(tag=None, fg=None, bg=None, attrs=0):
    return {"tag": tag, "fg": fg, "bg": bg, "attrs": attrs}


def default_set():
    """clikit's DefaultStyleSet (attribute bits: bold italic dark underlined blinking inverse hidden)"""
    return [sty("info", "green"), sty("comment", "cyan"), sty("question", "blue"), sty("error", "red", None, 1), sty("b", None, None, 1),
            sty("u", None, None, 8), sty("c1", "cyan"), sty("c2", "yellow")]


def w_style(st):
    o = lambda v: [] if v is None else [S(v)]
    return [o(st["tag"]), o(st["fg"]), o(st["bg"])] + [st["attrs"] >> i & 1 for i in range(7)]


def is_ansi(kind):
    return kind in ("ansi", "quiet", "section", "quietsection")


def is_quiet(kind):
    return kind.startswith("quiet")


def is_section(kind):
    return kind in ("section", "sectionplain", "quietsection")


def wire(c):
    cfg = norm_cfg(c["cfg"])
    fr = lambda x: [Fraction(x).numerator, Fraction(x).denominator]
    ops = []
    for dt, o in c["ops"]:
        if o[0] == 0:
            ops.append([dt, [0, [] if o[1] is None else [o[1]]]])
        elif o[0] in (1, 2):
            ops.append([dt, [o[0], o[1]]])
        elif o[0] in (6, 7):
            ops.append([dt, [o[0], S(o[1])]])
        else:
            ops.append([dt, [o[0]]])
    custom = []
    if cfg["fmt"]:
        # a named message is set once, before the first call: for the model it is a literal piece of the format (the
        # placeholder itself when no message of that name was set - ProgressBar leaves an unknown placeholder as it is)
        named = lambda p: [0, S(cfg["named"] if cfg["named"] is not None else "%" + p[1] + "%")]
        custom = [[named(p) if p[0] == 9 else [p[0], S(p[1])] if p[0] == 0 else ([p[0], p[1]] if len(p) > 1 else [p[0]])
                   for p in CUSTOM[cfg["fmt"]]]]
    return [int(is_ansi(cfg["kind"])), int(is_quiet(cfg["kind"])), int(is_section(cfg["kind"])), cfg["verb"], cfg["max"], cfg["bw"]] \
        + fr(min_interval(cfg)) + fr(cfg["maxs"]) + [[] if cfg["rf"] is None else [cfg["rf"]], custom,
                                               [] if cfg["msg"] is None else [S(cfg["msg"])], T0, ops, cfg["w"],
                                               [w_style(s) for s in default_set()], [] if cfg["below"] is None else [S(cfg["below"])],
                                               S(cfg["pc"])]


def describe(c):
    names = {0: "start", 1: "advance", 2: "set_progress", 3: "display", 4: "clear", 5: "finish", 6: "set_message", 7: "below.write_line"}
    return "%r; calls: %s" % (c["cfg"], "; ".join("+%dms %s(%s)" % (dt, names[o[0]], "" if len(o) < 2 or o[1] is None else repr(o[1]))
                                                  for dt, o in c["ops"]))


class Clock(object):
    now = T0


def run_impl(c):
    cfg = norm_cfg(c["cfg"])
    os.environ["COLUMNS"] = str(cfg["w"])
    import time
    real = time.time
    time.time = lambda: Fraction(Clock.now, 1000)
    try:
        from clikit.io import BufferedIO
        from clikit.formatter import AnsiFormatter, PlainFormatter
        from clikit.ui.components import ProgressBar
        Clock.now = T0
        kind = cfg["kind"]
        if cfg["out"] == "tty" and is_ansi(kind):
            io = tty_io()
        else:
            io = BufferedIO(formatter=AnsiFormatter(forced=True) if is_ansi(kind) else PlainFormatter())
        secs = []
        target = io
        if is_section(kind):
            secs = [io.error_output.section(), io.error_output.section()]
            if cfg["below"] is not None:
                secs[1].write_line(cfg["below"])
            target = secs[0]
        gate = secs[0] if secs else io
        if is_quiet(kind):
            gate.set_quiet(True)
        if cfg["verb"]:
            gate.set_verbosity(cfg["verb"])
        init = io.fetch_error()
        bar = ProgressBar(target, cfg["max"], cfg["min"])
        if cfg["minset"] is not None:
            bar.min_seconds_between_redraws(cfg["minset"])
        bar.set_bar_width(cfg["bw"])
        if cfg["pc"] != ">":
            bar.set_progress_character(cfg["pc"])
        if cfg["maxs"] != 1:
            bar.max_seconds_between_redraws(cfg["maxs"])
        if cfg["rf"] is not None:
            bar.set_redraw_frequency(cfg["rf"])
        if cfg["fmt"]:
            bar.set_format(fmt_string(CUSTOM[cfg["fmt"]]))
        if cfg["msg"] is not None:
            bar.set_message(cfg["msg"])
        if cfg["named"] is not None:
            bar.set_message(cfg["named"], "title")
        trace = []
        states = []      # the bar's own (current step, maximum) after every call: what a frame has to show
        t = termemu.Term(cfg["w"])
        t.feed(init)
        per_op = []      # section outputs: the screen and the bar section's content after every call
        for dt, o in c["ops"]:
            Clock.now += dt
            before = io.fetch_error()
            try:
                if o[0] == 0:
                    bar.start() if o[1] is None else bar.start(o[1])
                elif o[0] == 1:
                    bar.advance(o[1])
                elif o[0] == 2:
                    bar.set_progress(o[1])
                elif o[0] == 3:
                    bar.display()
                elif o[0] == 4:
                    bar.clear()
                elif o[0] == 5:
                    bar.finish()
                elif o[0] == 6:
                    bar.set_message(o[1])
                elif secs:
                    secs[1].write_line(o[1])
            except Exception as e:
                return ["EXC", type(e).__name__, str(e)[:80], err(e)]
            delta = io.fetch_error()[len(before):]
            t.feed(delta)
            trace.append([Clock.now, termemu.tokens(delta)])
            states.append([bar.get_progress(), bar.get_max_steps()])
            if secs:
                per_op.append([list(t.screen()), t.r, t.c, secs[0].content])
        contents = [[[S(l) for l in s.content.split("\n")[:-1]] if s.content else [], s.lines] for s in secs]
        # get_progress_percent() is a float quotient of two small integers: the reduced fraction names it exactly
        pct = Fraction(bar.get_progress_percent()).limit_denominator(10 ** 6)
        return [trace, [bar.get_progress(), bar.get_max_steps(), pct.numerator, pct.denominator], [[S(r) for r in t.screen()], t.r, t.c],
                io.fetch_output(), 0, termemu.tokens(init), contents, per_op, builtin_formats(ProgressBar), states]
    finally:
        time.time = real


def tty_io():
    """an IO on buffers that say they support ANSI (a terminal), with an AnsiFormatter that is not forced"""
    from clikit.api.io import IO, Input, Output
    from clikit.io.input_stream import StringInputStream
    from clikit.io.output_stream import BufferedOutputStream
    from clikit.formatter import AnsiFormatter

    class Tty(BufferedOutputStream):
        def supports_ansi(self):
            return True

    class TtyIO(IO):
        def fetch_output(self):
            return self.output.stream.fetch()

        def fetch_error(self):
            return self.error_output.stream.fetch()
    f = AnsiFormatter()
    return TtyIO(Input(StringInputStream("")), Output(Tty(), f), Output(Tty(), f))


def builtin_formats(cls):
    return sorted(set(cls.formats.values()))


# ---- the class of the frame theorems, decided independently of the model (Model/Section.v good_lineb / good_textb) ----
_VIS = {}


def visible(line):
    """the tag-stripped text of one line, by a fresh undecorated formatter; (None, False) when it raises"""
    if line not in _VIS:
        from clikit.formatter import PlainFormatter
        p = PlainFormatter()._formatter
        try:
            _VIS[line] = (p.colorize(line), len(p._style_stack.styles) == 0)
        except Exception:  # noqa
            _VIS[line] = (None, False)
    return _VIS[line]


def good_line(l):
    if "\n" in l or "\t" in l or "\x1b" in l or l.endswith("\\"):
        return False
    from pastel import Pastel
    prev = 0
    for m in Pastel.FULL_TAG_REGEX.finditer(l):
        if l[prev:m.start()].endswith("\\"):
            return False
        prev = m.end()
    v, balanced = visible(l)
    return v is not None and balanced


def good_case(c):
    cfg = norm_cfg(c["cfg"])
    msgs = ([cfg["msg"]] if cfg["msg"] is not None else []) + [o[1] for _, o in c["ops"] if o[0] == 6] \
        + ([cfg["named"]] if cfg["named"] is not None and cfg["fmt"] == "c5" else [])
    texts = ([cfg["below"]] if cfg["below"] is not None else []) + [o[1] for _, o in c["ops"] if o[0] == 7]
    return all(good_line(m) for m in msgs + [cfg["pc"]]) and all(good_line(l) for t in texts for l in t.split("\n"))


def canon_impl(c, o):
    if o and o[0] == "EXC":
        return o[3]
    return [0, o[5], o[0], o[1], o[2], o[6], int(good_case(c)), int(in_history_class(c))]


def in_history_class(c):
    """the premises of the Coq theorems about whole histories (ansi_line_over_histories, section_below_intact_over_histories)
    as this side expects them to hold: every generated message is good markup that does not end inside a tag and every frame
    fits the width, so what decides is the format - one line on a plain ANSI output, any on a section"""
    cfg = norm_cfg(c["cfg"])
    if is_quiet(cfg["kind"]) or not is_ansi(cfg["kind"]) or is_section(cfg["kind"]):
        return True
    return cfg["fmt"] is None or "\n" not in fmt_string(CUSTOM[cfg["fmt"]])


# ---- decoding a frame by its format ----


ANY = r"[^\n]*?"      # a field the statement does not speak of: any text without a line break, as short as the anchors allow


def frame_regex(pieces):
    """the pattern of a frame of this format: literal parts as they are (blanks may pad every line), current step / maximum /
    bar segment / percentage decoded, every other placeholder - durations, messages, named messages - lenient"""
    rx = ""
    for p in pieces:
        k = p[0]
        if k == 0:
            rx += " *\n".join(re.escape(part) for part in p[1].split("\n"))     # blanks pad every line of a frame
        elif k == 1:
            rx += r" *(?P<cur>\d+)"
        elif k == 2:
            rx += r"(?P<max>\d+)"
        elif k == 3:
            rx += r"(?P<bar>[=>-]*)"
        elif k == 4:
            rx += r" *(?P<pct>\d+) *"
        else:
            rx += ANY
    return re.compile(rx + r" *\Z")


def text_of(toks):
    return "".join(chr(t[1]) if t[0] == 0 else ("\n" if t[0] == 1 else "") for t in toks)


def rows_of(lines, w):
    out = []
    for l in lines:
        out += termemu.wrap_rows(l, w)
    return out


def oracle(c, o):
    """The statement of C16 on what the real code did - and nothing beyond it.  A frame is decoded by a pattern built from
    the format: the literal parts of the format are the anchors, the fields the statement speaks of (current step, maximum,
    bar segment, percentage) are decoded, every other placeholder (elapsed / remaining / estimated time, messages) matches any
    text without a line break: how a duration or a message is written is not the property's business.  'Current step' and
    'maximum' are the bar's own (get_progress() / get_max_steps() after the call): the statement does not say how a step
    beyond the maximum is treated, only that what is shown is the current step, within 0..maximum, with its percentage."""
    cfg = norm_cfg(c["cfg"])
    kind = cfg["kind"]
    fmtp = CUSTOM[cfg["fmt"]] if cfg["fmt"] else None
    if o and o[0] == "EXC":
        if o[1] == "RuntimeError" and cfg["fmt"] in NEEDS_MAX \
                and (cfg["max"] <= 0 or any(op[0] == 0 and op[1] is not None and op[1] <= 0 for _, op in c["ops"])):
            return None      # %estimated% / %remaining% on a bar without maximum: the documented refusal (whatever its wording)
        return "exception:" + o[1]
    trace, (step, mx, _pn, _pd), (screen, scr_r, scr_c), stdout, _unused, init, contents, per_op, builtin, states = o
    if stdout != "":
        return "wrote-to-standard-output"
    quiet, plain, section = is_quiet(kind), not is_ansi(kind), kind == "section"
    flc = fmt_string(fmtp).count("\n") if fmtp else 0
    w = cfg["w"]
    below = cfg["below"].split("\n") if (is_section(kind) and cfg["below"] is not None) else []
    prev = None               # the bar's (step, maximum) before the call
    last_draw = None          # clock value of the previous write of the bar
    latest = None             # the text of the latest write of the bar (lines), None before the first
    latest_frame = None       # the decoded latest FRAME (not a clear)
    nwrites = 0
    ends_nl = False           # plain output: the previous write of the bar ended with a line break
    for i, ((now, toks), (dt, op)) in enumerate(zip(trace, c["ops"])):
        st_step, st_max = states[i]
        reached = st_max > 0 and st_step == st_max and prev != (st_step, st_max)
        prev = (st_step, st_max)
        if st_step < 0 or (st_max > 0 and st_step > st_max):
            return "step-out-of-range"
        if op[0] == 7:
            below = below + op[1].split("\n")
        if section or kind == "quietsection":
            # the section clause of C15, after every call: the screen is the bar's section on top of the section below
            scr, r, col, content = per_op[i]
            own = content.split("\n")[:-1] if content else []
            stack = rows_of([visible(l)[0] for l in own], w) + rows_of([visible(l)[0] for l in below], w)
            if scr != stack + [""] or r != len(stack) or col != 0:
                return "section-below-disturbed-or-stale-rows"
            if own and len(own) != flc + 1:
                return "frame-did-not-replace-its-own-lines"
        if op[0] == 7:
            continue
        if quiet:
            if toks:
                return "quiet-output-received-bytes"
            continue
        if op[0] in (1, 2) and reached and not toks:
            return "reaching-the-maximum-did-not-draw"
        if op[0] == 5 and not plain and not toks:
            return "finish-did-not-draw"
        if toks:
            ctl = [t for t in toks if t[0] not in (0, 1)]
            if plain and ctl:
                return "control-code-on-plain-output"
            if section:
                lines = [visible(l)[0] for l in per_op[i][3].split("\n")[:-1]]
            else:
                text = text_of(toks)
                if plain:
                    # every frame on its own line: a line break between two frames, written behind the one or before the other
                    # (one line break is the separator; a frame may itself begin with an empty line - an empty message)
                    if nwrites > 0 and not ends_nl:
                        if not text.startswith("\n"):
                            return "plain-frames-not-on-own-lines"
                        text = text[1:]
                    ends_nl = text.endswith("\n")
                    if ends_nl:
                        text = text[:-1]
                lines = text.split("\n")
            if len(lines) != flc + 1:
                return "plain-frames-not-on-own-lines" if plain else "frame-not-well-formed"
            nwrites += 1
            latest = lines
            if op[0] != 4:
                cands = [fmtp] if fmtp else [parse_fmt(f) for f in builtin]
                m = None
                for pieces in cands:
                    m = frame_regex(pieces).match("\n".join(lines))
                    if m:
                        break
                if not m:
                    return "frame-not-well-formed"
                g = m.groupdict()
                if g.get("bar") is not None and len(g["bar"]) != cfg["bw"]:
                    return "bar-segment-width"
                if g.get("cur") is not None and int(g["cur"]) != st_step:
                    return "shown-step-is-not-the-current-step"
                if g.get("max") is not None:
                    if int(g["max"]) != st_max:
                        return "shown-maximum-is-not-the-maximum"
                    if g.get("cur") is not None and int(g["max"]) > 0 and int(g["cur"]) > int(g["max"]):
                        return "shown-step-out-of-range"
                # the matching percentage: less than one point away from 100 * step / maximum (rounded down or to the nearest)
                if g.get("pct") is not None and st_max > 0 and abs(int(g["pct"]) * st_max - 100 * st_step) >= st_max:
                    return "shown-percentage-wrong"
                latest_frame = g
                # throttle: a redraw caused by advancing that does not reach the maximum
                if op[0] in (1, 2) and last_draw is not None and st_step != st_max \
                        and Fraction(now - last_draw, 1000) < Fraction(min_interval(cfg)):
                    return "redraw-inside-the-minimum-interval"
            last_draw = now
        # finish: the last frame after finish shows the maximum at 100 % (on a plain output it may be the frame drawn when
        # the maximum was reached: it is not written twice)
        if op[0] == 5 and st_max > 0:
            g = latest_frame
            if g is None:
                return "finish-did-not-draw"
            if (g.get("cur") is not None and int(g["cur"]) != st_max) or (g.get("pct") is not None and g["pct"] != "100") \
                    or (g.get("max") is not None and g.get("cur") is not None and g["max"] != g["cur"]):
                return "finish-not-at-100-percent"
    if quiet:
        return None
    # ANSI: the terminal shows exactly the latest frame, no residue of longer earlier frames
    if kind == "ansi" and latest is not None:
        got = [unS(r).rstrip(" ") for r in screen]
        if got != [l.rstrip(" ") for l in latest]:
            return "terminal-line-is-not-the-latest-frame"
    return None


def nontrivial_key(c, o):
    if o and o[0] != "EXC" and sum(1 for (_, toks), (_, op) in zip(o[0], c["ops"]) if toks and op[0] != 7) >= 2:
        return [c["cfg"], c["ops"]]
    return None


def shrink(c):
    ops = c["ops"]
    for i in range(len(ops)):
        yield {"cfg": c["cfg"], "ops": ops[:i] + ops[i + 1:]}
    cfg = norm_cfg(c["cfg"])
    for k, v in (("msg", None), ("fmt", None), ("verb", 0), ("rf", None), ("maxs", 1), ("below", None), ("pc", ">"), ("out", None), ("minset", None)):
        if cfg[k] != v and not (k == "fmt" and any(o[0] == 6 for _, o in ops)):
            yield {"cfg": dict(cfg, **{k: v}), "ops": ops}
    for i, (dt, o) in enumerate(ops):
        if dt:
            yield {"cfg": c["cfg"], "ops": ops[:i] + [[0, o]] + ops[i + 1:]}
