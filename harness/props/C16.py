"""C16 - a progress bar always shows a truthful, well-formed frame and ends at 100%."""
import itertools, os, re
from fractions import Fraction
from hutil import S, unS
import termemu

MODEL = "C16"
PROP_FILES = ["Props/C16.v"]
WIDTH = 100
RULE = ("call sequences over {start(), start(max'), advance(1/3/-2/max), set_progress, display, clear, finish} with the clock advanced by "
        "{0, 10, 50, 200, 2000} ms before each call (virtual clock of exact fractions) x maxima {0,1,3,10,50,200} x bar widths "
        "{1,2,10,15,28,30} x formats (built-in per verbosity, two custom ones incl. a two-line format and %message%) x "
        "min-interval {0.1, 0, 0.05} x ANSI / plain / quiet outputs: all sequences up to length 3 (quick) / 4 (thorough) for a base "
        "set-up, random sequences up to length 60 over everything; every stream write with its clock value is compared and replayed "
        "on a terminal emulator; non-trivial = >= 2 frames; distinct by case")
TRUSTED = ["virtual clock: time.time replaced by exact fractions, constant during one call; the section-output kind of progress bar "
           "is outside the model (covered by C15 for the section itself)"]
ASSUMPTIONS = ["bar / progress characters are the 1-cell defaults; frames are shorter than the terminal width for the ANSI line clause"]

DTS = [0, 10, 50, 200, 2000]
CUSTOM = {
    "c1": [[0, " "], [1], [0, "/"], [2], [0, " ["], [3], [0, "] "], [4, [0, 3]], [0, "% "], [7]],
    "c2": [[7], [0, "\n "], [1], [0, " ["], [3], [0, "] "], [5, [0, 6]], [0, "/"], [6, [1, 6]]],
}


def fmt_string(pieces):
    out = ""
    for p in pieces:
        if p[0] == 0:
            out += p[1]
        else:
            name = {1: "current", 2: "max", 3: "bar", 4: "percent", 5: "elapsed", 6: "estimated", 7: "message"}[p[0]]
            sp = ""
            if len(p) > 1 and p[1]:
                sp = ":%s%ds" % ("-" if p[1][0] == 1 else "", p[1][1])
            out += "%" + name + sp + "%"
    return out


OPS = [[0, None], [0, 5], [1, 1], [1, 3], [1, -2], [2, 7], [3], [4], [5], [1, 0], [0, 0]]


def base_cfg():
    return {"kind": "ansi", "verb": 0, "max": 10, "bw": 10, "min": 0.1, "fmt": None, "msg": None}


def gen(rng, tier, info):
    depth = {"quick": 3, "thorough": 4, "search": 2}[tier]
    nrand = {"quick": 6000, "thorough": 60000, "search": 2000}[tier]
    cases = []
    for kind in ("ansi", "plain"):
        for mx in (0, 3, 10):
            cfg = dict(base_cfg(), kind=kind, max=mx, bw=15 if mx == 0 else 10)
            for k in range(1, depth + 1):
                for seq in itertools.product(range(len(OPS)), repeat=k):
                    for dts in ([0] * k, [200] * k, [50] * k):
                        cases.append({"cfg": cfg, "ops": [[d, OPS[i]] for d, i in zip(dts, seq)]})
    n_ex = len(cases)
    for _ in range(nrand):
        kind = rng.choice(["ansi", "ansi", "plain", "quiet"])
        mx = rng.choice([0, 1, 3, 10, 50, 200])
        mn = rng.choice([0.1, 0.1, 0, 0.05])
        # the no-maximum bar offset is float arithmetic in the code unless the width is a multiple of 15
        bw = rng.choice([15, 30]) if mx == 0 else rng.choice([1, 2, 10, 15, 28, 30])
        fmt = rng.choice([None, None, "c1", "c2"])
        if fmt == "c2" and mx == 0:
            fmt = "c1"     # %estimated% raises without a maximum (documented RuntimeError)
        cfg = {"kind": kind, "verb": rng.choice([0, 0, 1, 2, 4]), "max": mx, "bw": bw, "min": mn, "fmt": fmt,
               "msg": rng.choice([None, "working", "a longer message here"])}
        if cfg["verb"] in (2, 4) and mx == 0:
            pass
        ops = []
        for _ in range(rng.randint(2, 60)):
            o = rng.choice(OPS + [[1, 1]] * 6 + [[1, max(1, mx // 4)]])
            if o[0] == 0 and o[1] == 0 and fmt == "c2":
                continue
            ops.append([rng.choice(DTS), list(o)])
        cases.append({"cfg": cfg, "ops": ops})
    info["exhaustive"] = True
    info["distribution"] = {"exhaustive": n_ex, "random": nrand, "depth": depth}
    return cases


T0 = 1000000


def wire(c):
    cfg = c["cfg"]
    num, den = Fraction(cfg["min"]).numerator, Fraction(cfg["min"]).denominator
    ops = []
    for dt, o in c["ops"]:
        if o[0] == 0:
            ops.append([dt, [0, [] if o[1] is None else [o[1]]]])
        elif o[0] in (1, 2):
            ops.append([dt, [o[0], o[1]]])
        else:
            ops.append([dt, [o[0]]])
    custom = []
    if cfg["fmt"]:
        custom = [[[p[0], S(p[1])] if p[0] == 0 else ([p[0], p[1]] if len(p) > 1 else [p[0]]) for p in CUSTOM[cfg["fmt"]]]]
    return [int(cfg["kind"] != "plain" and cfg["kind"] != "quietplain"), int(cfg["kind"].startswith("quiet")), cfg["verb"], cfg["max"],
            cfg["bw"], num, den, custom, [] if cfg["msg"] is None else [S(cfg["msg"])], T0, ops, WIDTH]


def describe(c):
    names = {0: "start", 1: "advance", 2: "set_progress", 3: "display", 4: "clear", 5: "finish"}
    return "%r; calls: %s" % (c["cfg"], "; ".join("+%dms %s(%s)" % (dt, names[o[0]], "" if len(o) < 2 or o[1] is None else o[1])
                                                  for dt, o in c["ops"]))


class Clock(object):
    now = T0


def run_impl(c):
    os.environ["COLUMNS"] = str(WIDTH)
    import time
    real = time.time
    time.time = lambda: Fraction(Clock.now, 1000)
    try:
        from clikit.io import BufferedIO
        from clikit.formatter import AnsiFormatter, PlainFormatter
        from clikit.ui.components import ProgressBar
        cfg = c["cfg"]
        Clock.now = T0
        ansi = cfg["kind"] in ("ansi", "quiet")
        io = BufferedIO(formatter=AnsiFormatter(forced=True) if ansi else PlainFormatter())
        if cfg["kind"].startswith("quiet"):
            io.set_quiet(True)
        if cfg["verb"]:
            io.set_verbosity(cfg["verb"])
        bar = ProgressBar(io, cfg["max"], cfg["min"])
        bar.set_bar_width(cfg["bw"])
        if cfg["fmt"]:
            bar.set_format(fmt_string(CUSTOM[cfg["fmt"]]))
        if cfg["msg"] is not None:
            bar.set_message(cfg["msg"])
        trace = []
        getters_ok = True
        data_all = ""
        for dt, o in c["ops"]:
            Clock.now += dt
            before = io.fetch_error()
            try:
                if o[0] == 0:
                    bar.start() if o[1] is None else bar.start(o[1])
                elif o[0] == 1:
                    bar.advance(o[1])
                elif o[0] == 2:
                    bar.set_progress(o[1])
                elif o[0] == 3:
                    bar.display()
                elif o[0] == 4:
                    bar.clear()
                else:
                    bar.finish()
            except Exception as e:
                return ["EXC", type(e).__name__, str(e)[:80]]
            delta = io.fetch_error()[len(before):]
            data_all += delta
            trace.append([Clock.now, termemu.tokens(delta)])
            mxs = bar.get_max_steps()
            getters_ok = getters_ok and (bar.get_progress_percent() == ((bar.get_progress() / mxs) if mxs else 0.0))
        t = termemu.Term(WIDTH)
        t.feed(data_all)
        return [trace, [bar.get_progress(), bar.get_max_steps()], [[S(r) for r in t.screen()], t.r, t.c],
                io.fetch_output(), int(getters_ok)]
    finally:
        time.time = real


def canon_impl(c, o):
    if o and o[0] == "EXC":
        return o
    return o[:3]


_FRAME = re.compile(r"^ *(\d+)(?:/(\d+))? \[([=>-]*)\](?: +(\d+)%)?")


def frames_of(c, o):
    """decode the frames written (text of each non-empty write)"""
    out = []
    for now, toks in o[0]:
        text = "".join(chr(t[1]) if t[0] == 0 else ("\n" if t[0] == 1 else "") for t in toks)
        ctl = [t for t in toks if t[0] not in (0, 1)]
        if toks:
            out.append((now, text, ctl))
    return out


def oracle(c, o):
    if o and o[0] == "EXC":
        return "exception:" + o[1]
    cfg = c["cfg"]
    if o[3] != "":
        return "wrote-to-standard-output"
    fr = frames_of(c, o)
    if cfg["kind"].startswith("quiet"):
        return "quiet-output-received-bytes" if fr else None
    step, mx = o[1]
    if step < 0 or (mx > 0 and step > mx):
        return "step-out-of-range"
    builtin_or_c1 = cfg["fmt"] in (None, "c1")
    last_draw = None
    sim_max, sim_step = max(0, cfg["max"]), 0
    for (now, toks), (dt, op) in zip(o[0], c["ops"]):
        # the bookkeeping the property talks about (maximum growth, clamping), restated independently
        if op[0] == 0:
            sim_step = 0
            if op[1] is not None:
                sim_max = max(0, op[1])
        elif op[0] in (1, 2):
            st = sim_step + op[1] if op[0] == 1 else op[1]
            if sim_max and st > sim_max:
                sim_max = st
            elif st < 0:
                st = 0
            sim_step = st
        elif op[0] == 5:
            if not sim_max:
                sim_max = sim_step
            if not (sim_step == sim_max and cfg["kind"] == "plain"):
                sim_step = sim_max
        if not toks:
            continue
        text = "".join(chr(t[1]) if t[0] == 0 else ("\n" if t[0] == 1 else "") for t in toks)
        ctl = [t for t in toks if t[0] not in (0, 1)]
        if cfg["kind"] == "plain" and ctl:
            return "control-code-on-plain-output"
        if builtin_or_c1 and op[0] != 4:
            m = _FRAME.match(text.lstrip("\n"))
            if not m:
                return "frame-not-well-formed"
            cur, fmax, bar, pct = m.group(1), m.group(2), m.group(3), m.group(4)
            if len(bar) != cfg["bw"]:
                return "bar-segment-width"
            if int(cur) != sim_step:
                return "shown-step-is-not-the-current-step"
            if fmax is not None and int(fmax) > 0:
                if int(cur) > int(fmax) or int(cur) < 0:
                    return "shown-step-out-of-range"
                if pct is not None and int(fmax) > 0 and int(pct) != int(cur) * 100 // int(fmax):
                    return "shown-percentage-wrong"
        # throttle: a redraw caused by advancing that does not reach the maximum
        if op[0] in (1, 2) and last_draw is not None:
            reached = sim_step == sim_max
            if not reached and Fraction(now - last_draw, 1000) < Fraction(cfg["min"]):
                return "redraw-inside-the-minimum-interval"
        last_draw = now
    # plain: every frame on its own line
    if cfg["kind"] == "plain":
        whole = "".join("".join(chr(t[1]) if t[0] == 0 else "\n" for t in toks) for _, toks in o[0])
        nfr = sum(1 for _, toks in o[0] if toks)
        if cfg["fmt"] != "c2" and nfr and len(whole.split("\n")) != nfr:
            return "plain-frames-not-on-own-lines"
    # finish: the last call being finish on a non-quiet overwriting output draws the maximum
    if c["ops"] and c["ops"][-1][1][0] == 5 and cfg["kind"] == "ansi":
        if not o[0][-1][1]:
            return "finish-did-not-draw"
        if step != mx:
            return "finish-left-step-below-max"
        screen = [unS(r) for r in o[2][0]]
        m = _FRAME.match(screen[-1]) if (builtin_or_c1 and screen) else None
        if m and m.group(2) is not None and int(m.group(2)) > 0 and m.group(4) is not None:
            if m.group(4) != "100" or m.group(1) != m.group(2):
                return "finish-not-at-100-percent"
    # ANSI single-line formats: the terminal line shows exactly the latest frame
    if cfg["kind"] == "ansi" and cfg["fmt"] != "c2" and fr:
        last_text = None
        for (now, toks), (dt, op) in zip(o[0], c["ops"]):
            if toks:
                last_text = "".join(chr(t[1]) for t in toks if t[0] == 0)
        screen = [unS(r) for r in o[2][0]]
        if len(screen) != 1 or screen[0].rstrip(" ") != last_text.rstrip(" "):
            return "terminal-line-is-not-the-latest-frame"
    return None


def nontrivial_key(c, o):
    if o and o[0] != "EXC" and sum(1 for _, toks in o[0] if toks) >= 2:
        return [c["cfg"], c["ops"]]
    return None


def shrink(c):
    ops = c["ops"]
    for i in range(len(ops)):
        yield {"cfg": c["cfg"], "ops": ops[:i] + ops[i + 1:]}
