"""The command handler of the C09 / C17 applications.  Kept in a file of its own and short: when the handler raises, the
error report shows a highlighted snippet of the file the exception came from (the whole file is tokenized per report)."""


def make(rec, Question):
    class Handler(object):
        def handle(self, args, io, command):
            rec["handler"] = command.full_name.split(" ")
            rec["seen"] = [io.verbosity, int(io.is_quiet()), int(io.is_interactive()),
                           int(io.output.supports_ansi()), int(io.error_output.supports_ansi())]
            for lvl, name in ((0, "normal"), (1, "verbose"), (2, "veryverbose"), (4, "debug")):
                io.write_line("<info>out-%s</info>" % name, lvl if lvl else None)
                io.error_line("<info>err-%s</info>" % name, lvl if lvl else None)
            rec["answer"] = Question("Name?", "dflt").ask(io)
            given = []
            for a in args.arguments().values():
                given += a if isinstance(a, list) else [a]
            # what a handler does to the formatter of ITS run must not be there in the next run (seeded change C17-i)
            if "style" in given:
                from clikit.api.formatter import Style
                io.output.formatter.add_style(Style("zz").fg("red").bold())
            if "style" in given or "usezz" in given:
                io.write_line("<zz>maybe styled</zz>")
            if "opentag" in given:
                io.write_line("<info>never closed")
            if "boom" in given:
                raise RuntimeError("handler failed")
            return 0
    return Handler
