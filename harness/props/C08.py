"""C08 - splitting a command string never fails and inverts shell-style quoting."""
import itertools
from hutil import S, unS, err

MODEL = "C08"
PROP_FILES = ["Props/C08.v"]
RULE = ("exhaustive: all strings up to length 6 (quick) / 7 (thorough) over {a, space, tab, ', \", backslash, -} and up to length 5 "
        "over {n, #, space, ', \", backslash} (a letter an escape translation would touch, a comment character) and up to length 4 "
        "over {NUL, a, space, ', backslash}; NUL, other C0 controls, ESC, DEL, a byte-order mark, a lone surrogate, a non-character "
        "in 3 % of the random characters; seeded random "
        "token lists (0-4 tokens of 0-5 chars over all printable ASCII, \\n \\t \\r, all 29 whitespace code points, combining / "
        "astral / other non-ASCII characters, quotes and backslash weighted up; a third of the lists drawn from a pool of command "
        "names, option spellings, '--' and quoted values) quoted per token with ' or \" (or left bare when possible) and joined by "
        "random whitespace runs - an expressible stream (round trip required; the argv form is the generated list, NOT the "
        "tokeniser's output, and both forms go through two parsers (strict + lenient, a format whose option names occur in the "
        "lists) and the DefaultResolver of a 2-level application) and an inexpressible one (model = implementation only); long "
        "inputs of 50..5000 characters built from repeated units ('\", \\\\, \"a', ' \", spaces: deep quote nesting); argv lists "
        "with '--' at every position and lists of <= 3 tokens that only look like '--' (' --', '-- ', '--\\t', '---', an em dash); "
        "2 % of the token lists and 10 % of the unquoted word lists carry one LONG token (64 .. 5000 characters: round trip / "
        "split demanded there too); every string is also split by ONE TokenParser object that has split other strings before "
        "(one ending inside a quotation) - same tokens demanded; the str.isspace() table computed by the model; non-trivial = string with a quote or "
        "backslash, or >= 2 tokens; distinct by string / token list")
TRUSTED = ["parser/resolver indistinguishability of StringArgs and ArgvArgs is checked by running both forms through the same parsers "
           "and the same resolver (testing); the Coq statement string_and_argv_indistinguishable holds by construction of the model "
           "(parse/resolve/run take the token list)"]
ASSUMPTIONS = []

ALPHA = ["a", " ", "\t", "'", '"', "\\", "-"]
ALPHA2 = ["n", "#", " ", "'", '"', "\\"]
SPACES = [9, 10, 11, 12, 13, 28, 29, 30, 31, 32, 133, 160, 5760, 8192, 8193, 8194, 8195, 8196, 8197, 8198, 8199, 8200, 8201, 8202,
          8232, 8233, 8239, 8287, 12288]
PRINTABLE = [chr(x) for x in range(33, 127)]
# combining acute / diaeresis, e-acute, lambda, CJK, an astral letter, an emoji, a non-ASCII digit, zero-width space (not isspace)
FOREIGN = ["\u0301", "\u0308", "\u00e9", "\u03bb", "\u4e2d", "\U0001d4d0", "\U0001f600", "\u0663", "\u200b"]
SPECIAL = ["'", '"', "\\", "-", "=", "n", "t", "r", "#", "0", "f", "v", "$", "`"]
CONTROL = ["\n", "\t", "\r"]
# characters that are neither printable nor white space: NUL, other C0 controls, ESC, DEL, a byte-order mark, a lone
# surrogate, a non-character (audit mutant C08-6 ended the command line at a NUL; no generated string held one)
ODD = ["\x00", "\x01", "\x07", "\x08", "\x1b", "\x7f", "\ufeff", "\ud800", "\uffff", "\x00"]
ALPHA3 = ["\x00", "a", " ", "'", "\\"]
# tokens that mean something to the parser / resolver of _parse_resolve below
WORDS = ["server", "srv", "add", "list", "--", "-", "-v", "--verbose", "-f", "-fx", "-f=x", "--foo", "--foo=a b", "--foo=", "--bar",
         "-vf", "a b", "it's", 'say "hi"', "", "x", "--no", "-x", "\\n", "#c", "-#"]
UNITS = ["'\"", "\\\\", "\"a'", "' \"", "a ", "\\'", "'a\\\"", "\t", "# "]


def escape(t):
    return "".join("\\" + c if c in "'\"" else c for c in t)


def expressible(t):
    """every backslash run followed by a quote char or ending the token has even length"""
    i, n = 0, len(t)
    while i < n:
        if t[i] == "\\":
            j = i
            while j < n and t[j] == "\\":
                j += 1
            if (j == n or t[j] in "'\"") and (j - i) % 2 == 1:
                return False
            i = j
        else:
            i += 1
    return True


def bare_ok(t):
    return t != "" and not any(c in "'\"\\" or c.isspace() for c in t)


def build(toks, qs, seps, lead, trail):
    parts = []
    for t, q in zip(toks, qs):
        parts.append(t if q == 0 else (("'" if q == 1 else '"') + escape(t) + ("'" if q == 1 else '"')))
    s = lead
    for i, p in enumerate(parts):
        if i > 0:
            s += seps[i - 1]
        s += p
    return s + trail


def _rand_token(rng):
    """0-5 characters; quotes, backslash and the letters an escape translation would touch are weighted up"""
    ln = rng.randint(0, 5)
    sp = [chr(c) for c in rng.sample(SPACES, 2)]
    out = []
    for _ in range(ln):
        r = rng.random()
        if r < 0.40:
            out.append(rng.choice(SPECIAL))
        elif r < 0.75:
            out.append(rng.choice(PRINTABLE))
        elif r < 0.85:
            out.append(rng.choice(FOREIGN))
        elif r < 0.88:
            out.append(rng.choice(CONTROL))
        elif r < 0.91:
            out.append(rng.choice(ODD))
        else:
            out.append(rng.choice(sp))
    return "".join(out)


LONG_TOKEN_LENGTHS = [64, 127, 128, 255, 256, 257, 300, 1000, 1024, 4095, 4096, 4097, 5000]


def _long_token(rng, unit):
    """the unit repeated to one of LONG_TOKEN_LENGTHS characters (expressibility is kept: the unit's own is decided later)"""
    n = rng.choice(LONG_TOKEN_LENGTHS)
    t = (unit * (n // len(unit) + 1))[:n]
    # do not end inside a backslash run of the unit
    while t.endswith("\\") and not expressible(t):
        t = t[:-1]
    return t


def _long_input(rng):
    """50..5000 characters from repeated units: long runs of unmatched alternating quotes nest the scanner deeply"""
    n = rng.choice([50, 200, 800, 1200, 2500, 5000]) if rng.random() < 0.5 else rng.randint(50, 5000)
    r = rng.random()
    if r < 0.4:
        u = rng.choice(UNITS)
        s = u * (n // len(u) + 1)
    elif r < 0.7:
        us = rng.sample(UNITS, 2)
        s = (us[0] * rng.randint(1, 40) + us[1] * rng.randint(1, 40)) * (n // 2 + 1)
    else:
        parts = []
        total = 0
        while total < n:
            u = rng.choice(UNITS) * rng.randint(1, 60)
            parts.append(u)
            total += len(u)
        s = "".join(parts)
    return s[:n]


def gen(rng, tier, info):
    depth = {"quick": 6, "thorough": 7, "search": 5}[tier]
    cases = []
    for k in range(depth + 1):
        for t in itertools.product(ALPHA, repeat=k):
            cases.append({"k": 0, "s": "".join(t)})
    for k in range(1, 6):
        for t in itertools.product(ALPHA2, repeat=k):
            if "n" in t or "#" in t:
                cases.append({"k": 0, "s": "".join(t)})
    for k in range(1, 5):
        for t in itertools.product(ALPHA3, repeat=k):
            if "\x00" in t:
                cases.append({"k": 0, "s": "".join(t)})
    n_ex = len(cases)
    nr = {"quick": 20000, "thorough": 200000, "search": 10000}[tier]
    n_expr = n_words = n_long_tok = 0
    for _ in range(nr):
        nt = rng.randint(0, 4)
        words = rng.random() < 0.33
        n_words += words
        toks = [rng.choice(WORDS) if (words and rng.random() < 0.85) else _rand_token(rng) for _ in range(nt)]
        if nt and rng.random() < 0.02:
            # one LONG token (a path, a message): the statement's tokens have no maximal length; the round trip is demanded
            j = rng.randrange(nt)
            toks[j] = _long_token(rng, toks[j] or "ab")
            n_long_tok += 1
        qs = []
        for t in toks:
            qs.append(0 if (bare_ok(t) and rng.random() < (0.6 if words else 0.3)) else rng.choice([1, 2]))
        seps = ["".join(chr(rng.choice(SPACES)) for _ in range(rng.randint(1, 3))) for _ in range(max(0, nt - 1))]
        lead = "".join(chr(rng.choice(SPACES)) for _ in range(rng.randint(0, 2)))
        trail = "".join(chr(rng.choice(SPACES)) for _ in range(rng.randint(0, 2)))
        ex = all(expressible(t) for t in toks)
        n_expr += ex
        cases.append({"k": 0, "s": build(toks, qs, seps, lead, trail), "toks": toks if ex else None})
    # unquoted text: words over printable non-quote characters split at runs of any whitespace (no quoting involved)
    nu = nr // 10
    plain = [ch for ch in PRINTABLE + FOREIGN + ODD if ch not in "'\"\\"]
    for _ in range(nu):
        nt = rng.randint(2, 5)
        toks = ["".join(rng.choice(plain) for _ in range(rng.randint(1, 4))) for _ in range(nt)]
        if rng.random() < 0.1:
            j = rng.randrange(nt)
            toks[j] = _long_token(rng, toks[j])
            n_long_tok += 1
        seps = ["".join(chr(rng.choice(SPACES)) for _ in range(rng.randint(1, 3))) for _ in range(nt - 1)]
        cases.append({"k": 0, "s": build(toks, [0] * nt, seps, "", chr(rng.choice(SPACES)) if rng.random() < 0.5 else ""), "toks": toks})
    # long inputs
    nl = {"quick": 150, "thorough": 1500, "search": 60}[tier]
    for u in UNITS[:4]:
        for n in (1200, 5000):
            cases.append({"k": 0, "s": (u * n)[:n]})
    for _ in range(nl):
        cases.append({"k": 0, "s": _long_input(rng)})
    # argv lists: "--" at every position, probes
    pool = ["--", "-v", "--foo", "a", "", "-", "--=", "x y"]
    for k in range(0, 5):
        for t in itertools.product(pool[:6], repeat=k):
            cases.append({"k": 1, "toks": list(t), "probes": pool})
    # tokens that only look like the end-of-options marker
    near = ["--", " --", "-- ", "--\t", "---", "-", "\u2014", "--\n", "-v"]
    for k in range(1, 4):
        for t in itertools.product(near, repeat=k):
            cases.append({"k": 1, "toks": list(t), "probes": near})
    for k in range(0, 6):
        for t in itertools.product(["a", "\\", "'", '"'], repeat=k):
            cases.append({"k": 3, "t": "".join(t)})
    hi = {"quick": 0x3100, "thorough": 0x110000, "search": 0x100}[tier]
    for lo in range(0, hi, 0x4000):
        cases.append({"k": 2, "lo": lo, "hi": min(hi, lo + 0x4000)})
    info["exhaustive"] = True
    info["distribution"] = {"exhaustive_strings": n_ex, "max_len": depth, "random_token_lists": nr, "of_which_expressible": n_expr,
                            "token_lists_with_a_long_token (64..5000 characters)": n_long_tok,
                            "of_which_from_the_word_pool": n_words, "unquoted_word_lists": nu, "long_inputs": nl + 8,
                            "argv_lists": sum(6 ** k for k in range(5)) + sum(9 ** k for k in range(1, 4)), "isspace_range": hi}
    return cases


def wire(c):
    if c["k"] == 0:
        return [0, S(c["s"])]
    if c["k"] == 1:
        return [1, [S(t) for t in c["toks"]], [S(p) for p in c["probes"]]]
    if c["k"] == 3:
        return [3, S(c["t"])]
    return [2, c["lo"], c["hi"]]


def describe(c):
    if c["k"] == 0 and len(c["s"]) > 300:
        return "string of %d characters: %r ... %r" % (len(c["s"]), c["s"][:60], c["s"][-20:])
    return repr(c)


_ENV = None


def _env():
    """a permissive format for two parsers and a 2-level application for the resolver; the option and command names occur in WORDS"""
    global _ENV
    if _ENV is None:
        from clikit import ConsoleApplication
        from clikit.api.args.format import ArgsFormat, Argument, Option
        from clikit.api.config.application_config import ApplicationConfig
        from clikit.resolver.default_resolver import DefaultResolver
        fmt = ArgsFormat([Argument("first"), Argument("rest", Argument.MULTI_VALUED), Option("foo", "f", Option.OPTIONAL_VALUE),
                          Option("verbose", "v")])
        config = ApplicationConfig("app", "1.0")
        config.set_command_resolver(DefaultResolver())
        config.set_catch_exceptions(False)
        config.set_terminate_after_run(False)
        config.add_option("verbose", "v")
        server = config.create_command("server")
        server.add_alias("srv")
        server.add_option("foo", "f", Option.OPTIONAL_VALUE)
        add = server.create_sub_command("add")
        add.add_argument("name", Argument.OPTIONAL)
        add.add_argument("rest", Argument.MULTI_VALUED)
        add.add_option("bar", None, Option.REQUIRED_VALUE)
        lst = config.create_command("list")
        lst.default()
        lst.add_argument("what", Argument.OPTIONAL)
        _ENV = (fmt, ConsoleApplication(config))
    return _ENV


def _parse_resolve(raw):
    """what two parsers and the resolver make of a raw-arguments object"""
    from clikit.args import DefaultArgsParser
    fmt, app = _env()
    r = []
    for lenient in (False, True):
        try:
            a = DefaultArgsParser().parse(raw, fmt, lenient)
            r.append([a.arguments(), a.options()])
        except Exception as e:
            r.append(type(e).__name__)
    try:
        rc = app.resolve_command(raw)
        r.append([rc.command.full_name, rc.args.arguments(), rc.args.options()])
    except Exception as e:
        r.append(type(e).__name__)
    return r


PROBES = ["--", "-v", "a", "", "--foo", "server", "x"]


def _same(a, b):
    """everything the library reads of a raw-arguments object, for the string form a and the argv form b"""
    if list(a.tokens) != list(b.tokens) or list(a.option_tokens) != list(b.option_tokens):
        return 0
    if not all(a.has_token(p) == b.has_token(p) and a.has_option_token(p) == b.has_option_token(p) for p in PROBES):
        return 0
    ra, rb = _parse_resolve(a), _parse_resolve(b)
    if ra != rb:
        return 0
    # 2 = the comparison was not trivial: a parser or the resolver accepted the line
    return 2 if any(isinstance(x, list) for x in ra) else 1


def run_impl(c):
    from clikit.args import StringArgs, ArgvArgs
    if c["k"] == 0:
        try:
            a = StringArgs(c["s"])
        except Exception as e:
            return err(e)
        out = [0, [S(t) for t in a.tokens], [S(t) for t in a.option_tokens]]
        # tokenising is a function of the string: ONE TokenParser object that has already split other strings (one that
        # ends inside a quoted string, and this very string) gives what the new parser inside StringArgs gave
        from clikit.args.token_parser import TokenParser
        tp = TokenParser()
        try:
            tp.parse("a 'b \\")
            tp.parse(c["s"])
            again = 1 if tp.parse(c["s"]) == list(a.tokens) else 0
        except Exception:
            again = 0
        # the argv form, built WITHOUT the tokeniser wherever the case says what the string spells: the generated token list
        # (expressible stream), str.split() for text free of quotes and backslashes; else the tokens just read (whose
        # agreement with the model's tokens is the first part of this observation)
        s = c["s"]
        if c.get("toks") is not None:
            argv, indep = list(c["toks"]), 1
        elif not any(ch in "'\"\\" for ch in s):
            argv, indep = s.split(), 1
        else:
            argv, indep = list(a.tokens), 0
        b = ArgvArgs(["script"] + argv)
        same = _same(a, b)
        return out + [same, indep, again]
    if c["k"] == 1:
        argv = ["script"] + list(c["toks"])
        snapshot = list(argv)
        a = ArgvArgs(argv)
        out = [0, [S(t) for t in a.tokens], [S(t) for t in a.option_tokens],
               [[int(a.has_token(p)), int(a.has_option_token(p))] for p in c["probes"]]]
        return out + [1 if argv == snapshot else 0]
    if c["k"] == 3:
        # the generator's own expressibility predicate (decides where the oracle demands the round trip)
        return [0, 1 if expressible(c["t"]) else 0]
    return [0, [x for x in range(c["lo"], c["hi"]) if chr(x).isspace()]]


def canon_impl(c, o):
    if c["k"] == 0 and o and o[0] == 0:
        return o[:3]
    if c["k"] == 1:
        return o[:4]
    return o


def oracle(c, o):
    if o[0] != 0:
        return "tokenize-raises:%d" % o[1]
    if c["k"] == 0:
        toks = [unS(t) for t in o[1]]
        if c.get("toks") is not None and toks != c["toks"]:
            return "quoting-roundtrip"
        s = c["s"]
        if not any(ch in "'\"\\" for ch in s) and toks != s.split():
            return "unquoted-split"
        if not o[3]:
            return "string-and-argv-forms-differ"
        if len(o) > 5 and not o[5]:
            return "a-token-parser-used-before-splits-differently"
        exp = list(itertools.takewhile(lambda t: t != "--", toks))
        if [unS(t) for t in o[2]] != exp:
            return "option-tokens"
    if c["k"] == 1:
        if not o[4]:
            return "argv-list-mutated"
        toks = c["toks"]
        exp = list(itertools.takewhile(lambda t: t != "--", toks))
        if [unS(t) for t in o[1]] != toks or [unS(t) for t in o[2]] != exp:
            return "argv-tokens"
        for p, (ht, ho) in zip(c["probes"], o[3]):
            if bool(ht) != (p in toks) or bool(ho) != (p in exp):
                return "has-token"
    if c["k"] == 2:
        if o[1] != [x for x in SPACES if c["lo"] <= x < c["hi"]]:
            return "isspace-table"
    return None


def nontrivial_key(c, o):
    if c["k"] == 3:
        return None
    if c["k"] == 0 and (any(ch in "'\"\\" for ch in c["s"]) or (o[0] == 0 and len(o[1]) >= 2)):
        return c["s"]
    if c["k"] == 1 and len(c["toks"]) >= 2:
        return c["toks"]
    return None


def shrink(c):
    if c["k"] == 0:
        s = c["s"]
        if len(s) > 40:
            # long inputs: halve first
            yield {"k": 0, "s": s[:len(s) // 2]}
            yield {"k": 0, "s": s[len(s) // 2:]}
            yield {"k": 0, "s": s[:len(s) * 9 // 10]}
        for i in range(min(len(s), 200)):
            yield {"k": 0, "s": s[:i] + s[i + 1:]}
