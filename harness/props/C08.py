"""C08 - splitting a command string never fails and inverts shell-style quoting."""
import itertools
from hutil import S, unS, err

MODEL = "C08"
PROP_FILES = ["Props/C08.v"]
RULE = ("exhaustive: all strings up to length 6 (quick) / 7 (thorough) over {a, space, tab, ', \", backslash, -}; seeded random "
        "token lists (0-4 tokens of 0-5 chars over letters, all 29 whitespace code points, quotes, backslash, '-', '=', non-ASCII) "
        "quoted per token with ' or \" (or left bare when possible) and joined by random whitespace runs - an expressible stream "
        "(round trip required) and an inexpressible one (model = implementation only); argv lists with '--' at every position; "
        "str.isspace() table; non-trivial = string with a quote or backslash, or >= 2 tokens; distinct by string / token list")
TRUSTED = ["parser/resolver indistinguishability of StringArgs and ArgvArgs is checked by running both through one parser (testing)"]
ASSUMPTIONS = []

ALPHA = ["a", " ", "\t", "'", '"', "\\", "-"]
SPACES = [9, 10, 11, 12, 13, 28, 29, 30, 31, 32, 133, 160, 5760, 8192, 8193, 8194, 8195, 8196, 8197, 8198, 8199, 8200, 8201, 8202,
          8232, 8233, 8239, 8287, 12288]
TOKCHARS = list("abcxyz") + ["'", '"', "\\", "-", "=", "é", "λ"]


def escape(t):
    return "".join("\\" + c if c in "'\"" else c for c in t)


def expressible(t):
    """every backslash run followed by a quote char or ending the token has even length"""
    i, n = 0, len(t)
    while i < n:
        if t[i] == "\\":
            j = i
            while j < n and t[j] == "\\":
                j += 1
            if (j == n or t[j] in "'\"") and (j - i) % 2 == 1:
                return False
            i = j
        else:
            i += 1
    return True


def bare_ok(t):
    return t != "" and not any(c in "'\"\\" or c.isspace() for c in t)


def build(toks, qs, seps, lead, trail):
    parts = []
    for t, q in zip(toks, qs):
        parts.append(t if q == 0 else (("'" if q == 1 else '"') + escape(t) + ("'" if q == 1 else '"')))
    s = lead
    for i, p in enumerate(parts):
        if i > 0:
            s += seps[i - 1]
        s += p
    return s + trail


def gen(rng, tier, info):
    depth = {"quick": 6, "thorough": 7, "search": 5}[tier]
    cases = []
    for k in range(depth + 1):
        for t in itertools.product(ALPHA, repeat=k):
            cases.append({"k": 0, "s": "".join(t)})
    n_ex = len(cases)
    nr = {"quick": 20000, "thorough": 200000, "search": 10000}[tier]
    n_expr = 0
    for _ in range(nr):
        nt = rng.randint(0, 4)
        toks = []
        for _ in range(nt):
            ln = rng.randint(0, 5)
            pool = TOKCHARS + [chr(c) for c in rng.sample(SPACES, 2)]
            toks.append("".join(rng.choice(pool) for _ in range(ln)))
        qs = []
        for t in toks:
            qs.append(0 if (bare_ok(t) and rng.random() < 0.3) else rng.choice([1, 2]))
        seps = ["".join(chr(rng.choice(SPACES)) for _ in range(rng.randint(1, 3))) for _ in range(max(0, nt - 1))]
        lead = "".join(chr(rng.choice(SPACES)) for _ in range(rng.randint(0, 2)))
        trail = "".join(chr(rng.choice(SPACES)) for _ in range(rng.randint(0, 2)))
        ex = all(expressible(t) for t in toks)
        n_expr += ex
        cases.append({"k": 0, "s": build(toks, qs, seps, lead, trail), "toks": toks if ex else None})
    # argv lists: "--" at every position, probes
    pool = ["--", "-v", "--foo", "a", "", "-", "--=", "x y"]
    for k in range(0, 5):
        for t in itertools.product(pool[:6], repeat=k):
            cases.append({"k": 1, "toks": list(t), "probes": pool})
    for k in range(0, 6):
        for t in itertools.product(["a", "\\", "'", '"'], repeat=k):
            cases.append({"k": 3, "t": "".join(t)})
    hi = {"quick": 0x3100, "thorough": 0x110000, "search": 0x100}[tier]
    for lo in range(0, hi, 0x4000):
        cases.append({"k": 2, "lo": lo, "hi": min(hi, lo + 0x4000)})
    info["exhaustive"] = True
    info["distribution"] = {"exhaustive_strings": n_ex, "max_len": depth, "random_token_lists": nr, "of_which_expressible": n_expr,
                            "argv_lists": sum(6 ** k for k in range(5)), "isspace_range": hi}
    return cases


def wire(c):
    if c["k"] == 0:
        return [0, S(c["s"])]
    if c["k"] == 1:
        return [1, [S(t) for t in c["toks"]], [S(p) for p in c["probes"]]]
    if c["k"] == 3:
        return [3, S(c["t"])]
    return [2, c["lo"], c["hi"]]


def describe(c):
    return repr(c)


FMT = None


def _parse_both(tokens_a, raw_a, raw_b):
    """parse through one strict and one lenient parser against a permissive format; return whether both forms agree"""
    global FMT
    from clikit.api.args.format import ArgsFormat, Argument, Option
    from clikit.args import DefaultArgsParser
    if FMT is None:
        FMT = ArgsFormat([Argument("first"), Argument("rest", Argument.MULTI_VALUED), Option("foo", "f", Option.OPTIONAL_VALUE),
                          Option("verbose", "v")])
    res = []
    for raw in (raw_a, raw_b):
        r = []
        for lenient in (False, True):
            try:
                a = DefaultArgsParser().parse(raw, FMT, lenient)
                r.append([a.arguments(), a.options()])
            except Exception as e:
                r.append(type(e).__name__)
        res.append(r)
    return res[0] == res[1]


def run_impl(c):
    from clikit.args import StringArgs, ArgvArgs
    if c["k"] == 0:
        try:
            a = StringArgs(c["s"])
        except Exception as e:
            return err(e)
        out = [0, [S(t) for t in a.tokens], [S(t) for t in a.option_tokens]]
        b = ArgvArgs(["script"] + list(a.tokens))
        same = (b.tokens == a.tokens and b.option_tokens == a.option_tokens and
                all(a.has_token(p) == b.has_token(p) and a.has_option_token(p) == b.has_option_token(p) for p in ["--", "-v", "a", ""]))
        same = same and _parse_both(a.tokens, a, b)
        return out + [1 if same else 0]
    if c["k"] == 1:
        argv = ["script"] + list(c["toks"])
        snapshot = list(argv)
        a = ArgvArgs(argv)
        out = [0, [S(t) for t in a.tokens], [S(t) for t in a.option_tokens],
               [[int(a.has_token(p)), int(a.has_option_token(p))] for p in c["probes"]]]
        return out + [1 if argv == snapshot else 0]
    if c["k"] == 3:
        # the generator's own expressibility predicate (decides where the oracle demands the round trip)
        return [0, 1 if expressible(c["t"]) else 0]
    return [0, [x for x in range(c["lo"], c["hi"]) if chr(x).isspace()]]


def canon_impl(c, o):
    if c["k"] == 0 and o and o[0] == 0:
        return o[:3]
    if c["k"] == 1:
        return o[:4]
    return o


def canon_model(c, o):
    if c["k"] == 2:
        return [0, [x for x in SPACES if c["lo"] <= x < c["hi"]]]
    return o


def oracle(c, o):
    if o[0] != 0:
        return "tokenize-raises:%d" % o[1]
    if c["k"] == 0:
        if not o[3]:
            return "string-and-argv-forms-differ"
        toks = [unS(t) for t in o[1]]
        if c.get("toks") is not None and toks != c["toks"]:
            return "quoting-roundtrip"
        s = c["s"]
        if not any(ch in "'\"\\" for ch in s) and toks != s.split():
            return "unquoted-split"
        exp = list(itertools.takewhile(lambda t: t != "--", toks))
        if [unS(t) for t in o[2]] != exp:
            return "option-tokens"
    if c["k"] == 1:
        if not o[4]:
            return "argv-list-mutated"
        toks = c["toks"]
        exp = list(itertools.takewhile(lambda t: t != "--", toks))
        if [unS(t) for t in o[1]] != toks or [unS(t) for t in o[2]] != exp:
            return "argv-tokens"
        for p, (ht, ho) in zip(c["probes"], o[3]):
            if bool(ht) != (p in toks) or bool(ho) != (p in exp):
                return "has-token"
    return None


def nontrivial_key(c, o):
    if c["k"] == 3:
        return None
    if c["k"] == 0 and (any(ch in "'\"\\" for ch in c["s"]) or (o[0] == 0 and len(o[1]) >= 2)):
        return c["s"]
    if c["k"] == 1 and len(c["toks"]) >= 2:
        return c["toks"]
    return None


def shrink(c):
    if c["k"] == 0:
        s = c["s"]
        for i in range(len(s)):
            yield {"k": 0, "s": s[:i] + s[i + 1:]}
