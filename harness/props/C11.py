"""C11 - decoration changes only the look: same text, right codes, none when plain."""
import itertools, re
from hutil import S, unS, err

MODEL = "C11"
MODEL_ENTRY = "run_C11IO"       # Model/OutputIO.v: everything run_C11 answers; programs may hold IO-level calls, compiled by the model
IO_NAMES = ["write", "write_line", "write_raw", "write_line_raw", "error", "error_line", "error_raw", "error_line_raw"]
PROP_FILES = ["Props/C11.v"]
RULE = ("(a) messages built from a grammar of nested named, inline (also foreground + background + options together) and unknown "
        "tags, bare '<' '>', newlines, non-ASCII (incl. the four code points that fold into a-z) plus a malformed stream (unbalanced, "
        "unknown colours), each formatted by a fresh ANSI and a fresh plain formatter AND through IO.format(string, style=) / "
        "Output.format / SectionOutput.format with the per-call style and IO / Output.remove_format; (b) every style over 10 fg x 10 "
        "bg x 2^7 attribute sets (quick) / all 18 x 18 x 2^7 (thorough) through the three routes (style set, add_style, per-call "
        "style; the per-call route also through the I/O); histories of per-call styles on one formatter; histories on ONE "
        "decorating and ONE undecorated formatter: render, add_style, render again with format and remove_format, a style "
        "registered a second time under the same tag (a tag is text before it is registered and markup with exactly the codes of "
        "the style registered last afterwards); (c)+(d) programs of writes through the four writing methods of both outputs - "
        "through the I/O's methods and through the outputs' own - inside nested set/increment indentation scopes at IO and "
        "single-output level (depth <= 4) left normally, by an Exception or by a KeyboardInterrupt / SystemExit (a BaseException "
        "only), with sections taken inside scopes (io.section(): the body runs on a section that starts with the indentation in "
        "force), on ANSI/plain/null formatters, ANSI and plain streams, plain outputs and section outputs; texts include lines of "
        "white space only (not empty: indented); the writes made through the I/O are IO-level statements which the MODEL compiles "
        "(Model/OutputIO.v); every writer C10's reflection finds on every I/O class is called with a text that ends in no line feed "
        "and (which stream, ends the line?) is compared with the model's table of the eight IO methods; the method-table cases of "
        "the line-writing methods also run on BufferedIO, ConsoleIO, NullIO; non-trivial = a message with >= 1 recognised tag / a style with >= 1 code / a "
        "history with an add_style / a program with >= 1 scope and >= 1 write; distinct by request")
TRUSTED = ["pastel (external library) is modelled by hand in Model/Markup.v from its source; the model is compared with the "
           "installed pastel on every run through clikit's formatters"]
ASSUMPTIONS = ["flags None, outputs not quiet (gating is C10); a section output is alone on its stream (stacking is C15)"]

FG = {"black": 30, "red": 31, "green": 32, "yellow": 33, "blue": 34, "magenta": 35, "cyan": 36, "light_gray": 37, "default": 39,
      "dark_gray": 90, "light_red": 91, "light_green": 92, "light_yellow": 93, "light_blue": 94, "light_magenta": 95,
      "light_cyan": 96, "white": 97}
ATTRS = ["bold", "italic", "dark", "underlined", "blinking", "inverse", "hidden"]
ATTR_CODE = {"bold": 1, "dark": 2, "italic": 3, "underlined": 4, "blinking": 5, "inverse": 7, "hidden": 8}
COLORS10 = [None, "black", "red", "green", "blue", "cyan", "default", "dark_gray", "light_yellow", "white"]
COLORS18 = [None] + list(FG)
DEFAULT_TAGS = {"info": [32], "comment": [36], "question": [34], "error": [31, 1], "b": [1], "u": [4], "c1": [36], "c2": [33]}
SGR = re.compile("\x1b\\[[0-9;]*m")


def sty(tag=None, fg=None, bg=None, attrs=0):
    return {"tag": tag, "fg": fg, "bg": bg, "attrs": attrs}


def expected_codes(st):
    codes = []
    if st["fg"]:
        codes.append(FG[st["fg"]])
    if st["bg"]:
        codes.append(FG[st["bg"]] + 10)
    for i, a in enumerate(ATTRS):
        if st["attrs"] >> i & 1:
            codes.append(ATTR_CODE[a])
    return codes


# ---- message grammar: returns (markup, plain or None when the expected plain text is not known) ----
WORDS = ["a", "bc", " ", "x y", "\n", "l1\nl2", "é中", "", "1", "=", ";", "-", "/"]
DIRTY = ["<", ">", "< ", "<<", "a<b", "</", "<1>", "< info>", "<info", "ı", "ſ", "\\<", "a\\<b", "\\<info>", "\\"]
NAMED = list(DEFAULT_TAGS)
INLINE = ["fg=red", "bg=blue", "fg=green;bg=black", "options=bold", "options=bold,underline", "fg=cyan;options=italic,bold",
          "FG=RED", "fg=white;", "opt=blink", "options=reverse;options=conceal",
          # foreground, background and options together
          "fg=red;bg=blue;options=bold", "fg=white;bg=black;options=underline,blink", "options=bold;bg=cyan;fg=yellow",
          "bg=light_red;fg=default;options=italic,reverse,conceal"]
UNKNOWN = ["foo", "x1", "infos", "bb", "options=nope", "fg", "a=;b", "K", "İnfo", "iſ"]


def gen_msg(rng, depth, dirty):
    parts, plain = [], []
    for _ in range(rng.randint(1, 4)):
        r = rng.random()
        if r < 0.4 or depth <= 0:
            w = rng.choice(WORDS + (DIRTY if dirty else []))
            parts.append(w)
            plain.append(w)
        elif r < 0.85:
            inner, ip = gen_msg(rng, depth - 1, dirty)
            if rng.random() < 0.6:
                name = rng.choice(NAMED)
                if rng.random() < 0.2:
                    name = name.upper()
            else:
                name = rng.choice(INLINE)
            close = rng.choice(["</>", "</%s>" % name, "</%s>" % name])
            parts.append("<%s>%s%s" % (name, inner, close))
            plain.append(ip)
        else:
            u = rng.choice(UNKNOWN)
            t = rng.choice(["<%s>", "</%s>"]) % u
            parts.append(t)
            plain.append(t)
    return "".join(parts), "".join(plain)


HM_BALANCED = ["<a>x</a>", "p<a>q</a>r", "<A>x</>", "<info>i</info><a>j</a>", "x", "<b><a>n</a></b>", "<a>l1\nl2</a>"]
MALFORMED = ["<info>a", "a</info>", "<b><u>x</b></u>", "</b>x<info>y</b>", "<fg=nope>x</>", "<bg=nope>x", "<fg=red>x</fg=blue>",
             "<options=bold,italic>x</options=italic,bold>", "<b>x</u>", "</>", "</></>a", "<info>", "<b>a</>b</>c", "<info></b>",
             "<fg=red;fg=nope>x", "<opt=nope;fg=nope>x", "<b>\\<info>x</b>", "\\<info>x", "a\\<b>c</b>", "<b>x</b>\\", "\\", "\\<",
             "<b>a\\<c</b>", "<info>a</info><", "<b", "x<b>", "<b>x"]

W_TEXTS = [("a", "a"), ("", ""), ("a\nb", "a\nb"), ("\n", "\n"), ("a\n\nb", "a\n\nb"), ("t\n", "t\n"), ("t\n\n", "t\n\n"), (" lead", " lead"),
           ("<info>x</info>", "x"), ("<b>l1\nl2</b>", "l1\nl2"), ("<info>", ""), ("p<fg=red>q</>r", "pqr"), ("<foo>z", "<foo>z"),
           # lines of white space only are NOT empty: they get the indentation too
           (" ", " "), ("  \nx", "  \nx"), ("x\n \ny", "x\n \ny"), ("<b> </b>\n\t", " \n\t")]
# texts on which a write raises ValueError.  Both fail before anything is pushed on the style stack: pastel keeps the styles a
# message opened before its failing tag ('<b>x</u>' leaves bold on the stack for every later message), and the model does not carry
# formatter state out of a failed call - such texts are outside the compared domain (DESIGN.md C11, Partial).  'x</u>' raises only
# when a style is open from an earlier message.
W_BAD = ["x</u>", "<fg=nope>y"]


def gen_prog(rng, depth, bad):
    prog = []
    for _ in range(rng.randint(1, 3)):
        r = rng.random()
        if r < 0.5 or depth <= 0:
            ti = rng.randrange(len(W_TEXTS))
            prog.append(["w", rng.randrange(2), rng.randrange(4), ti if not (bad and rng.random() < 0.1) else -1 - rng.randrange(len(W_BAD))])
        elif r < 0.80:
            prog.append(["scope", rng.randrange(3), rng.randrange(2), rng.choice([0, 1, 2, 4, 4, 7, -1]), gen_prog(rng, depth - 1, bad)])
        elif r < 0.86:
            prog.append(["insec", gen_prog(rng, depth - 1, bad)])       # sub = io.section(); the body runs on sub
        elif r < 0.93:
            # left by an exception: an Exception, or one that is only a BaseException (KeyboardInterrupt, SystemExit)
            prog.append(rng.choice([["raise"], ["raise"], ["raise", 1], ["raise", 2]]))
        else:
            prog.append(["try", gen_prog(rng, depth - 1, bad)])
    return prog


def all_progs_small():
    """every nesting of depth <= 2 of one scope kind around a write + raise, then a write after it (exhaustive skeletons)"""
    out = []
    scopes = [(lv, inc, n) for lv in range(3) for inc in range(2) for n in (2, 4)]
    wr = lambda t: ["w", t, 1, 0]
    rs = [[], [["raise"]], [["raise", 1]]]          # left normally, by an Exception, by a KeyboardInterrupt
    for s1 in scopes:
        for exc in (0, 1, 2):
            body = [wr(0), wr(1)] + rs[exc]
            out.append([["try", [["scope", s1[0], s1[1], s1[2], body]]], wr(0), wr(1)])
            # a section taken INSIDE the scope starts with the indentation in force; the scope's end does not reach it
            out.append([["try", [["scope", s1[0], s1[1], s1[2], [["insec", body]] + [wr(0), wr(1)]]]], wr(0), wr(1)])
            out.append([["insec", [["try", [["scope", s1[0], s1[1], s1[2], body]]], wr(0), wr(1)]], wr(0), wr(1)])
            for s2 in scopes:
                for exc2 in ((0, 1, 2) if exc < 2 else (0, 2)):
                    inner = [["scope", s2[0], s2[1], s2[2], [wr(0), wr(1)] + rs[exc2]]]
                    out.append([["try", [["scope", s1[0], s1[1], s1[2], [["try", inner], wr(0), wr(1)] + rs[exc]]]], wr(0), wr(1)])
    return out


def gen(rng, tier, info):
    n_msg = {"quick": 6000, "thorough": 60000, "search": 1500}[tier]
    n_prog = {"quick": 6000, "thorough": 60000, "search": 1500}[tier]
    colors = COLORS18 if tier == "thorough" else COLORS10
    cases = [{"k": 4}]          # the writing methods the programs use are ALL the line / text writing methods reflection finds
    # the writers reflection finds on every I/O class, each CALLED: which stream the text goes to, whether the call ends the line -
    # against the model's table of the eight IO methods (Model/GateIO.v io_delegate, Model/OutputIO.v is_line_method)
    cases.append({"k": 5})
    # (a) messages
    for m in MALFORMED:
        cases.append({"k": 0, "set": None, "added": [], "percall": None, "msgs": [m], "plain": [None], "malformed": True})
        cases.append({"k": 0, "set": None, "added": [], "percall": sty(None, "blue", None, 1), "msgs": [m], "plain": [None], "malformed": True})
    for i in range(n_msg):
        dirty = i % 4 == 3
        msgs, plains = [], []
        for _ in range(3):
            m, p = gen_msg(rng, 3, dirty)
            msgs.append(m)
            plains.append(None if dirty else p)
        percall = None if rng.random() < 0.6 else sty(None, rng.choice(COLORS10), rng.choice(COLORS10), rng.randrange(128))
        cases.append({"k": 0, "set": None, "added": [], "percall": percall, "msgs": msgs, "plain": plains})
    n_a = len(cases)
    # (b) every style through the three routes
    if tier != "search":
        for fg in colors:
            for bg in colors:
                for at in range(128):
                    cases.append({"k": 0, "style": True, "set": [sty("t", fg, bg, at)], "added": [sty("a", fg, bg, at)],
                                  "percall": sty(None, fg, bg, at),
                                  "msgs": ["<t>x</t>", "<a>x</a>", "x", "<T>x y</>", "p<info>q</info>"], "plain": ["x", "x", "x", "x y", "pq"]})
    # invalid styles / tags
    for bad in (sty("t", "nope"), sty("t", None, "nope"), sty(None, "red"), sty("", "red"), sty("T", "red"), sty("t-1", "red"), sty("t", "", "", 3)):
        cases.append({"k": 0, "set": [bad], "added": [], "percall": None, "msgs": ["<t>x</t>", "<T>x</T>", "<t-1>x</>"], "plain": [None] * 3, "malformed": True})
        cases.append({"k": 0, "set": None, "added": [bad], "percall": None, "msgs": ["<t>x</t>"], "plain": [None], "malformed": True})
        cases.append({"k": 0, "set": None, "added": [], "percall": bad, "msgs": ["x", "<b>x</b>"], "plain": [None] * 2, "malformed": True})
    # histories of per-call styles on one formatter: fresh temporaries, and one style object refined between calls
    for i in range({"quick": 1500, "thorough": 15000, "search": 400}[tier]):
        calls = []
        cur = sty(None, None, None, 0)
        for _ in range(rng.randint(2, 5)):
            if i % 2:
                cur = dict(cur)
                r = rng.random()
                if r < 0.4:
                    cur["fg"] = rng.choice(COLORS10[1:])
                elif r < 0.6:
                    cur["bg"] = rng.choice(COLORS10[1:])
                else:
                    cur["attrs"] |= 1 << rng.randrange(7)
                st = cur
            else:
                st = sty(None, rng.choice(COLORS10), rng.choice(COLORS10), rng.randrange(128)) if rng.random() < 0.85 else None
            calls.append([rng.choice(["x", "a<b>b</b>c", "<info>i</info>", "p q", "<u>y</u>z"]), st])
        cases.append({"k": 2, "refine": i % 2, "calls": calls})
    # histories on ONE decorating and ONE undecorated formatter: render, add_style, render again (format and remove_format),
    # a style added a second time under the same tag
    HM = HM_BALANCED
    for fg in COLORS10[1:4]:
        for at in (0, 1, 8 + 64):
            st1, st2 = sty("a", fg, None, at), sty("a", "white", fg, at ^ 1)
            for m in HM:
                cases.append({"k": 3, "steps": [["f", m, None], ["r", m], ["a", st1], ["f", m, None], ["r", m], ["f", m, sty(None, "blue", None, 4)],
                                                ["a", st2], ["f", m, None], ["r", m]]})
    for i in range({"quick": 1500, "thorough": 15000, "search": 300}[tier]):
        steps = []
        for _ in range(rng.randint(3, 9)):
            r = rng.random()
            m = rng.choice(HM + ["<c>y</c>", "<a>x</c>", "<c>z", "a</a>"]) if rng.random() < 0.9 else gen_msg(rng, 2, False)[0]
            if r < 0.45:
                steps.append(["f", m, None if rng.random() < 0.7 else sty(None, rng.choice(COLORS10), rng.choice(COLORS10), rng.randrange(128))])
            elif r < 0.7:
                steps.append(["r", m])
            else:
                steps.append(["a", sty(rng.choice(["a", "c", "info", "b"]), rng.choice(COLORS10), rng.choice(COLORS10), rng.randrange(128))])
        cases.append({"k": 3, "steps": steps})
    n_b = len(cases) - n_a
    # (c) + (d) programs
    confs = [(sa, fk, sec) for sa in (0, 1) for fk in (0, 1, 2, 3) for sec in (0, 1)]
    for p in all_progs_small():
        for conf in ((1, 0, 0), (0, 2, 0), (1, 0, 1), (0, 2, 1)):
            cases.append({"k": 1, "conf": list(conf), "prog": p})
    # every writing method x target x text x configuration, at indentation 0 and 3
    for conf in confs:
        for t in range(2):
            for m in range(4):
                for ti in range(len(W_TEXTS)):
                    for via in (1, 0):       # through the IO's methods / through the methods of its outputs
                        c = {"k": 1, "conf": list(conf), "prog": [["w", t, m, ti], ["scope", 0, 0, 3, [["w", t, m, ti]]], ["w", t, m, ti]]}
                        if not via:
                            c["via_io"] = False
                        cases.append(c)
                        if via and m in (1, 3) and ti % 3 == 0:
                            # the line-writing methods of the OTHER I/O classes (they inherit IO's; an override is compared)
                            for T in ("BufferedIO", "ConsoleIO", "NullIO"):
                                if T == "NullIO" and conf[2]:
                                    continue               # NullIO().section() raises TypeError (props/C10.py UNCALLABLE)
                                cases.append(dict(c, T=T))
    # a write that fails on an invalid style, then a decorated write: the decoration must still be there
    for conf in confs:
        for t in range(2):
            for m in range(2):
                for bad in (-1, -2):
                    for m2 in range(2):
                        cases.append({"k": 1, "conf": list(conf), "after_bad": True,
                                      "prog": [["try", [["w", t, m, bad]]], ["w", t, m2, 8]]})
    n_c = len(cases) - n_a - n_b
    for i in range(n_prog):
        c = {"k": 1, "conf": list(rng.choice(confs)), "prog": gen_prog(rng, 4, i % 10 == 9)}
        if i % 3 == 2:
            c["via_io"] = False
        cases.append(c)
    info["exhaustive"] = True
    info["distribution"] = {"messages": n_a, "styles_x_routes": n_b, "program_skeletons_and_method_table": n_c, "random_programs": n_prog,
                            "colours": len(colors)}
    return cases


def w_style(st):
    if st is None:
        return []
    o = lambda v: [] if v is None else [S(v)]
    return [[o(st["tag"]), o(st["fg"]), o(st["bg"])] + [st["attrs"] >> i & 1 for i in range(7)]]


_DEFAULT_SET = []


def default_set():
    """the styles of DefaultStyleSet as read from the LIVE class (what AnsiFormatter() / PlainFormatter() register when no style
    set is given): which colour a built-in tag has is not the property's business, so the model is handed what the code has"""
    if not _DEFAULT_SET:
        import sys, os
        sys.dont_write_bytecode = True
        p = os.environ.get("CLIKIT_SRC", "/repo/src")
        if sys.path[0] != p:
            sys.path.insert(0, p)
        from clikit.formatter.default_style_set import DefaultStyleSet
        for tag, st in DefaultStyleSet().styles.items():
            flags = [st.is_bold(), st.is_italic(), st.is_dark(), st.is_underlined(), st.is_blinking(), st.is_inverse(), st.is_hidden()]
            _DEFAULT_SET.append(sty(st.tag, st.foreground_color, st.background_color, sum(1 << i for i, f in enumerate(flags) if f)))
    return [dict(x) for x in _DEFAULT_SET]


def text_of(ti):
    return W_TEXTS[ti][0] if ti >= 0 else W_BAD[-1 - ti]


def w_prog(p, via_io=False):
    """via_io: the writes are calls of the I/O's own methods - statement 5, which the MODEL compiles (Model/OutputIO.v io_stmt);
    otherwise they are calls on io.output / io.error_output - statement 0"""
    out = []
    for s in p:
        if s[0] == "w":
            out.append([5, 4 * s[1] + s[2], S(text_of(s[3]))] if via_io else [0, s[1], s[2], S(text_of(s[3]))])
        elif s[0] == "scope":
            out.append([1, s[1], s[2], s[3], w_prog(s[4], via_io)])
        elif s[0] == "raise":
            out.append([2])             # (which exception it is makes no difference to a with-block: the model has one)
        elif s[0] == "insec":
            out.append([4, w_prog(s[1], via_io)])
        else:
            out.append([3, w_prog(s[1], via_io)])
    return out


# every public member of an Output / IO class that puts its text on a stream at once (props/C10.py discover(): packages walked,
# every member CALLED on recording streams).  overwrite / clear are section operations (C15), add_content records only.
WRITERS = sorted(["write", "write_line", "write_raw", "write_line_raw", "error", "error_line", "error_raw", "error_line_raw",
                  "overwrite", "clear", "add_content"])


def wire(c):
    if c["k"] == 4:
        return [8]             # (no such request: the table WRITERS is the expectation, see canon_model)
    if c["k"] == 5:
        return [9]
    if c["k"] == 0:
        st = c["set"] if c["set"] is not None else default_set()
        return [0, [w_style(s)[0] for s in st], [w_style(s)[0] for s in c["added"]], w_style(c["percall"]), [S(m) for m in c["msgs"]]]
    if c["k"] == 2:
        return [2, [w_style(s)[0] for s in default_set()], [[S(m), w_style(st)] for m, st in c["calls"]]]
    if c["k"] == 3:
        return [3, [w_style(s)[0] for s in default_set()],
                [[0, S(x[1]), w_style(x[2])] if x[0] == "f" else [1, S(x[1])] if x[0] == "r" else [2, w_style(x[1])[0]] for x in c["steps"]]]
    sa, fk, sec = c["conf"]
    return [1, sa, fk, sec, [w_style(s)[0] for s in default_set()], w_prog(c["prog"], c.get("via_io", True))]


def describe(c):
    if c["k"] == 4:
        return "reflection: the public members of the Output / IO classes that write"
    if c["k"] == 5:
        return "reflection: every writer of every I/O class called with 'MARK' - which stream, does the call end the line"
    if c["k"] == 0:
        return "formatters(style set=%r, add_style=%r).format(m, style=%r) for m in %r" % (c["set"] or "default", c["added"], c["percall"], c["msgs"])
    if c["k"] == 3:
        return "one AnsiFormatter() and one PlainFormatter(), each: " + "; ".join(
            "format(%r, %r)" % (x[1], x[2]) if x[0] == "f" else "remove_format(%r)" % x[1] if x[0] == "r" else "add_style(%r)" % (x[1],)
            for x in c["steps"])
    if c["k"] == 2:
        return "one AnsiFormatter(); " + "; ".join("format(%r, style=%r)" % (m, st) for m, st in c["calls"]) + (" (one Style object refined between the calls)" if c["refine"] else " (a new Style per call)")
    return "%s(stream ansi=%d, formatter=%s, section=%d): %r" % (c.get("T", "IO"), c["conf"][0], ["Ansi", "Ansi(forced)", "Plain", "Null"][c["conf"][1]], c["conf"][2],
                                                                  c["prog"])


def mk_style(st):
    from clikit.api.formatter import Style
    s = Style(st["tag"])
    if st["fg"] is not None:
        s.fg(st["fg"])
    if st["bg"] is not None:
        s.bg(st["bg"])
    for i, a in enumerate(ATTRS):
        if st["attrs"] >> i & 1:
            getattr(s, a)()
    return s


def _res(f):
    try:
        return [0, S(f())]
    except Exception as e:  # noqa
        return err(e)


class Boom(Exception):
    pass


def run_impl(c):
    from clikit.api.formatter import StyleSet
    from clikit.formatter import AnsiFormatter, PlainFormatter, NullFormatter
    if c["k"] == 4:
        from props import C10
        found = C10.discover()
        return [0, sorted(set(e["name"] for e in found["entries"] if e["writer"]))]
    if c["k"] == 5:
        return io_writer_table()
    if c["k"] == 0:
        st = c["set"] if c["set"] is not None else default_set()

        def mk(cls):
            f = cls(StyleSet([mk_style(s) for s in st]))
            for a in c["added"]:
                f.add_style(mk_style(a))
            return f
        try:
            mk(AnsiFormatter), mk(PlainFormatter)
        except Exception as e:  # noqa
            return err(e)
        out = []
        for m in c["msgs"]:
            pc = lambda: mk_style(c["percall"]) if c["percall"] is not None else None
            r = [_res(lambda: mk(AnsiFormatter).format(m, pc())), _res(lambda: mk(AnsiFormatter).remove_format(m)),
                 _res(lambda: mk(PlainFormatter).format(m, pc())), _res(lambda: mk(PlainFormatter).remove_format(m))]
            r.append([0, S(SGR.sub("", unS(r[0][1])))] if r[0][0] == 0 else r[0])
            # the same through an I/O and through an output: IO.format(string, style=) / Output.format(string, style),
            # IO.remove_format / Output.remove_format hand the call to the formatter - with the per-call style
            if not io_routes(c, len(out)):
                out.append(r)
                continue
            from clikit.io import BufferedIO
            r.append(_res(lambda: BufferedIO(formatter=mk(AnsiFormatter)).format(m, style=pc())))
            r.append(_res(lambda: BufferedIO(formatter=mk(AnsiFormatter)).output.format(m, pc())))
            r.append(_res(lambda: BufferedIO(formatter=mk(AnsiFormatter)).error_output.section().format(m, pc())))
            r.append(_res(lambda: BufferedIO(formatter=mk(AnsiFormatter)).remove_format(m)))
            r.append(_res(lambda: BufferedIO(formatter=mk(AnsiFormatter)).output.remove_format(m)))
            out.append(r)
        return [0, out]
    if c["k"] == 3:
        fa, fp = AnsiFormatter(), PlainFormatter()
        out = []
        for x in c["steps"]:
            pair = []
            for f in (fa, fp):
                if x[0] == "f":
                    pair.append(_res(lambda: f.format(x[1], mk_style(x[2]) if x[2] is not None else None)))
                elif x[0] == "r":
                    pair.append(_res(lambda: f.remove_format(x[1])))
                else:
                    try:
                        f.add_style(mk_style(x[1]))
                        pair.append([0, []])
                    except Exception as e:  # noqa
                        pair.append(err(e))
            out.append(pair)
            if any(r[0] != 0 for r in pair):
                # pastel keeps what a failing message pushed on its style stack, the model does not carry formatter state out
                # of a failed call (DESIGN.md C11, Partial): the history is compared up to and including the first failure
                break
        return [0, out]
    if c["k"] == 2:
        f = AnsiFormatter()
        out, obj, prev = [], None, None
        for m, st in c["calls"]:
            if st is None:
                style = None
            elif c["refine"] and obj is not None:
                # refine the same object: only additions are generated
                if st["fg"] != prev["fg"]:
                    obj.fg(st["fg"])
                if st["bg"] != prev["bg"]:
                    obj.bg(st["bg"])
                for i, a in enumerate(ATTRS):
                    if st["attrs"] >> i & 1 and not prev["attrs"] >> i & 1:
                        getattr(obj, a)()
                style, prev = obj, st
            else:
                style = mk_style(st)
                if c["refine"]:
                    obj, prev = style, st
            r = _res(lambda: f.format(m, style))
            out.append(r)
            del style
            if r[0] != 0:
                break
        return [0, out]
    from clikit.api.io import IO, Input, Output
    from clikit.io.input_stream import StringInputStream
    from clikit.io.output_stream import BufferedOutputStream
    sa, fk, sec = c["conf"]

    class Stream(BufferedOutputStream):
        def supports_ansi(self):
            return bool(sa)
    mkf = lambda: [lambda: AnsiFormatter(), lambda: AnsiFormatter(forced=True), lambda: PlainFormatter(), lambda: NullFormatter()][fk]()
    so, se = Stream(), Stream()
    io = IO(Input(StringInputStream("")), Output(so, mkf()), Output(se, mkf()))
    if c.get("T"):
        # another I/O class on the same outputs (BufferedIO / NullIO build their own streams: the class on OUR outputs)
        from props import C10
        cls = C10.io_classes()[c["T"]]
        io2 = cls.__new__(cls)
        IO.__init__(io2, io.input, io.output, io.error_output)
        io = io2
    if sec:
        io = io.section()
    meths = [["write", "write_line", "write_raw", "write_line_raw"], ["error", "error_line", "error_raw", "error_line_raw"]]

    # what a scope can be left by: an Exception, and exceptions that are only BaseExceptions
    LEFT_BY = (Boom, ValueError, KeyboardInterrupt, SystemExit)

    def run(p, via_io, io):
        for s in p:
            if s[0] == "w":
                text = text_of(s[3])
                if via_io:
                    getattr(io, meths[s[1]][s[2]])(text)
                else:
                    getattr([io.output, io.error_output][s[1]], meths[0][s[2]])(text)
            elif s[0] == "scope":
                obj = [io, io.output, io.error_output][s[1]]
                with (obj.increment_indent(s[3]) if s[2] else obj.indent(s[3])):
                    run(s[4], via_io, io)
            elif s[0] == "raise":
                raise [Boom, KeyboardInterrupt, SystemExit][s[1] if len(s) > 1 else 0]()
            elif s[0] == "insec":
                run(s[1], via_io, io.section())
            else:
                try:
                    run(s[1], via_io, io)
                except LEFT_BY:
                    pass
    raised = 0
    try:
        run(c["prog"], c.get("via_io", True), io)
    except LEFT_BY:
        raised = 1
    return [0, S(so.fetch()), S(se.fetch()), io.output._indent, io.error_output._indent, raised]


def io_writer_table():
    """C10's reflection (every public member of every I/O class called on recording streams) gives the writers; every writer of
    every I/O class is then CALLED with a text that ends in no line feed, at verbosity DEBUG: which of the two streams grew, and
    does what was appended end in a line feed.  -> [0, [[error stream?, ends the line?] for the eight methods], [anything else]]"""
    from props import C10
    found = C10.discover()
    rows, odd = {}, []
    for t in found["targets"]:
        if t["kind"] != "io":
            continue
        names = sorted(e["name"] for e in found["entries"] if e["cls"] == t["cls"] and e["writer"])
        for n in names:
            if n not in IO_NAMES:
                odd.append("%s.%s writes and is not in the table" % (t["cls"], n))
        for n in IO_NAMES:
            if n not in names:
                odd.append("%s.%s does not write" % (t["cls"], n))
                continue
            x = C10.target(C10.io_classes()[t["cls"]], 0, 2)
            for o in x.outs:
                o.set_verbosity(4)
            getattr(x.obj, n)("MARK")
            a, b = x.so.fetch(), x.se.fetch()
            if bool(a) == bool(b):
                odd.append("%s.%s writes to %s" % (t["cls"], n, "both streams" if a else "no stream"))
                continue
            row = [1 if b else 0, 1 if (a or b).endswith("\n") else 0]
            if (a or b) not in ("MARK", "MARK\n"):
                odd.append("%s.%s('MARK') puts %r on the stream" % (t["cls"], n, a or b))
            if rows.setdefault(n, row) != row:
                odd.append("%s.%s differs from the other classes" % (t["cls"], n))
    return [0, [rows.get(n, [-1, -1]) for n in IO_NAMES], sorted(odd)]


def io_routes(c, i):
    """is message i of a k = 0 case also rendered through IO / Output / SectionOutput?  (in the table of all styles: the message
    that gets the style for the single call)"""
    return not c.get("style") or i == 2


def canon_impl(c, o):
    if c["k"] == 4:
        return [0, [S(x) for x in o[1]]]
    if c["k"] == 5:
        return [0, o[1]] + ([[S(x) for x in o[2]]] if o[2] else [])
    return o


def canon_model(c, o):
    if c["k"] == 4:
        return [0, [S(x) for x in WRITERS]]        # (the model has no entry for this request: the table is the expectation)
    if c["k"] == 0 and o and o[0] == 0:
        # IO.format / Output.format / SectionOutput.format with the per-call style and IO / Output.remove_format are the
        # formatter's own format / remove_format
        return [0, [r + ([r[0], r[0], r[0], r[1], r[1]] if io_routes(c, i) else []) for i, r in enumerate(o[1])]]
    if c["k"] == 3 and o and o[0] == 0:
        out = []
        for pair in o[1]:
            out.append(pair)
            if any(r[0] != 0 for r in pair):
                break
        return [0, out]
    return o


# ---- oracle ----
def spec_prog(prog, conf):
    """Lexically scoped reading of a program: the indentation in force is passed down, never restored.
    Returns the expected stream contents with decoration and tags removed."""
    sa, fk, sec = conf
    on = {0: bool(sa), 1: True, 2: False, 3: bool(sa)}[fk]
    bufs = ["", ""]

    def plain_of(ti):
        return W_TEXTS[ti][1] if fk != 3 else W_TEXTS[ti][0]

    def run(p, env, sec=sec):
        for s in p:
            if s[0] == "insec":
                run(s[1], env, 1)
            elif s[0] == "w":
                if s[3] < 0:
                    raise KeyError("bad text")
                raw, plain = W_TEXTS[s[3]][0], plain_of(s[3])
                ind = env[s[1]]
                if s[2] >= 2:
                    bufs[s[1]] += raw if s[2] == 2 else raw.rstrip("\n") + "\n"
                    continue
                # the indentation is applied to the lines of the text as written (markup included)
                rl, pl = raw.split("\n"), plain.split("\n")
                lines = [(" " * ind + p_) if (r_ and ind > 0) else p_ for r_, p_ in zip(rl, pl)]
                bufs[s[1]] += "\n".join(lines) + ("\n" if (s[2] == 1 or (sec and on)) else "")
            elif s[0] == "scope":
                new = list(env)
                for t in (0, 1):
                    if s[1] == 0 or s[1] == t + 1:
                        new[t] = env[t] + s[3] if s[2] else s[3]
                run(s[4], new, sec)
            elif s[0] == "raise":
                raise Boom()
            else:
                try:
                    run(s[1], env, sec)
                except Boom:
                    pass
    raised = 0
    try:
        run(prog, [0, 0])
    except Boom:
        raised = 1
    return bufs, raised


def oracle(c, o):
    if c["k"] == 5:
        if o[2]:
            return "io-writer-outside-the-table:" + "; ".join(o[2])[:200]
        for n, (e, line) in zip(IO_NAMES, o[1]):
            # the property: a line-writing method (its name says so) emits the text followed by exactly one newline - and a
            # method that is not one adds none; error* write to the error output, the others to the standard output
            if bool(line) != ("line" in n):
                return "line-method-does-not-end-the-line:%s" % n
            if bool(e) != n.startswith("error"):
                return "wrong-stream:%s" % n
        return None
    if c["k"] == 4:
        extra = [x for x in o[1] if x not in WRITERS]
        return ("writing-method-outside-the-table:" + ",".join(extra)) if extra else None
    if c["k"] == 0:
        if o[0] != 0:
            return None if c.get("malformed") else "formatter-construction-failed"
        for m, plain, r in zip(c["msgs"], c["plain"], o[1]):
            fa, ra, fp, rp = r[:4]
            # a style passed for a single call reaches the formatter through every format() there is
            if len(r) == 5:
                pass
            elif r[5] != fa or r[6] != fa or r[7] != fa:
                return "format-through-%s-differs-from-the-formatter" % ("io" if r[5] != fa else "output" if r[6] != fa else "section-output")
            elif r[8] != ra or r[9] != ra:
                return "remove-format-through-io-or-output-differs-from-the-formatter"
            if any(x[0] != 0 for x in (fa, ra, fp, rp)):
                if not c.get("malformed") and plain is not None:
                    return "format-raised-on-balanced-message"
                continue
            fa, ra, fp, rp = [unS(x[1]) for x in (fa, ra, fp, rp)]
            if "\\" in m:
                continue
            if not (SGR.sub("", fa) == fp == ra == rp) and "\x1b" not in m:
                return "ansi-stripped-differs-from-plain"
            if "\x1b" in fp and "\x1b" not in m:
                return "plain-emits-escape"
            if plain is not None and fp != plain:
                return "plain-differs-from-tag-stripped-text"
            if c.get("style"):
                codes = expected_codes(c["percall"])
                want = ("\x1b[%sm" % ";".join(map(str, codes))) if codes else ""
                if m in ("<t>x</t>", "<a>x</a>", "x"):
                    got = fa[:fa.index("x")]
                    if sorted(got[2:-1].split(";")) != sorted(map(str, codes)) if codes else got != "":
                        return "style-codes-wrong-route-%s" % {"<t>x</t>": "styleset", "<a>x</a>": "add_style", "x": "percall"}[m]
                    if codes and not fa.endswith("x\x1b[0m"):
                        return "style-not-reset"
        if not c.get("style") and not c.get("malformed") and c["percall"] is not None:
            # a per-call style decorates the text outside any tag
            codes = expected_codes(c["percall"])
            for m, plain, r in zip(c["msgs"], c["plain"], o[1]):
                if plain and r[0][0] == 0 and codes and "<" not in m:
                    want = "\x1b[%sm" % ";".join(map(str, codes))
                    if sorted(unS(r[0][1]).split("m")[0][2:].split(";")) != sorted(map(str, codes)):
                        return "style-codes-wrong-route-percall"
        return None
    if c["k"] == 3:
        # one formatter through a history: a tag is markup from the add_style on that registers it, with exactly the codes of
        # the style registered LAST; before that it is text; the undecorated formatter shows the same text, no escape byte
        reg = dict((t, expected_codes(st)) for t, st in ((x["tag"], x) for x in default_set()))
        for x, (ra, rp) in zip(c["steps"], o[1]):
            if x[0] == "a":
                if ra[0] == 0 and rp[0] == 0:
                    reg[x[1]["tag"]] = expected_codes(x[1])
                elif ra[0] == 0 or rp[0] == 0:
                    return "add-style-accepted-by-one-formatter-only"
                continue
            if ra[0] != 0 or rp[0] != 0:
                # (an unbalanced message may raise, and need not raise alike: a per-call style is on the decorating
                # formatter's stack only)
                if x[1] in HM_BALANCED:
                    return "format-raised-on-balanced-message"
                break
            ta, tp = unS(ra[1]), unS(rp[1])
            if "\x1b" in tp:
                return "plain-emits-escape"
            if SGR.sub("", ta) != tp:
                return "ansi-stripped-differs-from-plain"
            if x[1] in ("<a>x</a>", "<c>y</c>"):
                tag = x[1][1]
                if tag in reg:
                    if tp not in ("x", "y"):
                        return "markup-of-a-registered-style-shown"
                    if x[0] == "f" and x[2] is None:
                        codes = reg[tag]
                        want = ("\x1b[%sm%s\x1b[0m" % (";".join(map(str, codes)), tp)) if codes else tp
                        if sorted(SGR.findall(ta)[0][2:-1].split(";")) != sorted(map(str, codes)) if codes and SGR.findall(ta) else ta != want:
                            return "style-codes-wrong-route-added-later"
                elif tp != x[1]:
                    return "unregistered-tag-not-shown-as-text"
            if x[0] == "r" and ta != tp:
                return "remove-format-differs-between-formatters"
        return None
    if c["k"] == 2:
        for (m, st), r in zip(c["calls"], o[1]):
            if r[0] != 0:
                return "format-raised-on-balanced-message"
            text = unS(r[1])
            codes = expected_codes(st) if st else []
            # the text outside any tag carries exactly the codes of the style of THIS call
            first = SGR.match(text)
            outside = m[0] != "<"
            if outside:
                got = sorted(first.group(0)[2:-1].split(";")) if first else []
                if got != sorted(map(str, codes)):
                    return "style-codes-wrong-route-percall-history"
        return None
    if o[0] != 0:
        return "io-construction-failed"
    _, so, se, io_, ie_, raised = o
    if (io_, ie_) != (0, 0):
        return "indentation-not-restored-at-top-level"
    if c.get("after_bad"):
        sa, fk, sec = c["conf"]
        on = {0: bool(sa), 1: True, 2: False, 3: False}[fk]
        got = unS([so, se][c["prog"][1][1]])
        if raised:
            return "exception-propagation-differs"
        if on and "\x1b[32mx\x1b[0m" not in got:
            return "decoration-lost-after-a-write-that-failed-on-an-invalid-style"
        if not on and "\x1b" in got:
            return "undecorated-output-emits-escape"
        return None
    try:
        bufs, r = spec_prog(c["prog"], c["conf"])
    except KeyError:
        return None
    if raised != r:
        return "exception-propagation-differs"
    got = [SGR.sub("", unS(so)), SGR.sub("", unS(se))]
    if got != bufs:
        return "stream-differs-from-lexically-scoped-reading"
    if c["conf"][1] == 2 and ("\x1b" in unS(so) or "\x1b" in unS(se)):
        return "plain-emits-escape"
    return None


def nontrivial_key(c, o):
    if c["k"] in (4, 5):
        return None
    if c["k"] == 0:
        if c.get("style"):
            return ("s", c["percall"]["fg"], c["percall"]["bg"], c["percall"]["attrs"]) if (c["percall"]["fg"] or c["percall"]["bg"] or c["percall"]["attrs"]) else None
        if any(re.search("<[a-zA-Z/]", m) for m in c["msgs"]):
            return ("m", tuple(c["msgs"]), repr(c["percall"]))
        return None
    if c["k"] == 2:
        return ("h", repr(c["calls"]), c["refine"])
    if c["k"] == 3:
        return ("h3", repr(c["steps"])) if any(x[0] == "a" for x in c["steps"]) else None
    flat = repr(c["prog"])
    if "scope" in flat and "'w'" in flat:
        return ("p", tuple(c["conf"]), flat)
    return None
