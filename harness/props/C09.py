"""C09 - global switches act the same wherever they appear and whatever command runs."""
import itertools, copy, json
from hutil import S, unS, err, exc_code
import parsergen as G
import treegen as T

MODEL = "C09"
PROP_FILES = ["Props/C09.v"]
RULE = ("DefaultApplicationConfig applications over seeded command trees x valid command lines (every named path + its required "
        "arguments) x every ordered selection of <= 2 of the 13 switch spellings (-q --quiet -v -vv -vvv --ansi --no-ansi -n "
        "--no-interaction -h --help -V --version) inserted at every position, sampled selections of 3, and the same tokens after "
        "'--'; handlers record the IO settings, write styled text at every verbosity level to both streams, ask a question with a "
        "default, or raise; non-trivial = >= 1 switch; distinct by (tree, line)")
TRUSTED = ["bytes on the streams (escape sequences, help page text) are compared on the implementation side only: the model decides "
           "settings and the action taken"]
ASSUMPTIONS = ["switches are recognised by exact token (-qn and --verbose are ordinary options for create_io)"]

SWITCHES = ["-q", "--quiet", "-v", "-vv", "-vvv", "--ansi", "--no-ansi", "-n", "--no-interaction", "-h", "--help", "-V", "--version"]
GLOBAL_OPTS = [G.opt("help", "h", G.NO_VALUE), G.opt("quiet", "q", G.NO_VALUE), G.opt("verbose", "v", G.OPT_V),
               G.opt("version", "V", G.NO_VALUE), G.opt("ansi", None, G.NO_VALUE), G.opt("no-ansi", None, G.NO_VALUE),
               G.opt("no-interaction", "n", G.NO_VALUE)]
HELP_CMD = T.cmd("help", default=True, args=[G.arg("command", G.A_OPT | G.A_MULTI)])


def default_tree(rng, maxdepth):
    t = T.rand_tree(rng, maxdepth, True)
    t = json.loads(json.dumps(t))

    def fix(c):
        for o in c["opts"]:
            if o["short"] == "n":
                o["short"] = "u"
        for s in c["subs"]:
            fix(s)
    t["cmds"] = [c for c in t["cmds"] if c["name"] != "help"]
    for c in t["cmds"]:
        fix(c)
    t["opts"] = list(GLOBAL_OPTS)
    t["cmds"] = [HELP_CMD] + t["cmds"]
    return t


def paths(t):
    out = []

    def go(c, pre, args):
        if not c["enabled"] or c["anonymous"]:
            return
        p = pre + [c["name"]]
        a = args + c["args"]
        out.append((p, a))
        for s in c["subs"]:
            go(s, p, a)
    for c in t["cmds"][1:]:
        go(c, [], [])
    return out


def _own_option_tokens(t, p):
    """tokens giving the first own option of the command at path p (with a value when it takes one)"""
    cs = t["cmds"]
    c = None
    for n in p:
        c = next((x for x in cs if x["name"] == n), None)
        if c is None:
            return []
        cs = c["subs"]
    for o in c["opts"]:
        if o["flags"] & G.NO_VALUE:
            return ["--" + o["long"]]
        if o["flags"] & G.O_INT:
            return ["--" + o["long"], "3"]
        return ["--" + o["long"], "val"]
    return []


def gen(rng, tier, info):
    ntrees = {"quick": 14, "thorough": 60, "search": 6}[tier]
    cases = []
    sel2 = [[a] for a in SWITCHES] + [[a, b] for a in SWITCHES for b in SWITCHES if a != b]
    for ti in range(ntrees):
        t = default_tree(rng, 2)
        ps = paths(t)
        rng.shuffle(ps)
        lines = [[]]
        for p, args in ps[:4]:
            vals = []
            for a in args:
                if a["flags"] & G.A_REQ:
                    vals.append("x")
            lines.append(p + vals)
            if rng.random() < 0.5:
                lines.append(p + vals + ["boom"])
            # the command's OWN options on the line, directly behind the path (a switch placed after them must act the
            # same: seeded change C09-h)
            own = _own_option_tokens(t, p)
            if own:
                lines.append(p + own + vals)
        for line in lines:
            cases.append({"tree": t, "toks": line, "k": len(line)})
            for sel in sel2:
                for pos in range(len(line) + 1):
                    cases.append({"tree": t, "toks": line[:pos] + sel + line[pos:], "k": pos})
                cases.append({"tree": t, "toks": line + ["--"] + sel, "k": len(line), "tail": len(sel)})
            # a switch directly before the double dash, switches after it (the look-ahead of a valued switch must not eat '--')
            for before in SWITCHES:
                for after in SWITCHES:
                    cases.append({"tree": t, "toks": line + [before, "--", after], "k": len(line), "tail": 1})
            for _ in range({"quick": 40, "thorough": 200, "search": 10}[tier]):
                sel = rng.sample(SWITCHES, 3)
                pos = sorted(rng.randint(0, len(line)) for _ in range(3))
                toks = list(line)
                for s, p in zip(reversed(sel), reversed(pos)):
                    toks.insert(p, s)
                cases.append({"tree": t, "toks": toks, "k": -1})
    info["exhaustive"] = True
    info["distribution"] = {"trees": ntrees, "switch_spellings": len(SWITCHES), "selections_of_<=2": len(sel2), "cases": len(cases)}
    return cases


def wire(c):
    return [T.wire_app(c["tree"]), [S(t) for t in c["toks"]], 0]


def describe(c):
    return "line=%r on tree with commands %r" % (c["toks"], [x["name"] for x in c["tree"]["cmds"]])


_APPS = {}
_PAGES = {}


_WATCH = []


def _watch_help_pages(rec):
    """harness-side observation (clikit itself is not touched): which command a CommandHelp was built for, used only to
    tell apart commands whose help pages have the very same text (a command and its anonymous default sub-command)"""
    from clikit.ui.help.command_help import CommandHelp
    if not _WATCH:
        orig = CommandHelp.__init__

        def init(self, command, *a, **k):
            names, c = [], command
            while c is not None:
                names.insert(0, c.name)
                c = c.parent_command
            _WATCH[0]["help_of"] = " ".join(names)
            return orig(self, command, *a, **k)
        CommandHelp.__init__ = init
        _WATCH.append(rec)
    _WATCH[0] = rec


def _mk(tree):
    key = json.dumps(tree, sort_keys=True)
    if key in _APPS:
        return _APPS[key]
    from clikit.config import DefaultApplicationConfig
    from clikit.api.event import PRE_HANDLE
    from clikit import ConsoleApplication
    from clikit.ui.components import Question
    rec = {}
    _watch_help_pages(rec)

    class Handler(object):
        def handle(self, args, io, command):
            rec["handler"] = command.full_name.split(" ")
            rec["seen"] = [io.verbosity, int(io.is_quiet()), int(io.is_interactive()),
                           int(io.output.supports_ansi()), int(io.error_output.supports_ansi())]
            for lvl, name in ((0, "normal"), (1, "verbose"), (2, "veryverbose"), (4, "debug")):
                io.write_line("<info>out-%s</info>" % name, lvl if lvl else None)
                io.error_line("<info>err-%s</info>" % name, lvl if lvl else None)
            rec["answer"] = Question("Name?", "dflt").ask(io)
            for a in args.arguments().values():
                if a == "boom" or (isinstance(a, list) and "boom" in a):
                    raise RuntimeError("handler failed")
            return 0

    def handler(c):
        return Handler()

    config = DefaultApplicationConfig("app", "1.0")
    config.set_terminate_after_run(False)
    sub = {"opts": [], "args": [], "cmds": [c for c in tree["cmds"] if c["name"] != "help"]}
    T.mk_config(sub, config, handler)
    config.set_catch_exceptions(True)

    def first(event, name, dispatcher):
        rec["pre_handle"] = event.command.full_name.split(" ")
    config.add_event_listener(PRE_HANDLE, first, 1000)
    orig_factory = config.io_factory

    def factory(*a):
        io = orig_factory(*a)
        rec["io"] = io
        return io
    config.set_io_factory(factory)
    app = ConsoleApplication(config)
    _APPS[key] = (app, config, rec)
    return _APPS[key]


def _run(tree, toks, catch=True):
    from clikit.args import ArgvArgs
    from clikit.io.output_stream import BufferedOutputStream
    from clikit.io.input_stream import StringInputStream
    app, config, rec = _mk(tree)
    rec.clear()
    if _WATCH:
        _WATCH[0] = rec
    config.set_catch_exceptions(catch)
    out, errs = BufferedOutputStream(), BufferedOutputStream()
    exc = None
    try:
        st = app.run(ArgvArgs(["script"] + list(toks)), StringInputStream("typed\n"), out, errs)
    except Exception as e:
        st, exc = None, e
    io = rec.get("io")
    settings = None
    if io is not None:
        settings = [io.verbosity, int(io.is_quiet()), int(io.is_interactive()), int(io.output.supports_ansi()), int(io.error_output.supports_ansi())]
    return {"status": st, "exc": exc, "out": out.fetch(), "err": errs.fetch(), "settings": settings,
            "handler": rec.get("handler"), "pre": rec.get("pre_handle"), "answer": rec.get("answer"), "seen": rec.get("seen"), "help_of": rec.get("help_of")}


def _pages(tree):
    """plain renderings of the application help and of every command's help, for classification"""
    from clikit.io import BufferedIO
    from clikit.ui.help import ApplicationHelp, CommandHelp
    app, config, rec = _mk(tree)
    key = json.dumps(tree, sort_keys=True)
    if key in _PAGES:
        return _PAGES[key]
    pages = {}
    io = BufferedIO()
    ApplicationHelp(app).render(io)
    pages["APP"] = io.fetch_output()

    def go(cmd, path):
        io = BufferedIO()
        CommandHelp(cmd).render(io)
        pages[" ".join(path)] = io.fetch_output()
        for s in cmd.sub_commands:
            go(s, path + [s.name])
    for cmd in app.commands:
        go(cmd, [cmd.name])
    _PAGES[key] = pages
    return pages


import re
_SGR = re.compile("\x1b\\[[0-9;]*m")


def run_impl(c):
    tree, toks = c["tree"], c["toks"]
    pages = _pages(tree)
    r = _run(tree, toks, True)
    r2 = _run(tree, toks, False)
    st = r["settings"]
    ots = list(itertools.takewhile(lambda t: t != "--", toks))
    ansi = 0 if "--no-ansi" in ots else (1 if "--ansi" in ots else 2)
    settings = [ansi, st[0], st[1], st[2]] if st else None
    plain_out = _SGR.sub("", r["out"])
    text = plain_out
    if st and st[1] and r2["exc"] is None and r["handler"] is None:
        # quiet: nothing was printed; look at the same run without the quiet switch to see what it would print
        # (the quiet tokens before "--" are replaced by another value-less switch, so that the line keeps its shape)
        dd = toks.index("--") if "--" in toks else len(toks)
        alt = [("--no-ansi" if (t in ("-q", "--quiet") and i < dd) else t) for i, t in enumerate(toks)]
        text = _SGR.sub("", _run(tree, alt, True)["out"])
    if r["handler"] is not None:
        action = [4, [S(p) for p in r["handler"]]]
    elif r2["exc"] is not None:
        action = [5, exc_code(r2["exc"])]
    elif text.strip().lower() == "app version 1.0" and r["pre"] is not None:
        action = [3, [S(p) for p in r["pre"]]]
    else:
        which = [k for k, v in pages.items() if v == text]
        if "APP" in which:
            action = [0]
        elif which:
            # several commands with the very same page text: the one the page was built for, when it is among them
            w = r.get("help_of") if r.get("help_of") in which else which[0]
            action = [1, [S(p) for p in w.split(" ")]]
        else:
            action = [9, S(text[:60])]
    facts = {"status": r["status"], "out_empty": r["out"] == "", "err_empty": r["err"] == "", "esc_out": "\x1b" in r["out"],
             "esc_err": "\x1b" in r["err"], "answer": r["answer"], "seen": r["seen"], "handler": r["handler"],
             "levels_out": [n for n in ("normal", "verbose", "veryverbose", "debug") if "out-" + n in r["out"]],
             "levels_err": [n for n in ("normal", "verbose", "veryverbose", "debug") if "err-" + n in r["err"]]}
    if "tail" in c and c["k"] > 0:
        # tokens after "--" are plain arguments of the selected command: compare with neutral argument values
        k = len(toks) - c["tail"]
        b = _run(tree, toks[:k] + ["zz"] * c["tail"], True)
        facts["tail_same"] = (b["status"] == r["status"] and b["settings"] == r["settings"] and b["handler"] == r["handler"]
                              and b["out"] == r["out"] and b["err"] == r["err"])
    return [[0, settings, action], facts]


def canon_impl(c, o):
    return o[0]


def canon_model_w(c, w):
    from hutil import from_wire, to_wire
    m = from_wire(w)
    if m[0] != 0:
        return w
    a = m[2]
    if a[0] == 2:
        a = [5, a[1]]
    return to_wire([0, m[1], a])


def oracle(c, o):
    (tag, settings, action), f = o
    toks = c["toks"]
    ots = list(itertools.takewhile(lambda t: t != "--", toks))
    quiet = "-q" in ots or "--quiet" in ots
    verb = 4 if "-vvv" in ots else 2 if "-vv" in ots else 1 if "-v" in ots else 0
    if not isinstance(f["status"], int) or not (0 <= f["status"] <= 255):
        return "status-invalid"
    if settings is None:
        return "no-io-created"
    if settings[1] != verb:
        return "verbosity-switch"
    if bool(settings[2]) != quiet:
        return "quiet-switch-setting"
    if bool(settings[3]) != (not ("-n" in ots or "--no-interaction" in ots)):
        return "no-interaction-switch-setting"
    if quiet and not (f["out_empty"] and f["err_empty"]):
        return "quiet-run-produced-output"
    if "--no-ansi" in ots and (f["esc_out"] or f["esc_err"]):
        return "no-ansi-run-emitted-escape"
    if f["handler"] is not None:
        if f["seen"][0] != verb or bool(f["seen"][1]) != quiet:
            return "handler-saw-other-settings"
        if not quiet:
            lv = ["normal", "verbose", "veryverbose", "debug"]
            exp = [n for n, need in zip(lv, (0, 1, 2, 4)) if verb >= need]
            if f["levels_out"] != exp or f["levels_err"] != exp:
                return "verbosity-levels-shown"
            if "--ansi" in ots and "--no-ansi" not in ots and not (f["esc_out"] and f["esc_err"]):
                return "ansi-switch-did-not-decorate"
        if ("-n" in ots or "--no-interaction" in ots) != (f["answer"] == "dflt"):
            return "no-interaction-question-default"
    help_sw = "-h" in ots or "--help" in ots
    ver_sw = "-V" in ots or "--version" in ots
    if help_sw and action[0] in (0, 1, 3) and (f["handler"] is not None or f["status"] != 0):
        return "help-switch-ran-handler-or-nonzero"
    if help_sw and action[0] == 4:
        return "help-switch-ran-handler"
    if ver_sw and action[0] == 4:
        return "version-switch-ran-handler"
    if action[0] == 3 and f["status"] != 0:
        return "version-nonzero-status"
    if action[0] == 9:
        return "unrecognised-output"
    if "tail_same" in f and not f["tail_same"]:
        return "switch-after-double-dash-has-effect"
    return None


def nontrivial_key(c, o):
    if any(t in SWITCHES for t in c["toks"]):
        return [json.dumps(c["tree"], sort_keys=True), c["toks"]]
    return None


def shrink(c):
    t = c["toks"]
    for i in range(len(t)):
        if "tail" in c:
            continue
        yield {"tree": c["tree"], "toks": t[:i] + t[i + 1:], "k": -1}
