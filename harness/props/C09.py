"""C09 - global switches act the same wherever they appear and whatever command runs."""
import itertools, copy, json
from hutil import S, unS, err, exc_code
import parsergen as G
import treegen as T

MODEL = "C09"
PROP_FILES = ["Props/C09.v"]
RULE = ("DefaultApplicationConfig applications over seeded command trees (depth 2, one tree with a path of 3 commands per run) x "
        "valid command lines (named paths spelled by names, + their required arguments, + the command's own option, + 'boom'; "
        "the same paths spelled by aliases) x every ordered selection of <= 2 of the 13 switch spellings (-q --quiet -v -vv -vvv "
        "--ansi --no-ansi -n --no-interaction -h --help -V --version) inserted at every position, sampled selections of 3 and of "
        "4-7 switches (one spelling per switch, random positions), and the same tokens after '--'; two cases in three run on "
        "streams without ANSI support, one in three on streams with it (both / output only / error only); handlers record the IO "
        "settings, write styled text at every verbosity level to both streams, ask a question with a default, or raise; "
        "non-trivial = >= 1 switch; distinct by (tree, line, stream kind); + one fixed tree whose commands take an option with "
        "an OPTIONAL value, a string argument and an INTEGER argument (directly, as the only default sub-command, as the second "
        "of two default sub-commands): the valid line 'cmd --name foo a' with -h / --help at EVERY position - between the option "
        "and its value the values shift onto the typed argument (the defect repaired by 488171f)")
TRUSTED = ["bytes on the streams (escape sequences, help page text) are compared on the implementation side only: the model decides "
           "settings and the action taken",
           "the ANSI mode compared with the model is OBSERVED: decoration of the run's own IO on the case's streams, and of a "
           "second IO made by the same factory for the same line on streams of the other kind (forced = decorated on both, "
           "off = on neither, auto = only on the ANSI-capable one)",
           "every case runs on an application object of its own; the same line is also run on an application shared by all "
           "cases of the tree in the worker, and a difference is reported as its own class (history dependence)"]
ASSUMPTIONS = ["switches are recognised by exact token (-qn and --verbose are ordinary options for create_io)"]

SWITCHES = ["-q", "--quiet", "-v", "-vv", "-vvv", "--ansi", "--no-ansi", "-n", "--no-interaction", "-h", "--help", "-V", "--version"]
GLOBAL_OPTS = [G.opt("help", "h", G.NO_VALUE), G.opt("quiet", "q", G.NO_VALUE), G.opt("verbose", "v", G.OPT_V),
               G.opt("version", "V", G.NO_VALUE), G.opt("ansi", None, G.NO_VALUE), G.opt("no-ansi", None, G.NO_VALUE),
               G.opt("no-interaction", "n", G.NO_VALUE)]
HELP_CMD = T.cmd("help", default=True, args=[G.arg("command", G.A_OPT | G.A_MULTI)])


def default_tree(rng, maxdepth, deep=False):
    t = T.rand_tree_depth(rng, maxdepth) if deep else T.rand_tree(rng, maxdepth, True)
    t = json.loads(json.dumps(t))

    def fix(c):
        for o in c["opts"]:
            if o["short"] == "n":
                o["short"] = "u"
        for s in c["subs"]:
            fix(s)
    t["cmds"] = [c for c in t["cmds"] if c["name"] != "help"]
    for c in t["cmds"]:
        fix(c)
    t["opts"] = list(GLOBAL_OPTS)
    t["cmds"] = [HELP_CMD] + t["cmds"]
    return t


def paths(t):
    out = []

    def go(c, pre, args):
        if not c["enabled"] or c["anonymous"]:
            return
        p = pre + [c["name"]]
        a = args + c["args"]
        out.append((p, a))
        for s in c["subs"]:
            go(s, p, a)
    for c in t["cmds"][1:]:
        go(c, [], [])
    return out


def _own_option_tokens(t, p):
    """tokens giving the first own option of the command at path p (with a value when it takes one)"""
    cs = t["cmds"]
    c = None
    for n in p:
        c = next((x for x in cs if x["name"] == n), None)
        if c is None:
            return []
        cs = c["subs"]
    for o in c["opts"]:
        if o["flags"] & G.NO_VALUE:
            return ["--" + o["long"]]
        if o["flags"] & G.O_INT:
            return ["--" + o["long"], "3"]
        return ["--" + o["long"], "val"]
    return []


FAMILIES = [["-q", "--quiet"], ["-v", "-vv", "-vvv"], ["--ansi"], ["--no-ansi"], ["-n", "--no-interaction"], ["-h", "--help"],
            ["-V", "--version"]]
# stream kinds: 0 = neither stream supports ANSI, 1 = both do, 2 = the output only, 3 = the error output only
SA_CYCLE = [0, 0, 1, 0, 0, 2, 0, 0, 1, 0, 0, 3]


def _alias_spelling(t, p):
    """the path p (names) spelled with the first alias of every command that has one; None when no command has"""
    cs, out, any_alias = t["cmds"], [], False
    for n in p:
        c = next((x for x in cs if x["name"] == n and x["enabled"] and not x["anonymous"]), None)
        if c is None:
            return None
        if c["aliases"]:
            out.append(c["aliases"][0])
            any_alias = True
        else:
            out.append(n)
        cs = c["subs"]
    return out if any_alias else None


def shift_tree():
    """commands on which the help switch, put where an option's value stood, shifts a non-integer onto an INTEGER argument"""
    def shape():
        return dict(opts=[G.opt("name", None, G.OPT_V)], args=[G.arg("a1", G.A_OPT), G.arg("a2", G.A_OPT | G.A_INT)])
    return {"opts": list(GLOBAL_OPTS), "args": [], "cmds": [
        HELP_CMD,
        T.cmd("cmd", **shape()),
        T.cmd("srv", subs=[T.cmd("x1", default=True, **shape())]),
        T.cmd("two", subs=[T.cmd("y1", default=True, opts=[G.opt("name", None, G.REQ_V)], args=[G.arg("a1", G.A_OPT)]),
                           T.cmd("y2", default=True, **shape())])]}


def _insert(line, sel, pos):
    toks = list(line)
    for s_, p_ in sorted(zip(sel, pos), key=lambda x: -x[1]):
        toks.insert(p_, s_)
    return toks


def gen(rng, tier, info):
    ntrees = {"quick": 13, "thorough": 60, "search": 6}[tier]
    ndeep = {"quick": 1, "thorough": 6, "search": 1}[tier]
    nmany = {"quick": 24, "thorough": 150, "search": 10}[tier]
    cases = []
    hist = {}
    sel2 = [[a] for a in SWITCHES] + [[a, b] for a in SWITCHES for b in SWITCHES if a != b]

    def add(t, toks, k, tail=None):
        c = {"tree": t, "toks": toks, "k": k, "sa": SA_CYCLE[len(cases) % len(SA_CYCLE)]}
        if tail is not None:
            c["tail"] = tail
        n = sum(1 for x in itertools.takewhile(lambda y: y != "--", toks) if x in SWITCHES)
        hist[n] = hist.get(n, 0) + 1
        cases.append(c)

    def many(line):
        fams = rng.sample(FAMILIES, rng.randint(4, 7))
        sel = [rng.choice(f) for f in fams]
        return _insert(line, sel, [rng.randint(0, len(line)) for _ in sel])

    for ti in range(ntrees):
        deep = ti < ndeep
        t = default_tree(rng, 3 if deep else 2, deep)
        ps = paths(t)
        rng.shuffle(ps)
        if deep:
            ps.sort(key=lambda x: -len(x[0]))      # the longest paths first
        lines, alias_lines = [[]], []
        for p, args in ps[:(4 if deep or tier == "thorough" else 3)]:
            vals = []
            for a in args:
                if a["flags"] & G.A_REQ:
                    vals.append("x")
            lines.append(p + vals)
            if rng.random() < 0.5:
                lines.append(p + vals + ["boom"])
            # the command's OWN options on the line, directly behind the path (a switch placed after them must act the
            # same: seeded change C09-h)
            own = _own_option_tokens(t, p)
            if own:
                lines.append(p + own + vals)
            ap = _alias_spelling(t, p)
            if ap is not None:
                alias_lines.append(ap + vals)
        for line in lines:
            add(t, line, len(line))
            for sel in sel2:
                for pos in range(len(line) + 1):
                    add(t, line[:pos] + sel + line[pos:], pos)
                add(t, line + ["--"] + sel, len(line), len(sel))
            # a switch directly before the double dash, switches after it (the look-ahead of a valued switch must not eat '--')
            for before in SWITCHES:
                for after in SWITCHES:
                    add(t, line + [before, "--", after], len(line), 1)
            for _ in range({"quick": 40, "thorough": 200, "search": 10}[tier]):
                sel = rng.sample(SWITCHES, 3)
                add(t, _insert(line, sel, [rng.randint(0, len(line)) for _ in range(3)]), -1)
            # 4 to 7 of the seven switches at once
            for _ in range(nmany):
                add(t, many(line), -1)
            sel = [f[0] for f in FAMILIES]
            add(t, line + sel, -1)
            add(t, line + ["--"] + sel, len(line), len(sel))
        # the same paths spelled by aliases: every single switch at every position, after '--', and samples of 3 and 4-7
        for line in alias_lines:
            add(t, line, len(line))
            for sw in SWITCHES:
                for pos in range(len(line) + 1):
                    add(t, line[:pos] + [sw] + line[pos:], pos)
                add(t, line + ["--", sw], len(line), 1)
            for _ in range(10):
                sel = rng.sample(SWITCHES, 3)
                add(t, _insert(line, sel, [rng.randint(0, len(line)) for _ in range(3)]), -1)
                add(t, many(line), -1)
    # the help switch at every position of valid lines whose values it shifts onto a typed argument ("base" = the line
    # without the switch: the oracle asks for the page when that line is valid)
    st, nshift = shift_tree(), 0
    for base in (["cmd", "--name", "foo", "a"], ["cmd", "--name", "foo", "a", "7"], ["srv", "--name", "foo", "a"],
                 ["two", "--name", "foo", "a"], ["cmd", "-q", "--name", "foo", "a"]):
        add(st, base, len(base))
        cases[-1]["base"] = base
        for sw in ("-h", "--help"):
            for pos in range(len(base) + 1):
                add(st, base[:pos] + [sw] + base[pos:], pos)
                cases[-1]["base"] = base
                nshift += 1
    info["exhaustive"] = True
    info["distribution"] = {"trees": ntrees, "help_switch_shifting_values": nshift, "trees_with_a_path_of_3": ndeep, "switch_spellings": len(SWITCHES),
                            "selections_of_<=2": len(sel2), "cases": len(cases),
                            "switches_before_double_dash": {str(k): v for k, v in sorted(hist.items())},
                            "stream_kinds": {str(k): sum(1 for c in cases if c["sa"] == k) for k in (0, 1, 2, 3)}}
    return cases


def wire(c):
    return [T.wire_app(c["tree"]), [S(t) for t in c["toks"]], 0]


def describe(c):
    return "line=%r (streams: %s) on tree with commands %r" % (
        c["toks"], ["no ANSI support", "ANSI support", "output supports ANSI", "error output supports ANSI"][c.get("sa", 0)],
        [x["name"] for x in c["tree"]["cmds"]])


_APPS = {}
_PAGES = {}


_WATCH = []


def _watch_help_pages(rec):
    """harness-side observation (clikit itself is not touched): which command a CommandHelp was built for, used only to
    tell apart commands whose help pages have the very same text (a command and its anonymous default sub-command)"""
    from clikit.ui.help.command_help import CommandHelp
    if not _WATCH:
        orig = CommandHelp.__init__

        def init(self, command, *a, **k):
            names, c = [], command
            while c is not None:
                names.insert(0, c.name)
                c = c.parent_command
            _WATCH[0]["help_of"] = " ".join(names)
            return orig(self, command, *a, **k)
        CommandHelp.__init__ = init
        _WATCH.append(rec)
    _WATCH[0] = rec


def _mk(tree):
    key = json.dumps(tree, sort_keys=True)
    if key in _APPS:
        return _APPS[key]
    from clikit.config import DefaultApplicationConfig
    from clikit.api.event import PRE_HANDLE
    from clikit import ConsoleApplication
    from clikit.ui.components import Question
    rec = {}
    _watch_help_pages(rec)

    from props import c09handler
    Handler = c09handler.make(rec, Question)

    def handler(c):
        return Handler()

    config = DefaultApplicationConfig("app", "1.0")
    config.set_terminate_after_run(False)
    sub = {"opts": [], "args": [], "cmds": [c for c in tree["cmds"] if c["name"] != "help"]}
    T.mk_config(sub, config, handler)
    config.set_catch_exceptions(True)

    def first(event, name, dispatcher):
        rec["pre_handle"] = event.command.full_name.split(" ")
    config.add_event_listener(PRE_HANDLE, first, 1000)
    orig_factory = config.io_factory

    def factory(*a):
        io = orig_factory(*a)
        rec["io"] = io
        return io
    config.set_io_factory(factory)
    config._verif_orig_factory = orig_factory      # harness-side attribute: the factory itself, for the stream-kind probe
    app = ConsoleApplication(config)
    _APPS[key] = (app, config, rec)
    return _APPS[key]


def _streams(sa):
    """(output stream, error stream) for a stream kind: 0 neither supports ANSI, 1 both, 2 output only, 3 error only"""
    from clikit.io.output_stream import BufferedOutputStream

    class AnsiStream(BufferedOutputStream):
        def supports_ansi(self):
            return True
    return ((AnsiStream if sa in (1, 2) else BufferedOutputStream)(), (AnsiStream if sa in (1, 3) else BufferedOutputStream)())


def _run(tree, toks, catch=True, sa=0):
    from clikit.args import ArgvArgs
    from clikit.io.input_stream import StringInputStream
    app, config, rec = _mk(tree)
    rec.clear()
    if _WATCH:
        _WATCH[0] = rec
    config.set_catch_exceptions(catch)
    out, errs = _streams(sa)
    exc = None
    try:
        st = app.run(ArgvArgs(["script"] + list(toks)), StringInputStream("typed\n"), out, errs)
    except Exception as e:
        st, exc = None, e
    io = rec.get("io")
    settings = None
    if io is not None:
        settings = [io.verbosity, int(io.is_quiet()), int(io.is_interactive()), int(io.output.supports_ansi()), int(io.error_output.supports_ansi())]
    return {"status": st, "exc": exc, "out": out.fetch(), "err": errs.fetch(), "settings": settings,
            "handler": rec.get("handler"), "pre": rec.get("pre_handle"), "answer": rec.get("answer"), "seen": rec.get("seen"), "help_of": rec.get("help_of")}


def _probe_decoration(tree, toks, sa):
    """the IO the application's factory makes for this line on streams of kind `sa` (no run): is each output decorated?"""
    from clikit.args import ArgvArgs
    from clikit.io.input_stream import StringInputStream
    app, config, rec = _mk(tree)
    out, errs = _streams(sa)
    io = config._verif_orig_factory(app, ArgvArgs(["script"] + list(toks)), StringInputStream(""), out, errs)
    return [int(io.output.supports_ansi()), int(io.error_output.supports_ansi())]


def _mode(plain, ansi):
    """ANSI mode of one output from its decoration on a stream without / with ANSI support"""
    return {(1, 1): 1, (0, 0): 0, (0, 1): 2}.get((plain, ansi), 4)


def _pages(tree):
    """plain renderings of the application help and of every command's help, for classification"""
    from clikit.io import BufferedIO
    from clikit.ui.help import ApplicationHelp, CommandHelp
    app, config, rec = _mk(tree)
    key = json.dumps(tree, sort_keys=True)
    if key in _PAGES:
        return _PAGES[key]
    pages = {}
    io = BufferedIO()
    ApplicationHelp(app).render(io)
    pages["APP"] = io.fetch_output()

    def go(cmd, path):
        io = BufferedIO()
        CommandHelp(cmd).render(io)
        pages[" ".join(path)] = io.fetch_output()
        for s in cmd.sub_commands:
            go(s, path + [s.name])
    for cmd in app.commands:
        go(cmd, [cmd.name])
    _PAGES[key] = pages
    return pages


import re
_SGR = re.compile("\x1b\\[[0-9;]*m")


_SHARED = {}
VERSION_LINE = "App version 1.0\n"      # name "app" (displayed "App") and version "1.0" of the generated configuration


def _summary(r):
    return [r["status"], r["out"], r["err"], r["settings"], r["handler"], r["pre"], r["answer"], r["seen"],
            None if r["exc"] is None else type(r["exc"]).__name__]


def run_impl(c):
    tree, toks, sa = c["tree"], c["toks"], c.get("sa", 0)
    key = json.dumps(tree, sort_keys=True)
    pages = _pages(tree)
    # (a) the line on the application every case of this tree shares inside this worker ...
    shared = None
    if "sa" in c:
        if key in _SHARED:
            _APPS[key] = _SHARED[key]
        else:
            _APPS.pop(key, None)
            _SHARED[key] = _mk(tree)
        shared = _summary(_run(tree, toks, True, sa))
    # (b) ... and on an application of its own: everything below is a function of the case
    _APPS.pop(key, None)
    r = _run(tree, toks, True, sa)
    st = r["settings"]
    settings = None
    if st:
        here = [st[3], st[4]]
        other = _probe_decoration(tree, toks, {0: 1, 1: 0, 2: 3, 3: 2}[sa])
        so, se = (1 if sa in (1, 2) else 0), (1 if sa in (1, 3) else 0)
        mo = _mode(*((other[0], here[0]) if so else (here[0], other[0])))
        me = _mode(*((other[1], here[1]) if se else (here[1], other[1])))
        settings = [mo if mo == me else 10 + 5 * mo + me, st[0], st[1], st[2]]
    r2 = {"exc": None}
    if r["handler"] is None and r["status"] != 0:
        r2 = _run(tree, toks, False, sa)       # the same failure with catching off: which exception it is
    plain_out = _SGR.sub("", r["out"])
    text = plain_out
    if st and st[1] and r2["exc"] is None and r["handler"] is None:
        # quiet: nothing was printed; look at the same run without the quiet switch to see what it would print
        # (the quiet tokens before "--" are replaced by another value-less switch, so that the line keeps its shape)
        dd = toks.index("--") if "--" in toks else len(toks)
        alt = [("--no-ansi" if (t in ("-q", "--quiet") and i < dd) else t) for i, t in enumerate(toks)]
        text = _SGR.sub("", _run(tree, alt, True, sa)["out"])
    if r["handler"] is not None:
        action = [4, [S(p) for p in r["handler"]]]
    elif r2["exc"] is not None:
        action = [5, exc_code(r2["exc"])]
    elif text == VERSION_LINE and r["pre"] is not None:
        action = [3, [S(p) for p in r["pre"]]]
    else:
        which = [k for k, v in pages.items() if v == text]
        if "APP" in which:
            action = [0]
        elif which:
            # several commands with the very same page text: the one the page was built for, when it is among them
            w = r.get("help_of") if r.get("help_of") in which else which[0]
            action = [1, [S(p) for p in w.split(" ")]]
        else:
            action = [9, S(text[:60])]
    facts = {"status": r["status"], "out_empty": r["out"] == "", "err_empty": r["err"] == "", "esc_out": "\x1b" in r["out"],
             "esc_err": "\x1b" in r["err"], "answer": r["answer"], "seen": r["seen"], "handler": r["handler"],
             "io_decorated": [st[3], st[4]] if st else None,
             "levels_out": [n for n in ("normal", "verbose", "veryverbose", "debug") if "out-" + n in r["out"]],
             "levels_err": [n for n in ("normal", "verbose", "veryverbose", "debug") if "err-" + n in r["err"]]}
    if shared is not None:
        mine = _summary(r)
        facts["shared_same"] = shared == mine
        if not facts["shared_same"]:
            facts["shared_diff"] = [i for i, (a, b) in enumerate(zip(shared, mine)) if a != b]
    if c.get("base") is not None:
        # is the line without the switch a valid line of its command (the handler runs, status 0)?
        _APPS.pop(key, None)
        b = _run(tree, c["base"], True, sa)
        facts["base_valid"] = b["handler"] is not None and b["status"] == 0
    if "tail" in c:
        # tokens after "--" are plain arguments of the selected command: compare with neutral argument values
        k = len(toks) - c["tail"]
        b = _run(tree, toks[:k] + ["zz"] * c["tail"], True, sa)
        same = (b["status"] == r["status"] and b["settings"] == r["settings"] and b["handler"] == r["handler"])
        if c["k"] > 0:
            same = same and b["out"] == r["out"] and b["err"] == r["err"]
        else:
            # on the empty line the tail is the argument of the help command (the name of the command to explain): the
            # report quotes it, so the texts differ by that name; everything a switch would change is still compared
            same = same and ((b["out"] == "", b["err"] == "", "\x1b" in b["out"], "\x1b" in b["err"])
                             == (r["out"] == "", r["err"] == "", "\x1b" in r["out"], "\x1b" in r["err"]))
        facts["tail_same"] = same
    return [[0, settings, action], facts]


def canon_impl(c, o):
    return o[0]


def canon_model_w(c, w):
    from hutil import from_wire, to_wire
    m = from_wire(w)
    if m[0] != 0:
        return w
    a = m[2]
    if a[0] == 2:
        a = [5, a[1]]
    return to_wire([0, m[1], a])


def oracle(c, o):
    (tag, settings, action), f = o
    toks = c["toks"]
    ots = list(itertools.takewhile(lambda t: t != "--", toks))
    quiet = "-q" in ots or "--quiet" in ots
    verb = 4 if "-vvv" in ots else 2 if "-vv" in ots else 1 if "-v" in ots else 0
    no_ansi = "--no-ansi" in ots
    force_ansi = "--ansi" in ots and not no_ansi
    if not isinstance(f["status"], int) or not (0 <= f["status"] <= 255):
        return "status-invalid"
    if settings is None:
        return "no-io-created"
    if settings[1] != verb:
        return "verbosity-switch"
    if bool(settings[2]) != quiet:
        return "quiet-switch-setting"
    if bool(settings[3]) != (not ("-n" in ots or "--no-interaction" in ots)):
        return "no-interaction-switch-setting"
    # the ANSI switches, on the IO the factory made (any stream: the mode is observed on both kinds of stream)
    if no_ansi and settings[0] != 0:
        return "no-ansi-switch-setting"
    if force_ansi and settings[0] != 1:
        return "ansi-switch-setting"
    if quiet and not (f["out_empty"] and f["err_empty"]):
        return "quiet-run-produced-output"
    if no_ansi and (f["esc_out"] or f["esc_err"]):
        return "no-ansi-run-emitted-escape"
    if force_ansi and not quiet:
        # every piece of output of this harness carries a style (the handler's lines, error reports <error>, help pages
        # <b>, the version line <c1>): under --ansi whatever was printed must be decorated, on any stream
        if (not f["out_empty"] and not f["esc_out"]) or (not f["err_empty"] and not f["esc_err"]):
            return "ansi-switch-did-not-decorate"
    if f["handler"] is not None:
        if f["seen"][0] != verb or bool(f["seen"][1]) != quiet or f["seen"][3:5] != f["io_decorated"]:
            return "handler-saw-other-settings"
        if not quiet:
            lv = ["normal", "verbose", "veryverbose", "debug"]
            exp = [n for n, need in zip(lv, (0, 1, 2, 4)) if verb >= need]
            if f["levels_out"] != exp or f["levels_err"] != exp:
                return "verbosity-levels-shown"
            if force_ansi and not (f["esc_out"] and f["esc_err"]):
                return "ansi-switch-did-not-decorate"
        if ("-n" in ots or "--no-interaction" in ots) != (f["answer"] == "dflt"):
            return "no-interaction-question-default"
    help_sw = "-h" in ots or "--help" in ots
    ver_sw = "-V" in ots or "--version" in ots
    if help_sw and action[0] in (0, 1, 3) and (f["handler"] is not None or f["status"] != 0):
        return "help-switch-ran-handler-or-nonzero"
    if help_sw and action[0] == 4:
        return "help-switch-ran-handler"
    if ver_sw and action[0] == 4:
        return "version-switch-ran-handler"
    if c.get("base") is not None and f.get("base_valid") and help_sw and not ver_sw and c["k"] >= 1:
        # a valid line + the help switch somewhere AFTER the command name and before "--": a help page, status 0, no
        # handler (in front of the command name the switch is not "placed after the command path": the resolver then
        # explains the application's default command, whose strict probe may refuse the line - compared with the model only)
        if action[0] not in (0, 1) or f["status"] != 0 or f["handler"] is not None:
            return "help-switch-did-not-print-the-page"
    if action[0] == 3 and f["status"] != 0:
        return "version-nonzero-status"
    if action[0] == 9:
        return "unrecognised-output"
    if "tail_same" in f and not f["tail_same"]:
        return "switch-after-double-dash-has-effect"
    if f.get("shared_same") is False:
        # not a statement of C09 itself: the same line on an application that has run other lines before behaves
        # differently (what C17 forbids); history dependent, so a replay of this one case may not reproduce it
        return "differs-on-shared-application"
    return None


def nontrivial_key(c, o):
    if any(t in SWITCHES for t in c["toks"]):
        return [json.dumps(c["tree"], sort_keys=True), c["toks"], c.get("sa", 0)]
    return None


def shrink(c):
    t = c["toks"]
    for i in range(len(t)):
        if "tail" in c:
            continue
        yield {"tree": c["tree"], "toks": t[:i] + t[i + 1:], "k": -1, "sa": c.get("sa", 0)}
