"""C10, the IO layer: HISTORIES of calls on an I/O object, its two outputs and the sections made on the way (Model/GateIO.v).

A history is a list of operations on numbered objects - numbered in creation order, as the model numbers them: outputs 0
(standard) and 1 (error) and I/O 0 exist at the start; `io.section()` appends two outputs and one I/O, `output.section()`
appends one output (also when the output is itself a section: SectionOutput inherits Output.section):

  ["w", i, name, flags | "nf"]        io_i.<name>(mark[, flags])    name: the eight writing methods of IO
  ["q", i, 0|1]  ["v", i, v]          io_i.set_quiet / set_verbosity        (v: any integer; an invalid one raises ValueError)
  ["ia", i, 0|1] ["fm", i, kind]      io_i.set_interactive / set_formatter  (kind 0 AnsiFormatter, 1 AnsiFormatter(forced), 2 Plain, 3 Null)
  ["in", i, incr, n] ["sec", i]       io_i.indent(n) | increment_indent(n) (the Indent object is dropped), io_i.section()
  ["ow", o, name, flags | "nf"]       out_o.<name>(mark[, flags])   name: write, write_line, write_raw, write_line_raw, overwrite
  ["oq", o, q] ["ov", o, v] ["ofm", o, kind] ["ost", o, sid, ansi?] ["oin", o, incr, n] ["osec", o]
                                      the same on one output; set_stream hands it a NEW recording stream, number sid

Every written text carries its own mark; after every call every stream is looked at."""
from hutil import S, err

IO_NAMES = ["write", "write_line", "write_raw", "write_line_raw", "error", "error_line", "error_raw", "error_line_raw"]
OUT_NAMES = ["write", "write_line", "write_raw", "write_line_raw", "overwrite"]
OPCODE = {"w": 0, "q": 1, "v": 2, "ia": 3, "fm": 4, "in": 5, "sec": 6, "ow": 10, "oq": 11, "ov": 12, "ofm": 13, "ost": 14, "oin": 15,
          "osec": 16}
GATE_FLAGS = ["nf", 1, 2, 4]           # one flag word per lowest level (the table of single calls runs all fifteen)
VERBS = [0, 1, 2, 4]
BAD_VERBS = [3, -1, 5, 8]
FK_NAMES = ["AnsiFormatter()", "AnsiFormatter(forced=True)", "PlainFormatter()", "NullFormatter()"]


class HarnessError(Exception):
    pass


def mark(k):
    return "#%03d" % k


# ---------------------------------------------------------------- the wire
def w_flags(f):
    return [] if f in (None, "nf") else [f]


def w_op(o):
    c = OPCODE[o[0]]
    if o[0] == "w":
        return [c, o[1], IO_NAMES.index(o[2]), w_flags(o[3])]
    if o[0] == "ow":
        return [c, o[1], OUT_NAMES.index(o[2]), w_flags(o[3])]
    return [c] + list(o[1:])


def wire(case):
    return [97, case["fk"], case["sa"], case["sa"], can_section(case["T"]), [w_op(o) for o in case["ops"]]]


def can_section(T):
    """NullIO().section() raises TypeError on the unchanged tree (IO.section() calls self.__class__(input, output, error_output),
    NullIO.__init__ takes no argument) - the one documented exception (props/C10.py UNCALLABLE); the model is TOLD so by class
    name, not by what the tree under test does: a class that loses its section() diverges"""
    return 0 if T == "NullIO" else 1


# ---------------------------------------------------------------- generators
def batch(i, names=IO_NAMES, flags=GATE_FLAGS):
    return [["w", i, n, f] for n in names for f in flags]


def mini(i, k):
    """four writes between two setters (that writing does not disturb the settings), rotating through methods and flags"""
    return [["w", i, IO_NAMES[(k + j) % 4], GATE_FLAGS[(k + j) % 4]] for j in (0, 1)] + \
           [["w", i, IO_NAMES[4 + (k + j) % 4], GATE_FLAGS[(k + j + 1) % 4]] for j in (0, 1)]


def gate_letters(io, out, eo):
    """set_quiet / set_verbosity on an I/O, on its standard output, on its error output"""
    l = []
    for q in (0, 1):
        l += [["q", io, q], ["oq", out, q], ["oq", eo, q]]
    for v in VERBS:
        l += [["v", io, v], ["ov", out, v], ["ov", eo, v]]
    return l


def words(alphabet, n):
    import itertools
    for k in range(n + 1):
        for w in itertools.product(alphabet, repeat=k):
            yield list(w)


def setter_history(word, cansec):
    """the setters of `word` on I/O 0 with a few writes between them, then every writing method; then io.section() and every
    writing method of the section I/O (it starts with what its parent has NOW); then the parent is turned all the way up -
    the section, made before, must not follow"""
    ops = []
    for k, s in enumerate(word):
        ops.append(list(s))
        if k + 1 < len(word):
            ops += mini(0, k)
    ops += batch(0)
    ops.append(["sec", 0])
    if cansec:
        ops += batch(1)
        ops += [["q", 0, 0], ["v", 0, 4]] + mini(1, 0) + mini(1, 2) + mini(0, 1)
    return ops


def section_history(word):
    """I/O 1 = io.section() exists from the start; setters on parent and section in every order; then a second section of the
    parent (I/O 2) and a section of the section (I/O 3), which start with what THEIR parents have then"""
    ops = [["sec", 0]]
    for k, s in enumerate(word):
        ops.append(list(s))
    ops += batch(0, flags=["nf", 2]) + batch(1)
    ops += [["sec", 0]] + batch(2, flags=["nf", 1, 4])
    ops += [["sec", 1]] + batch(3, flags=["nf", 1, 4])
    # and what Output.section gives when called on the outputs themselves, a section of a section included
    ops += [["osec", 0], ["osec", 3], ["osec", 8]]
    ops += [["ow", o, n, f] for o in (8, 9, 10) for (n, f) in (("write_line", "nf"), ("write_line", 2), ("write", 1), ("overwrite", "nf"))]
    return ops


def stream_letters():
    """the gate setters on the I/O next to set_formatter on the I/O and set_stream / set_formatter on one output"""
    l = [["q", 0, 0], ["q", 0, 1]] + [["v", 0, v] for v in VERBS] + [["fm", 0, k] for k in range(4)]
    l += [["ost", 0, None, 0], ["ost", 0, None, 1], ["ost", 1, None, 0], ["ost", 1, None, 1], ["ofm", 0, 2], ["ofm", 1, 1]]
    return l


def number_streams(ops):
    """set_stream ops get fresh stream numbers in the order they are made"""
    n, out = 2, []
    for o in ops:
        if o[0] == "ost":
            o = ["ost", o[1], n, o[3]]
            n += 1
        out.append(o)
    return out


def stream_history(word, cansec):
    ops = []
    for k, s in enumerate(word):
        ops.append(list(s))
        if k + 1 < len(word):
            ops += mini(0, k)
    ops += batch(0, flags=["nf", 1, 4])
    ops.append(["sec", 0])
    if cansec:
        ops += batch(1, flags=["nf", 2])
        # the section's own stream / formatter changed afterwards
        ops += [["ost", 2, None, 1], ["fm", 1, 2]] + batch(1, flags=["nf", 4])
    return number_streams(ops)


def random_history(rng):
    n_out, n_io, sid = 2, 1, 2
    secs = set()                   # the outputs that are sections
    pairs = [(0, 1)]
    ops = []
    for _ in range(rng.randint(5, 28)):
        r = rng.random()
        i, o = rng.randrange(n_io), rng.randrange(n_out)
        if r < 0.30:
            ops.append(["w", i, rng.choice(IO_NAMES), rng.choice(["nf", None, 0, 1, 2, 3, 4, 5, 6, 7, 8, 9, -1, 2 ** 40 + 1, 2 ** 40 + 4])])
        elif r < 0.42:
            names = OUT_NAMES if o in secs else OUT_NAMES[:4]
            n = rng.choice(names)
            ops.append(["ow", o, n, "nf" if n == "overwrite" else rng.choice(["nf", None, 0, 1, 2, 3, 4, 6, 8, -1])])
        elif r < 0.50:
            ops.append(["q", i, rng.randint(0, 1)])
        elif r < 0.58:
            ops.append(["v", i, rng.choice(VERBS + VERBS + BAD_VERBS)])
        elif r < 0.64:
            ops.append(["oq", o, rng.randint(0, 1)])
        elif r < 0.70:
            ops.append(["ov", o, rng.choice(VERBS + VERBS + BAD_VERBS)])
        elif r < 0.73:
            ops.append(["ia", i, rng.randint(0, 1)])
        elif r < 0.77:
            ops.append(["fm", i, rng.randrange(4)])
        elif r < 0.80:
            ops.append(["ofm", o, rng.randrange(4)])
        elif r < 0.84:
            ops.append(["ost", o, sid, rng.randint(0, 1)])
            sid += 1
        elif r < 0.87:
            ops.append(["in", i, rng.randint(0, 1), rng.choice((0, 2, 3, -1))])
        elif r < 0.89:
            ops.append(["oin", o, rng.randint(0, 1), rng.choice((0, 2, 3, -1))])
        elif r < 0.95 and n_io < 5:
            ops.append(["sec", i])
            secs.update((n_out, n_out + 1))
            pairs.append((n_out, n_out + 1))
            n_out += 2
            n_io += 1
        elif n_out < 12:
            ops.append(["osec", o])
            secs.add(n_out)
            n_out += 1
    return ops


def gen(rng, tier, classes, counts):
    """classes: the I/O classes reflection found, [(name, has a working section())]"""
    cases = []

    def add(kind, T, fk, sa, ops, **kw):
        c = {"hist": kind, "T": T, "fk": fk, "sa": sa, "ops": ops}
        c.update(kw)
        cases.append(c)
        counts[kind] = counts.get(kind, 0) + 1
    kinds3 = [(1, 0), (2, 0), (0, 1)]          # forced ANSI on a plain stream, Plain, ANSI on an ANSI-capable stream
    letters = gate_letters(0, 0, 1)
    deep = tier == "thorough"
    # (a) every sequence of <= 2 gate setters on the I/O / its outputs, every class, three formatter / stream kinds;
    #     of 3: the classes and kinds in rotation (quick) / every class, the kinds in rotation (thorough)
    k = 0
    for word in words(letters, 3 if tier != "search" else 1):
        if len(word) < 3:
            for (T, cansec) in classes:
                for (fk, sa) in kinds3:
                    add("setters", T, fk, sa, setter_history(word, cansec))
        elif deep:
            for (T, cansec) in classes:
                fk, sa = kinds3[k % 3]
                add("setters", T, fk, sa, setter_history(word, cansec))
            k += 1
        else:
            T, cansec = classes[k % len(classes)]
            fk, sa = kinds3[(k // len(classes)) % 3]
            add("setters", T, fk, sa, setter_history(word, cansec))
            k += 1
    # (b) parent and section: every sequence of <= 2 setters over I/O 0, I/O 1 = its section, and their outputs
    both = gate_letters(0, 0, 1) + gate_letters(1, 2, 3)
    k = 0
    for word in words(both, 2 if tier != "search" else 1):
        secable = [c for c in classes if c[1]]
        if not secable:
            break
        T, _ = secable[k % len(secable)]
        fk, sa = kinds3[(k // len(secable)) % 3]
        add("sections", T, fk, sa, section_history(word))
        k += 1
    # (c) set_stream / set_formatter among the gate setters, <= 3 (quick: 3 only over a reduced alphabet)
    sl = stream_letters()
    reduced = [sl[1], sl[3], sl[5]] + sl[6:]                     # quiet on, verbosity 1, verbosity 4, the ten others
    k = 0
    for n, alpha in ((2, sl), (3, sl if deep else reduced)):
        for word in words(alpha, n if tier != "search" else 1):
            if n == 3 and len(word) < 3:
                continue
            T, cansec = classes[k % len(classes)]
            fk, sa = [(1, 0), (2, 0), (0, 1), (3, 1), (0, 0)][(k // len(classes)) % 5]
            add("streams", T, fk, sa, stream_history(word, cansec))
            k += 1
    # (d) random histories over everything
    for _ in range({"quick": 3000, "thorough": 30000, "search": 600}[tier]):
        T, cansec = rng.choice(classes)
        if not cansec:
            T, cansec = rng.choice(classes)
        ops = random_history(rng)
        if not cansec:
            ops = number_streams(strip_after_failed_section(ops))
        add("random", T, rng.randrange(4), rng.randint(0, 1), ops)
    return cases


def strip_after_failed_section(ops):
    """a class whose section() raises (NullIO) makes no object: keep the section() calls (they must raise) but renumber
    nothing - simply drop every later op that names an object that would not exist"""
    n_out, n_io, out = 2, 1, []
    for o in ops:
        if o[0] == "sec":
            if o[1] < n_io:
                out.append(o)
            continue
        if o[0] == "osec":
            if o[1] < n_out:
                out.append(o)
                n_out += 1
            continue
        if o[0] in ("w", "q", "v", "ia", "fm", "in"):
            if o[1] < n_io:
                out.append(o)
        elif o[1] < n_out:
            out.append(o)
    return out


# ---------------------------------------------------------------- the real code
def run_history(case, instance, io_classes):
    """-> [what every call showed, the state of every output, the outputs of every I/O, interactive?, per call: did ANY stream grow]"""
    from clikit.formatter import AnsiFormatter, PlainFormatter, NullFormatter
    from clikit.io.output_stream import BufferedOutputStream
    from clikit.api.io.section_output import SectionOutput

    class AnsiStream(BufferedOutputStream):
        def supports_ansi(self):
            return True

    def mkf(k):
        return [AnsiFormatter, lambda: AnsiFormatter(forced=True), PlainFormatter, NullFormatter][k]()

    def mks(ansi):
        return AnsiStream() if ansi else BufferedOutputStream()
    streams = [mks(case["sa"]), mks(case["sa"])]
    root, _ = instance(io_classes()[case["T"]], streams[0], streams[1], mkf(case["fk"]))
    ios, outs = [root], [root.output, root.error_output]
    shown, grew = [], []
    for k, o in enumerate(case["ops"]):
        before = [len(s.fetch()) for s in streams]
        try:
            t = o[0]
            if t in ("w", "ow"):
                obj = ios[o[1]] if t == "w" else outs[o[1]]
                meth = getattr(obj, o[2])
                if o[3] == "nf":
                    meth(mark(k))
                else:
                    meth(mark(k), o[3])
                res = None
            elif t == "q":
                ios[o[1]].set_quiet(bool(o[2]))
            elif t == "v":
                ios[o[1]].set_verbosity(o[2])
            elif t == "ia":
                ios[o[1]].set_interactive(bool(o[2]))
            elif t == "fm":
                ios[o[1]].set_formatter(mkf(o[2]))
            elif t == "in":
                ios[o[1]].increment_indent(o[3]) if o[2] else ios[o[1]].indent(o[3])
            elif t == "sec":
                new = ios[o[1]].section()
                ios.append(new)
                outs += [new.output, new.error_output]
            elif t == "oq":
                outs[o[1]].set_quiet(bool(o[2]))
            elif t == "ov":
                outs[o[1]].set_verbosity(o[2])
            elif t == "ofm":
                outs[o[1]].set_formatter(mkf(o[2]))
            elif t == "ost":
                if o[2] != len(streams):
                    raise HarnessError("stream numbers out of step")
                streams.append(mks(o[3]))
                outs[o[1]].set_stream(streams[-1])
            elif t == "oin":
                outs[o[1]].increment_indent(o[3]) if o[2] else outs[o[1]].indent(o[3])
            elif t == "osec":
                outs.append(outs[o[1]].section())
            else:
                raise HarnessError("unknown op %r" % (o,))
            raised = None
        except HarnessError:
            raise
        except Exception as e:  # noqa
            raised = err(e)
        # (a stream attached by this very call had nothing before it)
        pieces = [s.fetch()[(before[j] if j < len(before) else 0):] for j, s in enumerate(streams)]
        grew.append([j for j, p in enumerate(pieces) if p])
        if raised is not None:
            shown.append(raised)
        elif o[0] in ("w", "ow"):
            shown.append([1, [j for j, p in enumerate(pieces) if mark(k) in p]])
        else:
            shown.append([0])

    def sid(out):
        for j, s in enumerate(streams):
            if out.stream is s:
                return j
        return -1
    state = [[1 if x.is_quiet() else 0, int(x.verbosity), x._indent, 1 if x.supports_ansi() else 0,
              1 if isinstance(x, SectionOutput) else 0, sid(x)] for x in outs]

    def idx(out):
        for j, x in enumerate(outs):
            if x is out:
                return j
        return -1
    pairs = [[idx(i.output), idx(i.error_output)] for i in ios]
    whole = [s.fetch() for s in streams]
    return [shown, state, pairs, 1 if root.is_interactive() else 0, grew, whole]


# ---------------------------------------------------------------- the oracle: the property, on what the real calls showed
def walk(case, lowest):
    """per call: None, or for a writing call (stream its text must go to, allowed?) - from the settings GIVEN alone (an I/O's
    setter reaches its two outputs, an output's setter that output, a section starts with what its parent has then; an invalid
    verbosity changes nothing), independent of the model"""
    outs = [{"q": 0, "v": 0, "sid": 0}, {"q": 0, "v": 0, "sid": 1}]
    ios = [(0, 1)]
    cansec = can_section(case["T"])
    res = []
    for o in case["ops"]:
        t, r = o[0], None
        if t == "w":
            x = outs[ios[o[1]][0 if IO_NAMES.index(o[2]) < 4 else 1]]
            f = None if o[3] == "nf" else o[3]
            r = (x["sid"], (not x["q"]) and x["v"] >= lowest(f))
        elif t == "ow":
            x = outs[o[1]]
            f = None if o[3] == "nf" or o[2] == "overwrite" else o[3]
            r = (x["sid"], (not x["q"]) and x["v"] >= lowest(f))
        elif t == "q":
            for j in ios[o[1]]:
                outs[j]["q"] = o[2]
        elif t == "v":
            if o[2] in VERBS:
                for j in ios[o[1]]:
                    outs[j]["v"] = o[2]
            else:
                r = "raises"
        elif t == "oq":
            outs[o[1]]["q"] = o[2]
        elif t == "ov":
            if o[2] in VERBS:
                outs[o[1]]["v"] = o[2]
            else:
                r = "raises"
        elif t == "ost":
            outs[o[1]]["sid"] = o[2]
        elif t == "sec":
            if cansec:
                a, b = ios[o[1]]
                ios.append((len(outs), len(outs) + 1))
                outs += [dict(outs[a]), dict(outs[b])]
            else:
                r = "raises"
        elif t == "osec":
            outs.append(dict(outs[o[1]]))
        res.append(r)
    return res


def who(case, o):
    """the name a failure is filed under: the method, not the class or the depth of the section (the replay's description has
    both) - a broken setter fails under every method of every class, and every class of failure is shrunk on its own"""
    if o[0] == "w":
        return "io.%s" % o[2]
    return "output.%s" % o[2]


def oracle(case, obs, lowest):
    shown, state, pairs, inter, grew, whole = obs
    exp = walk(case, lowest)
    refused = []
    for k, (o, e, s, g) in enumerate(zip(case["ops"], exp, shown, grew)):
        if e == "raises":
            if s[0] != -1:
                return "invalid-call-accepted:%s" % o[0]
            continue
        if s[0] == -1:
            return "exception:%s" % o[0]
        if e is None:
            if g:
                return "emits-without-path:%s" % o[0]
            continue
        sid, ok = e
        if not ok:
            refused.append(k)
            if sid in s[1]:
                return "gate:%s" % who(case, o)
            if s[1]:
                return "wrong-stream:%s" % who(case, o)
            if g:
                return "bytes-despite-gate:%s" % who(case, o)
        else:
            if s[1] == []:
                return "gate:%s" % who(case, o)
            if s[1] != [sid]:
                return "wrong-stream:%s" % who(case, o)
    for k in refused:
        if any(mark(k) in w for w in whole):
            return "refused-text-appears-later:%s" % who(case, case["ops"][k])
    return None


def nontrivial(case, lowest):
    """a history is non-trivial when some writing call is refused and some allowed"""
    e = [x for x in walk(case, lowest) if isinstance(x, tuple)]
    return any(ok for _, ok in e) and any(not ok for _, ok in e)


def describe(case):
    def d(o):
        t = o[0]
        if t == "w":
            return "io%d.%s(%r%s)" % (o[1], o[2], "#", "" if o[3] == "nf" else ", %r" % (o[3],))
        if t == "ow":
            return "out%d.%s(%r%s)" % (o[1], o[2], "#", "" if o[3] == "nf" else ", %r" % (o[3],))
        if t in ("q", "v", "ia"):
            return "io%d.%s(%r)" % (o[1], {"q": "set_quiet", "v": "set_verbosity", "ia": "set_interactive"}[t], bool(o[2]) if t != "v" else o[2])
        if t == "fm":
            return "io%d.set_formatter(%s)" % (o[1], FK_NAMES[o[2]])
        if t == "in":
            return "io%d.%s(%d)" % (o[1], "increment_indent" if o[2] else "indent", o[3])
        if t == "sec":
            return "io%d.section()" % o[1]
        if t in ("oq", "ov"):
            return "out%d.%s(%r)" % (o[1], "set_quiet" if t == "oq" else "set_verbosity", bool(o[2]) if t == "oq" else o[2])
        if t == "ofm":
            return "out%d.set_formatter(%s)" % (o[1], FK_NAMES[o[2]])
        if t == "ost":
            return "out%d.set_stream(<new %sstream %d>)" % (o[1], "ANSI-capable " if o[3] else "", o[2])
        if t == "oin":
            return "out%d.%s(%d)" % (o[1], "increment_indent" if o[2] else "indent", o[3])
        return "out%d.section()" % o[1]
    return ("history on a %s (io0; out0 = its output, out1 = its error output; objects numbered as they are made), %s on %s streams: "
            % (case["T"], FK_NAMES[case["fk"]], "ANSI-capable" if case["sa"] else "plain")) + "; ".join(d(o) for o in case["ops"])


def refs(o):
    """-> (I/O numbers, output numbers) a call names"""
    if o[0] in ("w", "q", "v", "ia", "fm", "in", "sec"):
        return [o[1]], []
    return [], [o[1]]


def drop_creation(ops, p):
    """ops without the creating call at position p, the later objects renumbered; None when a later call names what it made"""
    n_out, n_io = 2, 1
    for o in ops[:p]:
        if o[0] == "sec":
            n_out, n_io = n_out + 2, n_io + 1
        elif o[0] == "osec":
            n_out += 1
    o = ops[p]
    if o[0] == "ost":
        return number_streams(ops[:p] + ops[p + 1:])
    made_out = [n_out, n_out + 1] if o[0] == "sec" else [n_out]
    made_io = [n_io] if o[0] == "sec" else []
    rest = []
    for x in ops[p + 1:]:
        ios, outs = refs(x)
        if any(i in made_io for i in ios) or any(j in made_out for j in outs):
            return None
        x = list(x)
        if ios and ios[0] > n_io and made_io:
            x[1] -= 1
        if outs and outs[0] > made_out[-1]:
            x[1] -= len(made_out)
        rest.append(x)
    return ops[:p] + rest


def shrink(case):
    """the shortest failing prefix that ends in a writing call; then that call alone among the writes; then one call less
    (a creating call only when nothing later names what it made: the later objects are renumbered)"""
    ops = case["ops"]
    writes = [i for i, o in enumerate(ops) if o[0] in ("w", "ow")]
    for i in writes[:-1][:150]:
        yield dict(case, ops=ops[:i + 1])
    if writes and writes[-1] + 1 < len(ops):
        yield dict(case, ops=ops[:writes[-1] + 1])
    if len(writes) > 1:
        yield dict(case, ops=[o for i, o in enumerate(ops) if o[0] not in ("w", "ow") or i == writes[-1]])
    for i in range(len(ops)):
        if ops[i][0] in ("sec", "osec", "ost"):
            cut = drop_creation(ops, i)
            if cut is not None:
                yield dict(case, ops=cut)
        else:
            yield dict(case, ops=ops[:i] + ops[i + 1:])
