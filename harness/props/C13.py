"""C13 - help pages are complete, respect hiding, fit the terminal and never fail."""
import re, textwrap
from hutil import S, unS, err, enc_val
import parsergen as G

MODEL = "C13"
PROP_FILES = ["Props/C13.v"]
RULE = ("generated applications (1-3 commands, sub-commands to depth 2; default / anonymous / disabled / hidden commands; aliases; 0-3 "
        "arguments and 0-3 options per command with every flag kind; descriptions absent / short / several lines; defaults of every "
        "type; names that look like style tags) x every command path and the application page x terminal widths {40, 47, 60, 80, 120, "
        "200} (thorough: 40..200 sampled) x ANSI / plain; plus textwrap.wrap alone over adversarial ASCII texts x widths 1..40; "
        "non-trivial = a page with >= 1 argument or option and >= 1 wrapped paragraph / a text that wraps; distinct by request")
TRUSTED = ["textwrap.wrap (CPython) is modelled by hand in Model/Wrap.v for texts without tabs whose word characters are ASCII; the "
           "model is compared with textwrap.wrap itself on every run", "the layout elements are read from BlockLayout._elements / "
           "_indentations after _render_help (no source change)"]
ASSUMPTIONS = ["help texts and descriptions contain no tab, no brace and no non-ASCII word character; sibling commands have distinct names"]

SGR = re.compile("\x1b\\[[0-9;]*m")
WIDTHS = [40, 47, 60, 80, 120, 200]
DESCS = [None, "", "Short text", "A longer description that certainly needs to be wrapped when the terminal is narrow, with punctuation.",
         "Two lines\nof text here", "with <b>bold</b> and \"quotes\" 100% sure", "dash-separated well-known words and a--b or x -- y",
         "trailing space  ", "supercalifragilisticexpialidociousandevenlongerthanthatbyalotofcharacters-and-more", "   leading"]
EDESCS = [d for d in DESCS if d != ""]
HELPS = [None, "Help text first paragraph.\n\nSecond paragraph after an empty line, long enough to be wrapped at narrow widths for sure.",
         "one line"]
ARG_NAMES = ["file", "b", "comment", "info", "target-dir", "u", "x1", "name"]
OPT_NAMES = [("output", "o"), ("force", "f"), ("error", "e"), ("no-cache", None), ("level", "l"), ("b-opt", "b"), ("tag", None), ("with-value", "w")]
OPT_FLAGS = [G.NO_VALUE, G.REQ_V, G.OPT_V, G.MULTI_V, G.REQ_V | G.O_INT, G.NO_VALUE | 1, G.REQ_V | 2, G.OPT_V | G.O_NULL, G.MULTI_V | G.O_INT]
DEFAULTS = {"str": ["dv", "a \"quoted\" one", "é", "<b>"], "int": [0, 42, -7], "bool": [True, False], "list": [["x", "y"], [1, 2]]}
CMD_NAMES = ["server", "add", "list", "run", "b", "info"]


def rand_opt(rng, used):
    for _ in range(10):
        long, short = rng.choice(OPT_NAMES)
        if long in used or (short and short in used):
            continue
        used.add(long)
        if short:
            used.add(short)
        fl = rng.choice(OPT_FLAGS)
        if fl & 2 and not short:
            fl &= ~2
        d = None
        if not fl & G.NO_VALUE and rng.random() < 0.6:
            if fl & G.MULTI_V:
                d = rng.choice(DEFAULTS["list"])
            else:
                d = rng.choice(DEFAULTS[rng.choice(["str", "int", "bool"])])
        return {"long": long, "short": short, "flags": fl, "desc": rng.choice(EDESCS), "default": d, "vname": rng.choice(["...", "value", "b", "path"])}
    return None


def rand_args(rng, st, used):
    out = []
    for _ in range(rng.randint(0, 3)):
        if st["multi"]:
            break
        name = rng.choice(ARG_NAMES)
        if name in used:
            continue
        kind = rng.choice([G.A_REQ, G.A_OPT, G.A_MULTI, G.A_MULTI | G.A_REQ, G.A_OPT | G.A_INT])
        if kind & G.A_REQ and st["optional"]:
            kind = (kind & ~G.A_REQ) | (0 if kind & G.A_MULTI else G.A_OPT)
        d = None
        if not kind & G.A_REQ and rng.random() < 0.5:
            d = rng.choice(DEFAULTS["list"]) if kind & G.A_MULTI else rng.choice(DEFAULTS["str"] + DEFAULTS["int"])
        if kind & G.A_MULTI:
            st["multi"] = True
        if not kind & G.A_REQ:
            st["optional"] = True
        used.add(name)
        out.append({"name": name, "flags": kind, "desc": rng.choice(EDESCS), "default": d})
    return out


def rand_cmd(rng, name, depth, used_o, used_a, st):
    used_o, used_a, st = set(used_o), set(used_a), dict(st)
    opts = [o for o in (rand_opt(rng, used_o) for _ in range(rng.randint(0, 3))) if o]
    args = rand_args(rng, st, used_a)
    r = rng.random()
    c = {"name": name, "aliases": rng.choice([[], [], [name[:2] + "x"], [name + "2", name[0] + "z"]]), "default": r < 0.3, "anonymous": r < 0.1,
         "enabled": rng.random() > 0.12, "hidden": rng.random() < 0.2, "desc": rng.choice(DESCS[1:]), "help": rng.choice(HELPS),
         "opts": opts, "args": args, "subs": []}
    if depth < 2:
        for n in rng.sample(CMD_NAMES, rng.randint(0, 3)):
            c["subs"].append(rand_cmd(rng, n, depth + 1, used_o, used_a, st))
    return c


def rand_app(rng):
    used = set()
    gopts = [o for o in (rand_opt(rng, used) for _ in range(rng.randint(0, 3))) if o]
    t = {"name": rng.choice(["app", "app", None, "my-tool"]), "display": rng.choice(["App", None, "My Tool"]), "version": rng.choice(["1.0", None]),
         "gopts": gopts, "help": rng.choice(HELPS), "cmds": []}
    for n in rng.sample(CMD_NAMES, rng.randint(1, 3)):
        t["cmds"].append(rand_cmd(rng, n, 1, used, set(), {"optional": False, "multi": False}))
    return t


def paths(t):
    out = []

    def go(c, p):
        if not c["enabled"]:
            return
        out.append(p)
        for i, s in enumerate(c["subs"]):
            go(s, p + [i])
    for i, c in enumerate(t["cmds"]):
        go(c, [i])
    return out


def named_paths(t):
    out = []

    def go(c, p):
        if not c["enabled"] or c["anonymous"]:
            return
        out.append(p + [c["name"]])
        for s in c["subs"]:
            go(s, p + [c["name"]])
    for c in t["cmds"]:
        if c["name"] != "help":
            go(c, [])
    return out


WRAP_ALPHA = ["a", "bc", "word", "x", " ", "  ", "-", "--", "---", "a-b", "well-known", "e-mail-address", "\n", "1", "42", "3-4", "\"q\"", "'s", ".", ",", "!",
              "?", "&", "_", "(", ")", "[--opt]", "<b>", "</b>", "longwordlongwordlongword", "x-", "-y", "a--b", "ab--", "é", "\xa0", "[-v\xa0<...>]", ";", "%"]


def gen(rng, tier, info):
    n_apps = {"quick": 120, "thorough": 1200, "search": 40}[tier]
    n_wrap = {"quick": 6000, "thorough": 60000, "search": 1500}[tier]
    cases = []
    for _ in range(n_wrap):
        text = "".join(rng.choice(WRAP_ALPHA) for _ in range(rng.randint(0, 14)))
        cases.append({"k": 2, "text": text, "width": rng.choice([1, 2, 3, 4, 5, 7, 10, 15, 20, 40])})
    for d in DESCS[1:] + HELPS[1:]:
        for w in range(1, 41):
            cases.append({"k": 2, "text": d, "width": w})
    n_w = len(cases)
    for i in range(n_apps):
        t = rand_app(rng)
        widths = WIDTHS if tier != "thorough" else sorted(set(WIDTHS + [rng.randint(40, 200) for _ in range(4)]))
        for w in (widths if i % 4 == 0 else [rng.choice(widths), rng.choice(widths)]):
            for ansi in (0, 1):
                cases.append({"k": 1, "tree": t, "W": w, "ansi": ansi})
                for p in paths(t):
                    cases.append({"k": 0, "tree": t, "path": p, "W": w, "ansi": ansi})
    # 'help <path>' prints the same page as '<path> --help' (and -h), on the default application configuration
    for i in range({"quick": 40, "thorough": 300, "search": 10}[tier]):
        t = rand_app(rng)
        for p in named_paths(t):
            cases.append({"k": 3, "tree": t, "names": p})
    # narrow terminals: the guard of the width claim
    t = rand_app(rng)
    for w in (5, 12, 20, 30):
        cases.append({"k": 1, "tree": t, "W": w, "ansi": 0, "narrow": True})
        for p in paths(t):
            cases.append({"k": 0, "tree": t, "path": p, "W": w, "ansi": 0, "narrow": True})
    info["exhaustive"] = False
    info["distribution"] = {"wrap_only": n_w, "applications": n_apps, "pages": len(cases) - n_w}
    return cases


def _sty(tag, fg=None, attrs=0):
    o = lambda v: [] if v is None else [S(v)]
    return [o(tag), o(fg), []] + [attrs >> i & 1 for i in range(7)]


# the default style set, as wired for the formatter model (bold = bit 0, underlined = bit 3)
STYLE_SET = [_sty("info", "green"), _sty("comment", "cyan"), _sty("question", "blue"), _sty("error", "red", 1), _sty("b", None, 1),
             _sty("u", None, 8), _sty("c1", "cyan"), _sty("c2", "yellow")]


def w_opt(o):
    return [[S(o["long"]), [] if o["short"] is None else [S(o["short"])], o["flags"], enc_val(o["default"])],
            [] if o["desc"] is None else [S(o["desc"])], S(o["vname"])]


def w_arg(a):
    return [[S(a["name"]), a["flags"], enc_val(a["default"])], [] if a["desc"] is None else [S(a["desc"])]]


def o_(v):
    return [] if v is None else [S(v)]


def wire(c):
    if c["k"] == 3:
        return [3]
    if c["k"] == 2:
        return [2, S(c["text"]), c["width"]]
    t = c["tree"]
    sset = STYLE_SET
    if c["k"] == 1:
        cmds = [[S(x["name"]), int(x["anonymous"]), int(x["enabled"]), int(x["hidden"]), S(x["desc"] or "")] for x in t["cmds"]]
        # ApplicationConfig.display_name falls back to a title-cased name (configuration, not help rendering)
        display = t["display"] if t["display"] is not None else (None if t["name"] is None else re.sub(r"[\s\-_]+", " ", t["name"]).title())
        return [1, c["W"], c["ansi"], sset, o_(t["name"]), o_(display), o_(t["version"]), [w_opt(o) for o in t["gopts"]], cmds, o_(t["help"])]
    chain = [[[], [w_opt(o) for o in t["gopts"]], []]]
    cur = {"subs": t["cmds"]}
    for i in c["path"]:
        cur = cur["subs"][i]
        chain.append([[] if cur["anonymous"] else [S(cur["name"])], [w_opt(o) for o in cur["opts"]], [w_arg(a) for a in cur["args"]]])
    subs = [[S(s["name"]), int(s["default"] or s["anonymous"]), int(s["anonymous"]), int(s["enabled"]), int(s["hidden"]), o_(s["desc"]), o_(s["help"]),
             [w_opt(o) for o in s["opts"]], [w_arg(a) for a in s["args"]]] for s in cur["subs"]]
    return [0, c["W"], c["ansi"], sset, o_(t["name"]), chain, [S(a) for a in cur["aliases"]], o_(cur["help"]), subs]


def describe(c):
    if c["k"] == 3:
        return "DefaultApplicationConfig application %r: 'help %s' against '%s --help' and '-h'" % (c["tree"], " ".join(c["names"]), " ".join(c["names"]))
    if c["k"] == 2:
        return "textwrap.wrap(%r, %d)" % (c["text"], c["width"])
    return "%s at width %d, %s, application %r" % ("application help" if c["k"] == 1 else "help of command path %r" % c["path"], c["W"],
                                                  "ANSI" if c["ansi"] else "plain", c["tree"])


_APPS = {}


def build(t):
    import json
    key = json.dumps(t, sort_keys=True)
    if key in _APPS:
        return _APPS[key]
    from clikit.api.config.application_config import ApplicationConfig
    from clikit.resolver.default_resolver import DefaultResolver
    from clikit import ConsoleApplication
    config = ApplicationConfig(t["name"], t["version"])
    config.set_command_resolver(DefaultResolver())
    if t["display"] is not None:
        config.set_display_name(t["display"])
    if t["help"] is not None:
        config.set_help(t["help"])

    def add_opts(cfg, opts):
        for o in opts:
            d = o["default"]
            cfg.add_option(o["long"], o["short"], o["flags"], o["desc"], list(d) if isinstance(d, list) else d, o["vname"])

    def fill(cc, c):
        for a in c["aliases"]:
            cc.add_alias(a)
        if c["anonymous"]:
            cc.anonymous()
        elif c["default"]:
            cc.default()
        if not c["enabled"]:
            cc.disable()
        if c["hidden"]:
            cc.hide()
        if c["desc"] is not None:
            cc.set_description(c["desc"])
        if c["help"] is not None:
            cc.set_help(c["help"])
        add_opts(cc, c["opts"])
        for a in c["args"]:
            d = a["default"]
            cc.add_argument(a["name"], a["flags"], a["desc"], list(d) if isinstance(d, list) else d)
        for s in c["subs"]:
            fill(cc.create_sub_command(s["name"]), s)
    add_opts(config, t["gopts"])
    for c in t["cmds"]:
        fill(config.create_command(c["name"]), c)
    app = ConsoleApplication(config)
    if len(_APPS) > 50:
        _APPS.clear()
    _APPS[key] = app
    return app


def run_default(t, line):
    from clikit.config import DefaultApplicationConfig
    from clikit import ConsoleApplication
    from clikit.args import StringArgs
    from clikit.io.output_stream import BufferedOutputStream
    config = DefaultApplicationConfig(t["name"] or "app", t["version"])
    config.set_terminate_after_run(False)
    config.set_catch_exceptions(False)

    def fill(cc, c):
        for a in c["aliases"]:
            cc.add_alias(a)
        if c["default"]:
            cc.default()
        if not c["enabled"]:
            cc.disable()
        if c["hidden"]:
            cc.hide()
        if c["anonymous"]:
            cc.anonymous()
        for o in c["opts"]:
            d = o["default"]
            cc.add_option(o["long"], o["short"], o["flags"], o["desc"], list(d) if isinstance(d, list) else d, o["vname"])
        for a in c["args"]:
            d = a["default"]
            cc.add_argument(a["name"], a["flags"], a["desc"], list(d) if isinstance(d, list) else d)
        for s in c["subs"]:
            fill(cc.create_sub_command(s["name"]), s)
    taken = {"help", "h", "quiet", "q", "verbose", "v", "version", "V", "ansi", "no-ansi", "no-interaction", "n"}
    for c in t["cmds"]:
        if c["name"] != "help":
            fill(config.create_command(c["name"]), c)
    app = ConsoleApplication(config)
    out, errs = BufferedOutputStream(), BufferedOutputStream()
    try:
        status = app.run(StringArgs(line), None, out, errs)
    except Exception as e:  # noqa
        return ["exc", type(e).__name__]
    return [status, out.fetch(), errs.fetch()]


def run_impl(c):
    if c["k"] == 3:
        path = " ".join(c["names"])
        a, b, d = run_default(c["tree"], "help " + path), run_default(c["tree"], path + " --help"), run_default(c["tree"], path + " -h")
        return [int(a == b == d), 1 if a[0] == 0 else 0, [S(repr(x)[:3000]) for x in (a, b, d)]]
    if c["k"] == 2:
        try:
            return [0, [S(l) for l in textwrap.wrap(c["text"], c["width"])]]
        except Exception as e:  # noqa
            return err(e)
    from clikit.io import BufferedIO
    from clikit.formatter import AnsiFormatter, PlainFormatter
    from clikit.ui.rectangle import Rectangle
    from clikit.ui.help import ApplicationHelp, CommandHelp
    from clikit.ui.layout import BlockLayout
    from clikit.ui.components import Paragraph, LabeledParagraph, EmptyLine, NameVersion
    try:
        app = build(c["tree"])
    except Exception as e:  # noqa
        return err(e)
    if c["k"] == 1:
        helper = ApplicationHelp(app)
    else:
        t = c["tree"]
        cur = t["cmds"][c["path"][0]]
        cmd = app.get_command(cur["name"])
        for i in c["path"][1:]:
            cur = cur["subs"][i]
            cmd = cmd.get_sub_command(cur["name"])
        helper = CommandHelp(cmd)
    io = BufferedIO(formatter=AnsiFormatter(forced=True) if c["ansi"] else PlainFormatter())
    io.set_terminal_dimensions(Rectangle(c["W"], 50))
    layout = BlockLayout()
    helper._formatter = io       # what render() hands to _render_help (fix for tag-like names)
    helper._render_help(layout)
    elems = []
    for ind, e in zip(layout._indentations, layout._elements):
        if isinstance(e, LabeledParagraph):
            elems.append([ind, 1, S(e.label), S(e.text), e.padding, int(e.is_aligned())])
        elif isinstance(e, Paragraph):
            elems.append([ind, 0, S(e._text)])
        elif isinstance(e, EmptyLine):
            elems.append([ind, 2])
        elif isinstance(e, NameVersion):
            cfg = e._config
            if cfg.display_name and cfg.version:
                text = "{} version <c1>{}</c1>".format(cfg.display_name, cfg.version)
            elif cfg.display_name:
                text = "{}".format(cfg.display_name)
            else:
                text = "Console Tool"
            elems.append([ind, 0, S(text)])
        else:
            elems.append([ind, 9, S(type(e).__name__)])
    try:
        helper.render(io)
        page = [0, S(io.fetch_output())]
    except Exception as e:  # noqa
        page = err(e)
    return [elems, page]


# ---- oracle ----
def visible_lines(page):
    return SGR.sub("", page).split("\n")


def needed_width(elems):
    """the margin of the width claim: the widest (indentation + visible label + padding) + 2"""
    need = 2
    off = 0
    vis = lambda s: SGR.sub("", re.sub(r"</?[a-z][a-z0-9]*>|</>", "", s))
    for e in elems:
        if e[1] == 1 and e[5]:
            off = max(off, e[0] + len(vis(unS(e[2]))) + e[4])
    for e in elems:
        if e[1] == 1:
            lab = len(vis(unS(e[2]))) + e[4]
            need = max(need, (max(off, e[0] + lab) if e[5] else e[0] + lab) + 2)
        elif e[1] == 0:
            need = max(need, e[0] + 2)
    return need


def canon_impl(c, o):
    return [1] if c["k"] == 3 and o[0] == 1 and o[1] == 1 else o


def oracle(c, o):
    if c["k"] == 3:
        if o[0] != 1:
            return "help-command-and-help-option-print-different-pages"
        return None if o[1] == 1 else "help-run-failed"
    if c["k"] == 2:
        if o[0] != 0:
            return "wrap-raised" if c["width"] >= 1 else None
        lines = [unS(l) for l in o[1]]
        if any(len(l) > c["width"] for l in lines):
            return "wrapped-line-too-long"
        return None
    if o[0] == -1:
        return "application-construction-failed"
    elems, page = o
    t = c["tree"]
    narrow = c["W"] < needed_width(elems)
    if page[0] != 0:
        return None if narrow else "help-page-raised"
    text = unS(page[1])
    lines = visible_lines(text)
    if not narrow and any(len(l) > c["W"] for l in lines):
        return "line-wider-than-terminal"
    if not c["ansi"] and "\x1b" in text:
        return "plain-page-emits-escape"
    body = "\n".join(lines)

    def listed(label):
        return any(l.strip().startswith(label) or (" " + label) in l for l in lines)
    if c["k"] == 1:
        for x in t["cmds"]:
            shown = any(re.match(r"^  %s( |$)" % re.escape(x["name"]), l) for l in lines)
            want = x["enabled"] and not x["hidden"] and not x["anonymous"]
            if shown != want:
                return "command-listing-wrong:%s" % ("missing" if want else "hidden-or-disabled-shown")
        for o_ in t["gopts"]:
            if not any(("--" + o_["long"]) in l for l in lines):
                return "global-option-missing"
            if o_["short"] and not any(re.search(r"(^|[ (\[])-%s($|[ )\]\xa0])" % o_["short"], l) for l in lines):
                return "option-short-name-missing"
        return None
    cur = {"subs": t["cmds"], "opts": t["gopts"], "args": []}
    chain = [cur]
    for i in c["path"]:
        cur = cur["subs"][i]
        chain.append(cur)
    # the USAGE block with the line breaks of the wrapping taken out
    usage = "".join(l.strip() for l in lines[1:lines.index("")]) if "" in lines else ""
    for lvl in chain:
        for o_ in lvl["opts"]:
            if not any(("--" + o_["long"]) in l for l in lines):
                return "option-missing"
            if o_["short"] and not any(re.search(r"(^|[ (\[])-%s($|[ )\]\xa0])" % o_["short"], l) for l in lines):
                return "option-short-name-missing"
        for a in lvl["args"]:
            if not any(re.match(r"^ +<%s>( |$)" % re.escape(a["name"]), l) for l in lines):
                return "argument-missing"
            if ("<%s%s>" % (a["name"], "1" if a["flags"] & G.A_MULTI else "")) not in usage:
                return "argument-missing-in-synopsis"
    for s in cur["subs"]:
        shown = any(re.match(r"^  %s$" % re.escape(s["name"]), l) for l in lines)
        want = s["enabled"] and not s["hidden"] and not s["anonymous"]
        if shown != want:
            return "sub-command-listing-wrong:%s" % ("missing" if want else "hidden-or-disabled-shown")
        if want:
            for a in s["args"]:
                if not any(re.match(r"^ +<%s>( |$)" % re.escape(a["name"]), l) for l in lines):
                    return "sub-command-argument-missing"
            for o_ in s["opts"]:
                if not any(("--" + o_["long"]) in l for l in lines):
                    return "sub-command-option-missing"
    return None


def nontrivial_key(c, o):
    import json
    if c["k"] == 3:
        return ("h", json.dumps(c["tree"], sort_keys=True), tuple(c["names"]))
    if c["k"] == 2:
        return ("w", c["text"], c["width"]) if o[0] == 0 and len(o[1]) > 1 else None
    if o[0] == -1:
        return None
    has = any(e[1] == 1 for e in o[0])
    return ("p", json.dumps(c["tree"], sort_keys=True), repr(c.get("path")), c["W"], c["ansi"]) if has else None
