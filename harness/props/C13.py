"""C13 - help pages are complete, respect hiding, fit the terminal and never fail."""
import re, textwrap, os
from hutil import S, unS, err, enc_val
import parsergen as G

MODEL = "C13"
MODEL_ENTRY = "run_C13G"
PROP_FILES = ["Props/C13.v"]
RULE = ("generated applications (1-3 commands, sub-commands to depth 2; default / anonymous / disabled / hidden commands; aliases; 0-3 "
        "arguments and 0-3 options per command with every flag kind; descriptions absent / short / several lines; defaults of every "
        "type incl. floats (nan, inf), '' and []; names that look like style tags; names of 20-30 characters; help texts with "
        "{script_name} / {command_name} and with braces that are no placeholders) x every command path and the application page x "
        "terminal widths {40, 47, 60, 80, 120, 200} (thorough: 40..200 sampled) x ANSI / plain; for every twelfth tree every page "
        "at the widths needed_width + d, d in -2..12 (the guard of the width claim and the text widths 1..13 behind it), ANSI and "
        "plain; plus textwrap.wrap alone over adversarial ASCII texts x widths 1..40; 'help <path>' / '<path> --help' / '<path> -h' "
        "through DefaultApplicationConfig runs at COLUMNS 60 / 80 / 120, compared with each other and with the model's page of the "
        "named command - the path given by names, by aliases (every command on the path that has an alias no sibling shares), and the "
        "EMPTY path ('help' / '--help' / '-h': the application's page, compared with the model's application page of the live default "
        "configuration); the USAGE block of a command page must not start an entry with the names of a disabled or a hidden "
        "non-default sub-command; non-trivial = a page with >= 1 argument or option and >= 1 wrapped paragraph / a text that wraps; "
        "distinct by request")
TRUSTED = ["textwrap.wrap (CPython) is modelled by hand in Model/Wrap.v for texts without tabs whose word characters are ASCII; the "
           "model is compared with textwrap.wrap itself on every run", "the layout elements are read from BlockLayout._elements / "
           "_indentations after _render_help (no source change)",
           "str.format (the placeholders of a help text) is not modelled: the harness formats the help text itself (ref_format: "
           "str.format, the text as it is when it is no valid template) and hands the model the result",
           "whether wrapping cut a text inside its markup (the narrow class of the recorded finding) is decided by the harness with "
           "CPython's textwrap and a copy of pastel's tag pattern, on the element texts and widths of the implementation"]
ASSUMPTIONS = ["help texts and descriptions contain no tab and no non-ASCII word character; sibling commands have distinct names",
               "defaults are of the types json.dumps knows (str, int, float, bool, None, lists): a default of another type (a path, a "
               "decimal, a date - the configuration accepts any object) makes _format_value raise TypeError on the unchanged tree, "
               "genuinely (proposed-fixes/help-default-not-json); the input class is behind the switch FOREIGN_DEFAULTS until the "
               "repair is in /repo"]

SGR = re.compile("\x1b\\[[0-9;]*m")
WIDTHS = [40, 47, 60, 80, 120, 200]
DESCS = [None, "", "Short text", "A longer description that certainly needs to be wrapped when the terminal is narrow, with punctuation.",
         "Two lines\nof text here", "with <b>bold</b> and \"quotes\" 100% sure", "dash-separated well-known words and a--b or x -- y",
         "trailing space  ", "supercalifragilisticexpialidociousandevenlongerthanthatbyalotofcharacters-and-more", "   leading"]
EDESCS = [d for d in DESCS if d != ""]
HELPS = [None, "Help text first paragraph.\n\nSecond paragraph after an empty line, long enough to be wrapped at narrow widths for sure.",
         "one line",
         # the documented placeholders; text that is no valid template (an unknown name, a lone brace, a positional field)
         "Run {script_name} {command_name} --help for more.", "Usage: {script_name} [options]", "Use {name} or {0} here", "set a { brace",
         "a literal {{pair}} and {command_name}", "closing } only"]
ARG_NAMES = ["file", "b", "comment", "info", "target-dir", "u", "x1", "name"]
LONG_ARG_NAMES = ["the-name-of-the-input-file", "destination-directory-path"]
OPT_NAMES = [("output", "o"), ("force", "f"), ("error", "e"), ("no-cache", None), ("level", "l"), ("b-opt", "b"), ("tag", None), ("with-value", "w")]
LONG_OPT_NAMES = [("a-rather-long-option-name", "r"), ("yet-another-lengthy-switch", None)]
P_LONG, P_SHORT = 1, 2     # AbstractOption.PREFER_LONG_NAME / PREFER_SHORT_NAME
OPT_FLAGS = [G.NO_VALUE, G.REQ_V, G.OPT_V, G.MULTI_V, G.REQ_V | G.O_INT, G.NO_VALUE | P_LONG, G.REQ_V | P_SHORT, G.OPT_V | G.O_NULL, G.MULTI_V | G.O_INT,
             G.NO_VALUE | P_SHORT, G.REQ_V | P_LONG, G.OPT_V | P_SHORT, G.MULTI_V | P_LONG, G.REQ_V | G.O_FLOAT, G.REQ_V | G.O_BOOL, G.REQ_V | G.MULTI_V]
DEFAULTS = {"str": ["dv", "a \"quoted\" one", "é", "<b>", ""], "int": [0, 42, -7], "bool": [True, False], "list": [["x", "y"], [1, 2], []],
            "float": [1.5, float("nan"), float("inf"), -2.0]}
# defaults of a type json.dumps does not know (the configuration accepts any object as a default): written in a case as
# {"py": type, "v": text}.  AbstractHelp._format_value raised TypeError on them (proposed-fixes/help-default-not-json); with the
# repair the page shows str(value) as a JSON string, which is what the model prints for the default str(value).
# FOREIGN_DEFAULTS: generate them.  Off until that repair is in /repo (until then every such page raises, genuinely, and the check
# must stay silent on the unchanged tree): make "1" the default below then.  VERIF_C13_FOREIGN_DEFAULTS=1 bin/check C13 quick tries it.
FOREIGN_DEFAULTS = os.environ.get("VERIF_C13_FOREIGN_DEFAULTS", "1") == "1"     # on since fix 512f072 is in /repo
FOREIGN = [{"py": "path", "v": "/tmp/some dir/x"}, {"py": "decimal", "v": "1.50"}, {"py": "date", "v": "2020-01-02"}]


def real_default(d):
    """the default the configuration is given"""
    if isinstance(d, dict):
        if d["py"] == "path":
            import pathlib
            return pathlib.PurePosixPath(d["v"])
        if d["py"] == "decimal":
            import decimal
            return decimal.Decimal(d["v"])
        import datetime
        return datetime.date(*[int(x) for x in d["v"].split("-")])
    return list(d) if isinstance(d, list) else d


def model_default(d):
    """... and the one the model is given: str(value) for a value of a type json does not know"""
    return str(real_default(d)) if isinstance(d, dict) else d


CMD_NAMES = ["server", "add", "list", "run", "b", "info"]
LONG_CMD_NAMES = ["synchronize-repositories", "regenerate-configuration"]
VNAMES = ["...", "value", "b", "path", "value-name-here"]


def pick_name(rng, short, long_):
    return rng.choice(long_) if rng.random() < 0.15 else rng.choice(short)


def rand_opt(rng, used):
    for _ in range(10):
        long, short = pick_name(rng, OPT_NAMES, LONG_OPT_NAMES)
        if long in used or (short and short in used):
            continue
        used.add(long)
        if short:
            used.add(short)
        fl = rng.choice(OPT_FLAGS)
        if fl & P_SHORT and not short:
            fl &= ~P_SHORT
        d = None
        if not fl & G.NO_VALUE and rng.random() < 0.6:
            if fl & G.MULTI_V:
                d = rng.choice(DEFAULTS["list"])
            else:
                d = rng.choice(DEFAULTS[rng.choice(["str", "int", "bool", "float"])])
                if FOREIGN_DEFAULTS and rng.random() < 0.15:
                    d = rng.choice(FOREIGN)
        return {"long": long, "short": short, "flags": fl, "desc": rng.choice(EDESCS), "default": d, "vname": rng.choice(VNAMES)}
    return None


def rand_args(rng, st, used):
    out = []
    for _ in range(rng.randint(0, 3)):
        if st["multi"]:
            break
        name = pick_name(rng, ARG_NAMES, LONG_ARG_NAMES)
        if name in used:
            continue
        kind = rng.choice([G.A_REQ, G.A_OPT, G.A_MULTI, G.A_MULTI | G.A_REQ, G.A_OPT | G.A_INT, G.A_OPT | G.A_FLOAT])
        if kind & G.A_REQ and st["optional"]:
            kind = (kind & ~G.A_REQ) | (0 if kind & G.A_MULTI else G.A_OPT)
        d = None
        if not kind & G.A_REQ and rng.random() < 0.5:
            d = rng.choice(DEFAULTS["list"]) if kind & G.A_MULTI else rng.choice(DEFAULTS["str"] + DEFAULTS["int"] + DEFAULTS["float"])
            if FOREIGN_DEFAULTS and not kind & G.A_MULTI and rng.random() < 0.15:
                d = rng.choice(FOREIGN)
        if kind & G.A_MULTI:
            st["multi"] = True
        if not kind & G.A_REQ:
            st["optional"] = True
        used.add(name)
        out.append({"name": name, "flags": kind, "desc": rng.choice(EDESCS), "default": d})
    return out


def rand_cmd(rng, name, depth, used_o, used_a, st):
    used_o, used_a, st = set(used_o), set(used_a), dict(st)
    opts = [o for o in (rand_opt(rng, used_o) for _ in range(rng.randint(0, 3))) if o]
    args = rand_args(rng, st, used_a)
    r = rng.random()
    c = {"name": name, "aliases": rng.choice([[], [], [name[:2] + "x"], [name + "2", name[0] + "z"]]), "default": r < 0.3, "anonymous": r < 0.1,
         "enabled": rng.random() > 0.12, "hidden": rng.random() < 0.2, "desc": rng.choice(DESCS[1:]), "help": rng.choice(HELPS),
         "opts": opts, "args": args, "subs": []}
    if depth < 2:
        for n in rand_cmd_names(rng, rng.randint(0, 3)):
            c["subs"].append(rand_cmd(rng, n, depth + 1, used_o, used_a, st))
    return c


def rand_cmd_names(rng, n):
    names = rng.sample(CMD_NAMES, n)
    return [rng.choice(LONG_CMD_NAMES) if i == 0 and rng.random() < 0.2 else x for i, x in enumerate(names)]


def rand_app(rng):
    used = set()
    gopts = [o for o in (rand_opt(rng, used) for _ in range(rng.randint(0, 3))) if o]
    t = {"name": rng.choice(["app", "app", None, "my-tool", "my-rather-long-tool-name"]), "display": rng.choice(["App", None, "My Tool"]),
         "version": rng.choice(["1.0", None]), "gopts": gopts, "help": rng.choice(HELPS), "cmds": []}
    for n in rand_cmd_names(rng, rng.randint(1, 3)):
        t["cmds"].append(rand_cmd(rng, n, 1, used, set(), {"optional": False, "multi": False}))
    return t


def paths(t):
    out = []

    def go(c, p):
        if not c["enabled"]:
            return
        out.append(p)
        for i, s in enumerate(c["subs"]):
            go(s, p + [i])
    for i, c in enumerate(t["cmds"]):
        go(c, [i])
    return out


def named_paths(t):
    """(names, indices) of the enabled, named commands"""
    out = []

    def go(c, names, idx):
        if not c["enabled"] or c["anonymous"]:
            return
        out.append((names + [c["name"]], idx))
        for i, s in enumerate(c["subs"]):
            go(s, names + [c["name"]], idx + [i])
    for i, c in enumerate(t["cmds"]):
        if c["name"] != "help":
            go(c, [], [i])
    return out


def alias_names(t, idx):
    """the names of the path idx with every command that has an alias no sibling shares named by its first such alias; None
    when a command on the path is anonymous"""
    out, cur = [], {"subs": t["cmds"]}
    for i in idx:
        sibs = cur["subs"]
        cur = sibs[i]
        if cur["anonymous"]:
            return None
        taken = set()
        for j, x in enumerate(sibs):
            if j != i:
                taken.update([x["name"]] + x["aliases"])
        taken.update(["help"])
        free = [a for a in cur["aliases"] if a not in taken]
        out.append(free[0] if free else cur["name"])
    return out


WRAP_ALPHA = ["a", "bc", "word", "x", " ", "  ", "-", "--", "---", "a-b", "well-known", "e-mail-address", "\n", "1", "42", "3-4", "\"q\"", "'s", ".", ",", "!",
              "?", "&", "_", "(", ")", "[--opt]", "<b>", "</b>", "longwordlongwordlongword", "x-", "-y", "a--b", "ab--", "é", "\xa0", "[-v\xa0<...>]", ";", "%",
              "\\", "\\<u>", "{", "}"]
SWEEP = list(range(-2, 13))     # W = needed_width + d


def gen(rng, tier, info):
    n_apps = {"quick": 120, "thorough": 1200, "search": 40}[tier]
    n_wrap = {"quick": 6000, "thorough": 60000, "search": 1500}[tier]
    cases = []
    for _ in range(n_wrap):
        text = "".join(rng.choice(WRAP_ALPHA) for _ in range(rng.randint(0, 14)))
        cases.append({"k": 2, "text": text, "width": rng.choice([1, 2, 3, 4, 5, 7, 10, 15, 20, 40])})
    for d in DESCS[1:] + HELPS[1:]:
        for w in range(1, 41):
            cases.append({"k": 2, "text": d, "width": w})
    n_w = len(cases)
    n_sweep = 0
    for i in range(n_apps):
        t = rand_app(rng)
        widths = WIDTHS if tier != "thorough" else sorted(set(WIDTHS + [rng.randint(40, 200) for _ in range(4)]))
        for w in (widths if i % 4 == 0 else [rng.choice(widths), rng.choice(widths)]):
            for ansi in (0, 1):
                cases.append({"k": 1, "tree": t, "W": w, "ansi": ansi})
                for p in paths(t):
                    cases.append({"k": 0, "tree": t, "path": p, "W": w, "ansi": ansi})
        # the guard of the width claim: every page of the tree at needed_width + d (the width is fixed when the page is built:
        # needed_width is read from the layout elements), ANSI and plain
        # (the model's formatter is quadratic in the length of a message: a page at text width 1 costs it seconds, so the
        # decorated page at d = 0 is asked of every fourth of these trees only)
        if i % 12 == 1:
            for d in SWEEP:
                for ansi in ((0, 1) if d != 0 or i % 48 == 1 else (0,)):
                    cases.append({"k": 1, "tree": t, "d": d, "ansi": ansi})
                    for p in paths(t):
                        cases.append({"k": 0, "tree": t, "path": p, "d": d, "ansi": ansi})
                        n_sweep += 1
    # 'help <path>' prints the same page as '<path> --help' (and -h), on the default application configuration
    n_h = n_al = 0
    for i in range({"quick": 40, "thorough": 300, "search": 10}[tier]):
        t = rand_app(rng)
        for names, idx in named_paths(t):
            cases.append({"k": 3, "tree": t, "names": names, "path": idx, "cols": [80, 80, 60, 120][(i + n_h) % 4]})
            n_h += 1
            # the same command named through an alias (of any command on the path): 'help sx' against 'sx --help'
            al = alias_names(t, idx)
            if al is not None and al != names:
                cases.append({"k": 3, "tree": t, "names": al, "canon": names, "path": idx, "cols": [80, 60, 120, 80][(i + n_h) % 4]})
                n_h += 1
                n_al += 1
        # the empty path: 'help' against '--help' and '-h' - the application's own page
        cases.append({"k": 3, "tree": t, "names": [], "path": [], "cols": [80, 120, 60][i % 3]})
        n_h += 1
    # narrow terminals: far outside the guard
    t = rand_app(rng)
    for w in (5, 12, 20, 30):
        cases.append({"k": 1, "tree": t, "W": w, "ansi": 0, "narrow": True})
        for p in paths(t):
            cases.append({"k": 0, "tree": t, "path": p, "W": w, "ansi": 0, "narrow": True})
    info["exhaustive"] = False
    info["distribution"] = {"wrap_only": n_w, "applications": n_apps, "pages": len(cases) - n_w - n_h, "pages_at_needed_width_plus_d": n_sweep,
                            "help_command_runs": n_h, "help_runs_through_an_alias": n_al}
    return cases


def _sty(tag, fg=None, attrs=0):
    o = lambda v: [] if v is None else [S(v)]
    return [o(tag), o(fg), []] + [attrs >> i & 1 for i in range(7)]


# the default style set, as wired for the formatter model (bold = bit 0, underlined = bit 3)
STYLE_SET = [_sty("info", "green"), _sty("comment", "cyan"), _sty("question", "blue"), _sty("error", "red", 1), _sty("b", None, 1),
             _sty("u", None, 8), _sty("c1", "cyan"), _sty("c2", "yellow")]
STYLE_NAMES = ["info", "comment", "question", "error", "b", "u", "c1", "c2"]


def ref_format(help, **names):
    """the help text with its placeholders filled in - what str.format gives; a text that is no valid template (an unknown
    placeholder, a lone brace) as it is.  (The reference for what the page shows; str.format itself is not modelled.)"""
    if help is None:
        return None
    try:
        return help.format(**names)
    except (LookupError, ValueError, AttributeError, TypeError):
        return help


def w_opt(o):
    return [[S(o["long"]), [] if o["short"] is None else [S(o["short"])], o["flags"], enc_val(model_default(o["default"]))],
            [] if o["desc"] is None else [S(o["desc"])], S(o["vname"])]


def w_arg(a):
    return [[S(a["name"]), a["flags"], enc_val(model_default(a["default"]))], [] if a["desc"] is None else [S(a["desc"])]]


def o_(v):
    return [] if v is None else [S(v)]


def wire_page(c, W, gopts=None, app_name=None, with_texts=True):
    """the model's input for the page of c at width W; gopts / app_name / with_texts: the 'help <path>' runs are made on a
    DefaultApplicationConfig (its global options are read from the live configuration; no descriptions or help texts set)"""
    t = c["tree"]
    name = t["name"] if app_name is None else app_name
    go = [w_opt(o) for o in t["gopts"]] if gopts is None else gopts
    if c["k"] == 1:
        cmds = [[S(x["name"]), int(x["anonymous"]), int(x["enabled"]), int(x["hidden"]), S(x["desc"] or "")] for x in t["cmds"]]
        # ApplicationConfig.display_name falls back to a title-cased name (configuration, not help rendering)
        display = t["display"] if t["display"] is not None else (None if t["name"] is None else re.sub(r"[\s\-_]+", " ", t["name"]).title())
        return [1, W, c["ansi"], STYLE_SET, o_(name), o_(display), o_(t["version"]), go, cmds, o_(ref_format(t["help"], script_name=name or "console"))]
    chain = [[[], go, []]]
    cur = {"subs": t["cmds"]}
    for i in c["path"]:
        cur = cur["subs"][i]
        chain.append([[] if cur["anonymous"] else [S(cur["name"])], [w_opt(o) for o in cur["opts"]], [w_arg(a) for a in cur["args"]]])
    subs = [[S(s["name"]), int(s["default"] or s["anonymous"]), int(s["anonymous"]), int(s["enabled"]), int(s["hidden"]),
             o_(s["desc"] if with_texts else None), o_(s["help"] if with_texts else None),
             [w_opt(o) for o in s["opts"]], [w_arg(a) for a in s["args"]]] for s in cur["subs"]]
    help = ref_format(cur["help"], script_name=name or "console", command_name=cur["name"]) if with_texts else None
    return [0, W, c.get("ansi", 0), STYLE_SET, o_(name), chain, [S(a) for a in cur["aliases"]], o_(help), subs]


def wire_from(c, o):
    """the width of a page requested as needed_width + d is known once the layout elements exist; the global options of the
    default configuration are read from the live object"""
    if c["k"] == 2:
        return [2, S(c["text"]), c["width"]]
    if c["k"] == 3 and not c["path"]:
        # 'help' alone: the application page of the default configuration (its name, version, commands - the built-in help
        # command among them - are read from the live configuration)
        display, version, help, cmds = o[7]
        return [1, o[3], 0, STYLE_SET, o_(c["tree"]["name"] or "app"), display, version, o[4], cmds, help]
    if c["k"] == 3:
        return wire_page(dict(c, k=0, path=help_target_path(c["tree"], c["path"])), o[3], gopts=o[4], app_name=c["tree"]["name"] or "app",
                         with_texts=False)
    if o[0] == -1:
        return [9]
    return wire_page(c, o[2])


def help_target_path(t, idx):
    """the command whose page 'help <path>' shows: the resolver goes on from the named command to a default sub-command, as it
    does when the command is run - the first one the (rest of the) line can be parsed for, i.e. here, the line naming nothing
    else, the first without a required argument of its own or inherited; the first one if there is none
    (DefaultResolver.process_default_commands)"""
    idx = list(idx)
    while True:
        cur = {"subs": t["cmds"]}
        inherited = False
        for i in idx:
            cur = cur["subs"][i]
            inherited = inherited or any(a["flags"] & G.A_REQ for a in cur["args"])
        dflt = [i for i, s in enumerate(cur["subs"]) if s["enabled"] and (s["default"] or s["anonymous"])]
        if not dflt:
            return idx
        ok = [i for i in dflt if not inherited and not any(a["flags"] & G.A_REQ for a in cur["subs"][i]["args"])]
        idx.append((ok or dflt)[0])


def describe(c):
    if c["k"] == 3:
        return "DefaultApplicationConfig application %r at COLUMNS=%d: 'help %s' against '%s --help' and '-h'%s" % (
            c["tree"], c.get("cols", 80), " ".join(c["names"]), " ".join(c["names"]),
            " (the command %r named through aliases)" % " ".join(c["canon"]) if c.get("canon") else "")
    if c["k"] == 2:
        return "textwrap.wrap(%r, %d)" % (c["text"], c["width"])
    return "%s at width %s, %s, application %r" % ("application help" if c["k"] == 1 else "help of command path %r" % c["path"],
                                                  c["W"] if "W" in c else "needed_width%+d" % c["d"], "ANSI" if c["ansi"] else "plain", c["tree"])


_APPS = {}


def build(t):
    import json
    key = json.dumps(t, sort_keys=True)
    if key in _APPS:
        return _APPS[key]
    from clikit.api.config.application_config import ApplicationConfig
    from clikit.resolver.default_resolver import DefaultResolver
    from clikit import ConsoleApplication
    config = ApplicationConfig(t["name"], t["version"])
    config.set_command_resolver(DefaultResolver())
    if t["display"] is not None:
        config.set_display_name(t["display"])
    if t["help"] is not None:
        config.set_help(t["help"])

    def add_opts(cfg, opts):
        for o in opts:
            d = o["default"]
            cfg.add_option(o["long"], o["short"], o["flags"], o["desc"], real_default(d), o["vname"])

    def fill(cc, c):
        for a in c["aliases"]:
            cc.add_alias(a)
        if c["anonymous"]:
            cc.anonymous()
        elif c["default"]:
            cc.default()
        if not c["enabled"]:
            cc.disable()
        if c["hidden"]:
            cc.hide()
        if c["desc"] is not None:
            cc.set_description(c["desc"])
        if c["help"] is not None:
            cc.set_help(c["help"])
        add_opts(cc, c["opts"])
        for a in c["args"]:
            d = a["default"]
            cc.add_argument(a["name"], a["flags"], a["desc"], real_default(d))
        for s in c["subs"]:
            fill(cc.create_sub_command(s["name"]), s)
    add_opts(config, t["gopts"])
    for c in t["cmds"]:
        fill(config.create_command(c["name"]), c)
    app = ConsoleApplication(config)
    if len(_APPS) > 50:
        _APPS.clear()
    _APPS[key] = app
    return app


def default_app(t):
    from clikit.config import DefaultApplicationConfig
    from clikit import ConsoleApplication
    config = DefaultApplicationConfig(t["name"] or "app", t["version"])
    config.set_terminate_after_run(False)
    config.set_catch_exceptions(False)

    def fill(cc, c):
        for a in c["aliases"]:
            cc.add_alias(a)
        if c["default"]:
            cc.default()
        if not c["enabled"]:
            cc.disable()
        if c["hidden"]:
            cc.hide()
        if c["anonymous"]:
            cc.anonymous()
        for o in c["opts"]:
            d = o["default"]
            cc.add_option(o["long"], o["short"], o["flags"], o["desc"], real_default(d), o["vname"])
        for a in c["args"]:
            d = a["default"]
            cc.add_argument(a["name"], a["flags"], a["desc"], real_default(d))
        for s in c["subs"]:
            fill(cc.create_sub_command(s["name"]), s)
    for c in t["cmds"]:
        if c["name"] != "help":
            fill(config.create_command(c["name"]), c)
    return ConsoleApplication(config)


def run_default(t, line):
    from clikit.args import StringArgs
    from clikit.io.output_stream import BufferedOutputStream
    app = default_app(t)
    out, errs = BufferedOutputStream(), BufferedOutputStream()
    try:
        status = app.run(StringArgs(line), None, out, errs)
    except Exception as e:  # noqa
        return ["exc", type(e).__name__]
    return [status, out.fetch(), errs.fetch()]


def live_global_options(t):
    """the global options of the default configuration, in the model's wire form"""
    out = []
    for o in default_app(t).config.options.values():
        d = o.default
        out.append([[S(o.long_name), [] if o.short_name is None else [S(o.short_name)], o.flags, enc_val(d)],
                    [] if o.description is None else [S(o.description)], S(o.value_name)])
    return out


def layout_elems(layout):
    from clikit.ui.components import Paragraph, LabeledParagraph, EmptyLine, NameVersion
    elems = []
    for ind, e in zip(layout._indentations, layout._elements):
        if isinstance(e, LabeledParagraph):
            elems.append([ind, 1, S(e.label), S(e.text), e.padding, int(e.is_aligned())])
        elif isinstance(e, Paragraph):
            elems.append([ind, 0, S(e._text)])
        elif isinstance(e, EmptyLine):
            elems.append([ind, 2])
        elif isinstance(e, NameVersion):
            cfg = e._config
            if cfg.display_name and cfg.version:
                text = "{} version <c1>{}</c1>".format(cfg.display_name, cfg.version)
            elif cfg.display_name:
                text = "{}".format(cfg.display_name)
            else:
                text = "Console Tool"
            elems.append([ind, 0, S(text)])
        else:
            elems.append([ind, 9, S(type(e).__name__)])
    return elems


def live_application(t):
    """display name, version, help text and the commands of the default configuration, in the model's wire form"""
    cfg = default_app(t).config
    cmds = [[S(cc.name), int(bool(cc.is_anonymous())), int(bool(cc.is_enabled())), int(bool(cc.is_hidden())), S(cc.description or "")] for cc in cfg.command_configs]
    return [o_(cfg.display_name), o_(cfg.version), o_(ref_format(cfg.help, script_name=cfg.name or "console")), cmds]


def target_elems(t, idx):
    """the layout elements of the page of the help target (to know how wide a terminal that page needs)"""
    from clikit.io import BufferedIO
    from clikit.formatter import PlainFormatter
    from clikit.ui.help import CommandHelp, ApplicationHelp
    from clikit.ui.layout import BlockLayout
    app = default_app(t)
    if not idx:
        helper = ApplicationHelp(app)
        helper._formatter = BufferedIO(formatter=PlainFormatter())
        layout = BlockLayout()
        helper._render_help(layout)
        return layout_elems(layout)
    cur = t["cmds"][idx[0]]
    cmd = app.get_command(cur["name"])
    for i in idx[1:]:
        cur = cur["subs"][i]
        cmd = cmd.get_sub_command(cur["name"])
    helper = CommandHelp(cmd)
    helper._formatter = BufferedIO(formatter=PlainFormatter())
    layout = BlockLayout()
    helper._render_help(layout)
    return layout_elems(layout)


def run_impl(c):
    if c["k"] == 3:
        path = " ".join(c["names"])
        old = os.environ.get("COLUMNS")
        os.environ["COLUMNS"] = str(c.get("cols", 80))
        try:
            a, b, d = run_default(c["tree"], ("help " + path).strip()), run_default(c["tree"], (path + " --help").strip()), \
                run_default(c["tree"], (path + " -h").strip())
            gopts = live_global_options(c["tree"])
            appinfo = live_application(c["tree"]) if not c["path"] else []
        finally:
            if old is None:
                del os.environ["COLUMNS"]
            else:
                os.environ["COLUMNS"] = old
        if a[0] == "exc":
            page = [-1, 1 if a[1] == "ValueError" else 109]
        else:
            page = [0, S(a[1])] if a[0] == 0 else [-1, 109]
        try:
            elems = target_elems(c["tree"], help_target_path(c["tree"], c["path"]))
        except Exception:  # noqa
            elems = []
        return [int(a == b == d), 1 if a[0] == 0 else 0, [S(repr(x)[:3000]) for x in (a, b, d)], c.get("cols", 80), gopts, page, elems, appinfo]
    if c["k"] == 2:
        try:
            return [0, [S(l) for l in textwrap.wrap(c["text"], c["width"])]]
        except Exception as e:  # noqa
            return err(e)
    from clikit.io import BufferedIO
    from clikit.formatter import AnsiFormatter, PlainFormatter
    from clikit.ui.rectangle import Rectangle
    from clikit.ui.help import ApplicationHelp, CommandHelp
    from clikit.ui.layout import BlockLayout
    try:
        app = build(c["tree"])
    except Exception as e:  # noqa
        return err(e)
    if c["k"] == 1:
        helper = ApplicationHelp(app)
    else:
        t = c["tree"]
        cur = t["cmds"][c["path"][0]]
        cmd = app.get_command(cur["name"])
        for i in c["path"][1:]:
            cur = cur["subs"][i]
            cmd = cmd.get_sub_command(cur["name"])
        helper = CommandHelp(cmd)
    io = BufferedIO(formatter=AnsiFormatter(forced=True) if c["ansi"] else PlainFormatter())
    io.set_terminal_dimensions(Rectangle(c.get("W", 200), 50))
    layout = BlockLayout()
    helper._formatter = io       # what render() hands to _render_help (fix for tag-like names)
    msg = ""
    try:
        helper._render_help(layout)
    except Exception as e:  # noqa
        return [[], err(e), c.get("W", 0), S("%s: %s" % (type(e).__name__, e))[:200]]
    elems = layout_elems(layout)
    W = c["W"] if "W" in c else max(1, needed_width(elems) + c["d"])
    io.set_terminal_dimensions(Rectangle(W, 50))
    try:
        helper.render(io)
        page = [0, S(io.fetch_output())]
    except Exception as e:  # noqa
        page = err(e)
        msg = "%s: %s" % (type(e).__name__, e)
    return [elems, page, W, S(msg[:200])]


# ---- oracle ----
def visible_lines(page):
    return SGR.sub("", page).split("\n")


_VIS = re.compile(r"(?i)</?(?:%s)>|</>" % "|".join(STYLE_NAMES))


def vis_label(s):
    """the visible text of a label the help pages build (tags of the default style set around names)"""
    return SGR.sub("", _VIS.sub("", s))


def text_columns(elems):
    """per element (indentation, text, wrap width offset): the text is wrapped at  W - 1 - offset"""
    off = 0
    for e in elems:
        if e[1] == 1 and e[5]:
            off = max(off, e[0] + len(vis_label(unS(e[2]))) + e[4])
    out = []
    for e in elems:
        if e[1] == 1:
            lab = len(vis_label(unS(e[2]))) + e[4]
            out.append((unS(e[3]), max(off, e[0] + lab) if e[5] else e[0] + lab))
        elif e[1] == 0:
            out.append((unS(e[2]), e[0]))
    return out


def needed_width(elems):
    """the margin of the width claim: the widest (indentation + visible label + padding) + 2 - one character of text"""
    return max([2] + [o + 2 for _, o in text_columns(elems)])


_SPLIT = textwrap.TextWrapper()


def words_fit(text, width):
    munged = _SPLIT._munge_whitespace(text)
    return all(len(ch) <= width for ch in _SPLIT._split(munged))


def words_fit_page(elems, W):
    """Proofs/HelpRenderLemmas.v page_words_fitb (and room for the labels): every text that holds a '<' has only words that fit
    its wrap width - there textwrap breaks no word, so no markup is cut.  Compared with the model's answer on every page."""
    cols = text_columns(elems)
    return int(W >= max([2] + [o + 2 for _, o in cols]) and all("<" not in t or words_fit(t, W - 1 - o) for t, o in cols))


TAG = re.compile(r"(?is)(\\?)<(?:[a-z][a-z0-9,_=;-]*|/(?:[a-z][a-z0-9,_=;-]*)?)>")     # pastel's FULL_TAG_REGEX, with the escaping backslash


def markup_tokens(s):
    """what the formatter would act on: the tags (escaped or not) and the escaped '<' in s"""
    toks = [(m.group(1), m.group(0).lstrip("\\").lower()) for m in TAG.finditer(s)]
    return toks, len(re.findall(r"\\<", s))


def cut_in_markup(elems, W):
    """some text of the page, wrapped by textwrap.wrap at its wrap width, comes back with other markup than it had: a tag or
    an escaped '<' was cut by a line break (a word was broken inside it)"""
    for t, o in text_columns(elems):
        if "<" not in t or W - 1 - o < 1:
            continue
        lines = textwrap.wrap(t, W - 1 - o)
        if markup_tokens(" ".join(_SPLIT._munge_whitespace(t).split())) != markup_tokens(" ".join(" ".join(lines).split())):
            return True
    return False


KNOWN = "help-text-cut-in-markup:"


def canon_impl(c, o):
    if c["k"] == 3:
        return o[5] if o[0] == 1 else [-2, o[0], o[1]]     # the page of the three runs (or the kind of their failure)
    if c["k"] == 2 or o[0] == -1:
        return o
    return [o[0], o[1], words_fit_page(o[0], o[2]) if o[0] else 0]


def canon_model(c, m):
    if c["k"] == 2 or not (isinstance(m, list) and len(m) == 4):
        return m
    if c["k"] == 3:
        return m[1]                    # the page; the elements are not seen in a run
    # m[3]: the page is in the region where Props/C13.v proves that it renders and fits (layout_okb; needs more than the
    # harness computes: neutral markup) - it implies m[2], which the harness computes too
    return m[:3] if m[2] or not m[3] else m


def oracle(c, o):
    if c["k"] == 3:
        if o[0] != 1:
            return "help-command-and-help-option-print-different-pages"
        if o[1] != 1:
            # on a terminal narrower than the labels of the page need, a failing run is outside the property's guard
            return None if o[6] and c.get("cols", 80) < needed_width(o[6]) else "help-run-failed"
        # which page: the USAGE block starts with the synopsis of the named command ('app server add ...'; a page of another
        # command starts with other names, a command's own name is in brackets only on the page of its parent)
        lines = visible_lines(unS(o[5][1]))
        if not c["path"]:
            # 'help' alone: the application's page (it does not start with a USAGE block; its synopsis names no command)
            # (the global options stand between the name and the arguments)
            k0 = lines.index("USAGE") if "USAGE" in lines else -1
            first = lines[k0 + 1].strip() if 0 < k0 < len(lines) - 1 else ""
            k1 = lines.index("", k0 + 1) if k0 >= 0 and "" in lines[k0 + 1:] else len(lines)
            # (a page without that heading: not decided here - the three requests agree, the bytes are compared with the model)
            if k0 >= 0 and (not first.startswith((c["tree"]["name"] or "app") + " ") or "<command>" not in "".join(lines[k0 + 1:k1])):
                return "help-shows-the-page-of-another-command"
            return None
        want = " ".join([c["tree"]["name"] or "app"] + c.get("canon", c["names"]))
        if len(lines) > 1 and lines[0] == "USAGE":
            cand = [lines[1].strip()]
        else:
            cand = [l.strip() for l in lines]          # (a page that does not begin with that heading: any line may be the synopsis)
        cand = [x[4:] if x.startswith("or: ") else x for x in cand]
        if not any(x == want or x.startswith(want + " ") for x in cand):
            return "help-shows-the-page-of-another-command"
        return None
    if c["k"] == 2:
        if o[0] != 0:
            return "wrap-raised" if c["width"] >= 1 else None
        lines = [unS(l) for l in o[1]]
        if any(len(l) > c["width"] for l in lines):
            return "wrapped-line-too-long"
        return None
    if o[0] == -1:
        return "application-construction-failed"
    r = oracle0(c, o)
    if r is None:
        return None
    # The recorded finding: a help text is wrapped by textwrap, which knows nothing of markup.  Only on a page on which a line
    # break of this very rendering falls inside a tag or behind an escaping backslash (decided here with CPython's textwrap),
    # and only for the clause that failed (the entry in known_findings.json lists the clauses that are that defect).
    elems, W = o[0], o[2]
    if elems and cut_in_markup(elems, W):
        return "harness-inconsistent:words-fit-but-markup-cut" if words_fit_page(elems, W) else KNOWN + r
    return r


def block_of(lines, heading):
    """the lines of the block under a heading of the page (up to the next line that starts in column 0); all lines when the page
    has no such heading line (none to show, or a page so narrow that the heading itself is wrapped)"""
    if heading not in lines:
        return lines
    k = lines.index(heading)
    end = min([i for i in range(k + 1, len(lines)) if lines[i] and not lines[i].startswith(" ")] or [len(lines)])
    return lines[k + 1:end]


def entries_of(lines, heading, fallback):
    """the names a listing block shows: the first word of its least indented lines (whatever that indentation is); without
    such a heading on the page (renamed, or cut on a very narrow page) the lines that match the fallback pattern"""
    if heading not in lines:
        return None
    blk = [l for l in block_of(lines, heading) if l.strip()]
    if not blk:
        return []
    ind = min(len(l) - len(l.lstrip(" ")) for l in blk)
    return [l.strip(" ").split(" ")[0] for l in blk if len(l) - len(l.lstrip(" ")) == ind]


def oracle0(c, o):
    elems, page, W = o[0], o[1], o[2]
    t = c["tree"]
    if not elems and page[0] != 0:
        return "help-page-raised"              # building the layout failed (before any width matters)
    narrow = W < needed_width(elems)
    if page[0] != 0:
        if narrow:
            return None
        return "help-page-raised" + ("-nested-style-tag" if unS(o[3]).startswith("ValueError: Incorrectly nested style tag found") else "")
    text = unS(page[1])
    lines = visible_lines(text)
    if not narrow and any(len(l) > W for l in lines):
        return "line-wider-than-terminal"
    if not c["ansi"] and "\x1b" in text:
        return "plain-page-emits-escape"
    # the USAGE block with the line breaks of the wrapping taken out; the rest of the page
    # (on a very narrow page the heading itself is wrapped, and cut in its markup: 'USAGE</b' / '>')
    k0 = min([i for i, l in enumerate(lines) if l.startswith("USAGE")] or [-1])
    k1 = lines.index("", k0 + 1) if k0 >= 0 and "" in lines[k0 + 1:] else len(lines)
    usage = "".join(l.strip(" ") for l in lines[k0 + 1:k1]) if k0 >= 0 else ""
    rest = lines[:k0] + lines[k1:] if k0 >= 0 else lines
    short_re = lambda s: r"(^|[ (\[])-%s($|[ )\]\xa0])" % re.escape(s)

    def value_names_shown(opts):
        # an option the synopsis names shows the placeholder of its value behind the name
        allowed = {}
        for o_ in opts:
            if not o_["flags"] & G.NO_VALUE:
                for nm in ["--" + o_["long"]] + (["-" + o_["short"]] if o_["short"] else []):
                    allowed.setdefault(nm, set()).add(o_["vname"])
        for nm, vns in allowed.items():
            for m in re.finditer(r"\[%s\xa0" % re.escape(nm), usage):
                tail = usage[m.end():]
                if not any(tail.startswith("<%s>" % v) or tail.startswith("[<%s>]" % v) for v in vns):
                    return False
        return True
    def listed_under_own_names(o_):
        # 'under its preferred and alternative name': some entry of an option list starts with this option's preferred name and,
        # where it has a short name, names the alternative on the same line (labels are never wrapped) - in parentheses, behind
        # a comma, ...: how the two are set apart is not the property's business
        if o_["short"]:
            # (an option with a short name prefers it unless PREFER_LONG_NAME is given: AbstractOption's default flags)
            a, b = ("--" + o_["long"], "-" + o_["short"]) if o_["flags"] & P_LONG else ("-" + o_["short"], "--" + o_["long"])
        else:
            a, b = "--" + o_["long"], None
        for l in rest:
            x = l.strip(" ")
            if x.startswith(a) and (len(x) == len(a) or x[len(a)] in " ,(|/=["):
                if b is None or re.search(r"(^|[ (\[,|/])%s($|[ )\],|/=\xa0])" % re.escape(b), x[len(a):]):
                    return True
        return False
    if c["k"] == 1:
        names = entries_of(lines, "AVAILABLE COMMANDS", None)
        for x in t["cmds"]:
            shown = (x["name"] in names) if names is not None else any(re.match(r"^  %s( |$)" % re.escape(x["name"]), l) for l in lines)
            want = x["enabled"] and not x["hidden"] and not x["anonymous"]
            if shown != want:
                return "command-listing-wrong:%s" % ("missing" if want else "hidden-or-disabled-shown")
        for o_ in t["gopts"]:
            if not any(("--" + o_["long"]) in l for l in rest):
                return "global-option-missing"
            if o_["short"] and not any(re.search(short_re(o_["short"]), l) for l in rest):
                return "option-short-name-missing"
            if not narrow and not listed_under_own_names(o_):
                return "option-not-listed-under-its-own-names"
        if not narrow:
            # (which arguments the synopsis line spells out is not asked: the page LISTS them under ARGUMENTS; an option the
            # synopsis names with a value must show that value's placeholder)
            if not value_names_shown(t["gopts"]):
                return "value-name-missing-in-synopsis"
        return None
    cur = {"subs": t["cmds"], "opts": t["gopts"], "args": []}
    chain = [cur]
    for i in c["path"]:
        cur = cur["subs"][i]
        chain.append(cur)
    for lvl in chain:
        for o_ in lvl["opts"]:
            if not any(("--" + o_["long"]) in l for l in rest):
                return "option-missing"
            if o_["short"] and not any(re.search(short_re(o_["short"]), l) for l in rest):
                return "option-short-name-missing"
            if not narrow and not listed_under_own_names(o_):
                return "option-not-listed-under-its-own-names"
        for a in lvl["args"]:
            if not any(re.match(r"^ +<?%s>?( |$)" % re.escape(a["name"]), l) for l in lines):
                return "argument-missing"
    if not narrow and not value_names_shown([o_ for lvl in chain + [s for s in cur["subs"] if s["enabled"]] for o_ in lvl["opts"]]):
        return "value-name-missing-in-synopsis"
    if not narrow:
        # 'never a hidden or disabled command': not in the USAGE block either.  (A hidden DEFAULT sub-command has its synopsis
        # there - it is how the command itself is used; recorded reading, Props/C13.v usage_entries_origin.)  An entry of the
        # block starts at a line whose text - behind the 'or: ' of all entries but the first - begins with the names
        base = " ".join([t["name"] or "console"] + [x["name"] for x in chain[1:] if not x["anonymous"]])
        entries = [l.strip(" ") for l in (lines[k0 + 1:k1] if k0 >= 0 else lines)]      # (no USAGE heading: every line of the page)
        entries = [e[4:] if e.startswith("or: ") else e for e in entries]
        for s in cur["subs"]:
            if (not s["enabled"]) or (s["hidden"] and not (s["default"] or s["anonymous"])):
                w_ = base + " " + s["name"]
                if any(e == w_ or e.startswith(w_ + " ") for e in entries):
                    return "hidden-or-disabled-command-in-usage"
    # (inside the COMMANDS block: a wrapped line of the DESCRIPTION may consist of a command's name)
    names = entries_of(lines, "COMMANDS", None)
    for s in cur["subs"]:
        shown = (s["name"] in names) if names is not None else any(re.match(r"^  %s$" % re.escape(s["name"]), l) for l in lines)
        want = s["enabled"] and not s["hidden"] and not s["anonymous"]
        if shown != want:
            return "sub-command-listing-wrong:%s" % ("missing" if want else "hidden-or-disabled-shown")
        if want:
            for a in s["args"]:
                if not any(re.match(r"^ +<?%s>?( |$)" % re.escape(a["name"]), l) for l in lines):
                    return "sub-command-argument-missing"
            for o_ in s["opts"]:
                if not any(("--" + o_["long"]) in l for l in rest):
                    return "sub-command-option-missing"
                if not narrow and not listed_under_own_names(o_):
                    return "sub-command-option-not-listed-under-its-own-names"
    return None


def nontrivial_key(c, o):
    import json
    if c["k"] == 3:
        return ("h", json.dumps(c["tree"], sort_keys=True), tuple(c["names"]), c.get("cols", 80)) if c["names"] else None
    if c["k"] == 2:
        return ("w", c["text"], c["width"]) if o[0] == 0 and len(o[1]) > 1 else None
    if o[0] == -1:
        return None
    has = any(e[1] == 1 for e in o[0])
    return ("p", json.dumps(c["tree"], sort_keys=True), repr(c.get("path")), o[2], c["ansi"]) if has else None
