"""C14 - tables render as a rectangle within the terminal and keep every cell's text."""
import re, itertools, copy
from hutil import S, unS, err

MODEL = "C14"
PROP_FILES = ["Props/C14.v"]
RULE = ("(a) CellWrapper.fit alone, bounded-exhaustive: 1-3 columns x one row of cells with lengths from {0,1,2,5,9,14,40} x every "
        "maximum width from the number of columns to 29 (quick) / 45 (thorough), plus random cell lists whose count is not a multiple "
        "of the column count; (b) whole tables: 1-6 columns x 1-6 rows, cells = word sequences of total length 0..1500 (over-long "
        "words, hyphenated words, punctuation, runs of blanks, empty cells), header or not, ascii / solid / borderless / compact, "
        "per-column alignments, terminal widths 20..200, indentation 0..8, ANSI and plain output, compared with the model byte "
        "for byte (text, column widths, wrapped rows, flags); (c) the same tables with style-tagged cells (registered tags, nested "
        "tags, inline styles, a tag over several words, escaped tags, a lone '<'), on a plain formatter, a forced ANSI formatter "
        "and an ANSI formatter that is not forced on a stream without ANSI support: compared with the model in the same way "
        "(when a cell holding '<' has to be wrapped, with the model's raw-wrap layer render_table_r); (d) tables "
        "with unbalanced or invalid markup (a tag left open, closed in another cell, an unknown colour): model comparison only; "
        "non-trivial = a table in which at least one cell was wrapped; distinct by (cells, style, width, indentation)")
TRUSTED = ["the share int(round(length / actual * available)) is computed in floating point by the code; the model takes the rounding "
           "function as a parameter (theorems hold for every function) and ocaml/driver.ml instantiates it with the same IEEE-double "
           "division, multiplication and round-half-even",
           "textwrap.wrap is modelled by Model/Wrap.v (compared with CPython's on every run by C13 and here through every wrapped cell)",
           "wrapped rows / column lengths are read from Table._get_cell_wrapper (private, no source change)"]
ASSUMPTIONS = ["model comparison: cells contain no tab, no line break and no non-ASCII word character other than letters; a table in "
               "which a cell holding '<' has to be wrapped is compared with the model's raw-wrap layer (render_table_r: textwrap on "
               "the raw cell, as the code does) byte for byte, and its oracle failures carry the class prefix of the known finding",
               "the Style objects of the table style (border style, cell style, header cell style) are None, as in every predefined "
               "TableStyle (asserted on every case)",
               "every row has the table's number of columns (Table.add_row enforces it)"]

SGR = re.compile("\x1b\\[[0-9;]*m")
WORDS = ["a", "bb", "ccc", "word", "longer", "supercalifragilistic", "x" * 40, "hy-phen", "1,5", "well-known-fact", "é", "end.", "(par)",
         "y" * 23, "don't", "a--b", "42", "Q?"]
TAGGED = ["<b>bold</b>", "<info>tag</info>", "<c1>x</c1>", "<error>problem</error>",
          "<b>bold <info>in</info> out</b>", "<u><c2>deep</c2></u>",                        # nested
          "<fg=red>x</>", "<fg=green;options=bold>ok</>", "<bg=blue;fg=white>inv</>",       # inline styles
          "<b>two words</b>", "<comment>a tag over four words</comment>",                   # one tag, several words
          "\\<b>x", "\\\\<b>x", "a \\< b", "\\<info>lit\\</info>",                              # escaped: shown as text
          "1<2", "<nosuchtag>", "a <- b"]                                                   # '<' that is not markup
# markup that leaves the style stack changed, closes what another cell opened, or makes the formatter raise
UNBALANCED = ["<b>open", "</b>", "shut</info>", "<info>left", "<b>x</u>", "<fg=nope>y</>", "<b><u>two", "</>", "x</>"]
STYLES = ["ascii", "solid", "borderless", "compact"]


def rand_cell(rng, tagged=False):
    r = rng.random()
    if r < 0.1:
        return ""
    n = rng.choice([1, 1, 2, 3, 5, 10, 40, 150])
    if tagged and rng.random() < 0.8:
        n = rng.choice([1, 1, 2, 3])
    words = WORDS + (TAGGED * 2 if tagged else []) + (UNBALANCED if tagged == "unbalanced" else [])
    seps = [" ", " ", " ", "  "]
    out = rng.choice(words)
    for _ in range(n - 1):
        nxt = rng.choice(seps) + rng.choice(words)
        if tagged and len(out) + len(nxt) > 1500:
            break                                  # a tagged cell is not cut in the middle of a tag
        out += nxt
    if rng.random() < 0.1:
        out += "  "
    if rng.random() < 0.05:
        out = " " + out
    return out[:1500]


def rand_table(rng, tagged=False):
    ncol, nrow = rng.randint(1, 6), rng.randint(1, 6)
    rows = [[rand_cell(rng, tagged) for _ in range(ncol)] for _ in range(nrow)]
    header = [rng.choice(WORDS + ["", "Two words", "A header that is long"]) for _ in range(ncol)] if rng.random() < 0.5 else None
    aligns = []
    if rng.random() < 0.6:
        for _ in range(rng.randint(1, ncol)):
            aligns.append(rng.choice([0, 1, 2]))
    if tagged and header is not None and rng.random() < 0.3:
        header[rng.randrange(ncol)] = rng.choice(TAGGED)
    return {"k": (3 if tagged == "unbalanced" else 2) if tagged else 0, "n": ncol, "rows": rows, "header": header, "style": rng.choice(STYLES),
            "aligns": aligns, "default": rng.choice([0, 0, 0, 1, 2]), "W": rng.randint(20, 200), "ind": rng.randint(0, 8),
            "ansi": rng.randint(0, 2) if tagged else rng.randint(0, 1)}     # 0 plain, 1 ANSI forced, 2 ANSI not forced (stream without ANSI)


def mixed_table(rng):
    """short tagged cells in some columns, long tag-free text in the others: the tag-free columns are wrapped, the tagged ones are not"""
    t = rand_table(rng, tagged=True)
    ncol = t["n"]
    tagged_cols = [j for j in range(ncol) if rng.random() < 0.5] or [0]
    for r in t["rows"]:
        for j in range(ncol):
            if j in tagged_cols:
                r[j] = " ".join(rng.choice(TAGGED) for _ in range(rng.choice([1, 1, 2])))
            else:
                r[j] = rand_cell(rng) if rng.random() < 0.7 else " ".join(rng.choice(WORDS) for _ in range(rng.choice([10, 25, 60])))
    t["W"] = rng.randint(40, 160)
    return t


def fixed_tagged_tables():
    """every tagged / escaped cell kind once in a small table that fits, per style and formatter"""
    out = []
    for i, cell in enumerate(TAGGED):
        for ansi in (0, 1, 2):
            out.append({"k": 2, "n": 2, "rows": [[cell, "plain"], ["abcdef", TAGGED[(i + 1) % len(TAGGED)]]], "header": ["H", "<b>Head</b>"] if i % 2 else None,
                        "style": STYLES[i % 4], "aligns": [i % 3], "default": 0, "W": 80, "ind": i % 3, "ansi": ansi})
    return out


def text_of_len(n):
    # words of 1-4 characters: "ab cde f ghij ..."
    out, i = "", 0
    pat = [2, 3, 1, 4]
    while len(out) < n:
        w = "abcdefghij"[:pat[i % 4]]
        out += (" " if out else "") + w
        i += 1
    return out[:n].rstrip() if n else ""


def gen(rng, tier, info):
    cases = []
    top = {"quick": 30, "thorough": 46, "search": 16}[tier]
    lens = [0, 1, 2, 5, 9, 14, 40]
    for n in (1, 2, 3):
        for combo in itertools.product(lens, repeat=n):
            for mt in range(n, top):
                cases.append({"k": 1, "n": n, "max": mt, "cells": [text_of_len(x) for x in combo]})
    n_ex = len(cases)
    for _ in range({"quick": 1500, "thorough": 15000, "search": 300}[tier]):
        n = rng.randint(1, 5)
        cells = [rand_cell(rng) for _ in range(rng.randint(0, 9))]
        cases.append({"k": 1, "n": n, "max": rng.randint(-2, 120), "cells": cells})
    n_fit = len(cases)
    for _ in range({"quick": 2500, "thorough": 30000, "search": 600}[tier]):
        cases.append(rand_table(rng))
    # narrow terminals around the guard (at least one character per column)
    for _ in range({"quick": 400, "thorough": 4000, "search": 100}[tier]):
        t = rand_table(rng)
        t["W"] = rng.randint(4, 40)
        cases.append(t)
    # histories on one Table object: rendered before at another indentation / on another width, then judged as any other table
    n_pre = 0
    for _ in range({"quick": 600, "thorough": 6000, "search": 150}[tier]):
        t = rand_table(rng)
        if rng.random() < 0.5:
            t["W"] = rng.randint(12, 60)
        how = rng.randint(0, 2)
        t["pre"] = [t["W"] if how != 1 else rng.randint(10, 200), rng.randint(0, 12) if how != 2 else t["ind"]]
        if t["pre"] == [t["W"], t["ind"]]:
            t["pre"][1] = t["ind"] + 5
        cases.append(t)
        n_pre += 1
    n_tab = len(cases)
    cases.extend(fixed_tagged_tables())
    for i in range({"quick": 1500, "thorough": 15000, "search": 300}[tier]):
        t = rand_table(rng, tagged=True)
        if i % 3 == 0:
            t["W"] = rng.randint(120, 400)          # wide terminals: most of these fit without wrapping
        if i % 3 == 1:
            t = mixed_table(rng)
        cases.append(t)
    n_tag = len(cases)
    for _ in range({"quick": 400, "thorough": 4000, "search": 100}[tier]):
        t = rand_table(rng, tagged="unbalanced")
        t["W"] = rng.randint(60, 400)
        cases.append(t)
    info["exhaustive"] = True
    info["distribution"] = {"fit_exhaustive": n_ex, "fit_random": n_fit - n_ex, "tables_tag_free": n_tab - n_fit, "of_them_rendered_before_with_other_geometry": n_pre, "tables_tagged": n_tag - n_tab,
                            "tables_unbalanced_markup_model_only": len(cases) - n_tag}
    return cases


def _src():
    import sys, os
    sys.dont_write_bytecode = True
    p = os.environ.get("CLIKIT_SRC", "/repo/src")
    if sys.path[0] != p:
        sys.path.insert(0, p)


def style_obj(c):
    _src()
    from clikit.ui.style import TableStyle
    st = getattr(TableStyle, c["style"])()
    st.default_column_alignment = c["default"]
    for i, a in enumerate(c["aligns"]):
        st.set_column_alignment(i, a)
    return st


def split_fmt(f):
    i = f.index("{}")
    assert f.count("{") == 1 and f.count("}") == 1
    return f[:i], f[i + 2:]


def wire_style(c):
    """the style as read from the real TableStyle / BorderStyle objects (so the presets are tied to the code)"""
    st = style_obj(c)
    b = st.border_style
    assert b.style is None and st.cell_style is None and st.header_cell_style is None
    hp, hs = split_fmt(st.header_cell_format)
    cp, cs = split_fmt(st.cell_format)
    bs = [b.line_ht_char, b.line_hc_char, b.line_hb_char, b.line_vl_char, b.line_vc_char, b.line_vr_char, b.corner_tl_char, b.corner_tr_char,
          b.corner_bl_char, b.corner_br_char, b.crossing_c_char, b.crossing_l_char, b.crossing_t_char, b.crossing_r_char, b.crossing_b_char]
    return [[S(x) for x in bs], S(hp), S(hs), S(cp), S(cs), S(st.padding_char), list(st.column_alignments), st.default_column_alignment]


_SET = []


def style_set():
    """the default style set as read from the live DefaultStyleSet"""
    if not _SET:
        _src()
        from clikit.formatter.default_style_set import DefaultStyleSet
        o = lambda v: [] if v is None else [S(v)]
        for tag, st in DefaultStyleSet().styles.items():
            _SET.append([o(st.tag), o(st.foreground_color), o(st.background_color), int(st.is_bold()), int(st.is_italic()), int(st.is_dark()),
                         int(st.is_underlined()), int(st.is_blinking()), int(st.is_inverse()), int(st.is_hidden())])
    return _SET


FKIND = {0: 2, 1: 1, 2: 0}     # case "ansi" -> Model/OutputM.dec_fkind: 2 plain, 1 ANSI forced, 0 ANSI


def wire(c):
    # the formatter: kind, stream supports ANSI (a BufferedIO does not), style set
    if c["k"] == 1:
        return [1, c["max"], c["n"], [S(x) for x in c["cells"]], 2, 0, style_set()]
    return [0, c["W"], c["ind"], c["n"], wire_style(c), [S(x) for x in (c["header"] or [])], [[S(x) for x in r] for r in c["rows"]],
            FKIND[c["ansi"]], 0, style_set()]


def describe(c):
    if c["k"] == 1:
        return "CellWrapper().add_cells(%r).fit(%d, %d, PlainFormatter())" % (c["cells"], c["max"], c["n"])
    return ("Table(TableStyle.%s() with alignments %r, default %d)%s.add_rows(%r).render(io, %d) at terminal width %d, %s" % (
        c["style"], c["aligns"], c["default"], "" if c["header"] is None else ".set_header_row(%r)" % (c["header"],), c["rows"], c["ind"], c["W"],
        ["plain", "ANSI (forced)", "AnsiFormatter() not forced, stream without ANSI"][c["ansi"]])
            + (" - after the SAME Table object was rendered at terminal width %d, indentation %d" % tuple(c["pre"]) if c.get("pre") else ""))


def enc_wrapper(w):
    return [list(w.column_lengths), [[S(x) for x in r] for r in w.wrapped_rows], int(w.has_word_wraps()), int(w.has_word_cuts())]


TAG_WRAP = []


def watch_wrapping():
    """note the cells holding '<' that CellWrapper._wrap_column hands to textwrap.wrap (the cells that are wrapped)"""
    from clikit.ui.components import cell_wrapper as cw
    if getattr(cw, "_verif_watch", False):
        return
    import textwrap as tw

    class TW(object):
        @staticmethod
        def wrap(text, width, **kw):
            if "<" in text:
                TAG_WRAP.append(text)
            return tw.wrap(text, width, **kw)

    cw.textwrap = TW
    cw._verif_watch = True


def stack_depth(io):
    """how many styles the output's formatter has open (pastel's style stack; read only)"""
    return len(io.output.formatter._formatter._style_stack.styles)


def run_impl(c):
    from clikit.formatter import AnsiFormatter, PlainFormatter
    watch_wrapping()
    del TAG_WRAP[:]
    if c["k"] == 1:
        from clikit.ui.components import CellWrapper
        w = CellWrapper()
        w.add_cells(list(c["cells"]))
        try:
            w.fit(c["max"], c["n"], PlainFormatter())
        except Exception as e:  # noqa
            return err(e)
        return [0, enc_wrapper(w)]
    from clikit.io import BufferedIO
    from clikit.ui.rectangle import Rectangle
    from clikit.ui.components import Table
    st = style_obj(c)
    t = Table(st)
    if c["header"] is not None:
        t.set_header_row(list(c["header"]))
    t.add_rows([list(r) for r in c["rows"]])
    io = BufferedIO(formatter=[PlainFormatter, lambda: AnsiFormatter(forced=True), AnsiFormatter][c["ansi"]]())
    assert not io.output.stream.supports_ansi()
    io.set_terminal_dimensions(Rectangle(c["W"], 50))
    before = (copy.deepcopy(t._rows), copy.deepcopy(t._header_row), t._nb_columns, list(st.column_alignments))
    exc = max(len(st.header_cell_format.format("")), len(st.cell_format.format("")))
    if c.get("pre"):
        # a HISTORY on one Table object: the same table was rendered before, on another terminal width / at another indentation
        # (its own io); everything below - comparison with the model, every oracle clause - is about the render that follows
        io0 = BufferedIO(formatter=[PlainFormatter, lambda: AnsiFormatter(forced=True), AnsiFormatter][c["ansi"]]())
        io0.set_terminal_dimensions(Rectangle(c["pre"][0], 50))
        try:
            t.render(io0, c["pre"][1])
        except Exception:  # noqa
            pass
    # the wrapper is looked at on a formatter of its own (measuring cells moves the style stack when markup is unbalanced)
    io2 = BufferedIO(formatter=[PlainFormatter, lambda: AnsiFormatter(forced=True), AnsiFormatter][c["ansi"]]())
    try:
        w = t._get_cell_wrapper(io2, c["W"], exc, c["ind"])
        wr = enc_wrapper(w)
        lines_per_row = [max(len(x.split("\n")) for x in r) if r else 0 for r in w.wrapped_rows]
    except Exception as e:  # noqa
        wr, lines_per_row = None, None
    depth0 = stack_depth(io)
    msg = ""
    try:
        t.render(io, c["ind"])
        page = [0, S(io.fetch_output())]
    except Exception as e:  # noqa
        page = err(e)
        msg = "%s: %s" % (type(e).__name__, e)
    wrapped_lt = sorted(set(TAG_WRAP))
    left_open = int(stack_depth(io) != depth0)
    after = (t._rows, t._header_row, t._nb_columns, list(st.column_alignments))
    # twice: the same text again
    same = 1
    if page[0] == 0:
        try:
            first = unS(page[1])
            t.render(io, c["ind"])
            same = int(io.fetch_output() == first + first)
        except Exception:  # noqa
            same = 0
    return [wr, page, int(before == after), same, lines_per_row, [S(x) for x in wrapped_lt], left_open, S(msg[:200])]


def canon_impl(c, o):
    if c["k"] == 1:
        return o
    wr, page = o[0], o[1]
    if page[0] != 0:
        return page
    # 1: the model found the style well-formed (wf_styleb, hypothesis of table_rect); a cell holding '<' was wrapped (the model:
    # its tagged layer answered Err (Other 20) and the layer that wraps raw text spoke); the second render gave the same text
    return [0, wr + [page[1], 1, int(bool(o[5])), o[3]]]


def geometry(c):
    st = style_obj(c)
    b = st.border_style
    n = c["n"]
    exc = max(len(st.header_cell_format.format("")), len(st.cell_format.format("")))
    bw = len(b.line_vl_char) + (n - 1) * len(b.line_vc_char) + len(b.line_vr_char)
    return st, b, exc, c["W"] - c["ind"] - bw - n * exc


def plain(s):
    from clikit.formatter import PlainFormatter
    return PlainFormatter().remove_format(s)


ESCAPED = re.compile(r"\\<")
KNOWN = "tagged-cell-wrapped:"
_MARKUP = []


def has_markup(cell):
    """the cell holds something the formatter acts on: an escaped '<', a tag of the style set, '</>' or an inline style -
    decided without the implementation, from the style names read for the model"""
    if not _MARKUP:
        names = "|".join(re.escape(unS(x[0][0])) for x in style_set() if x[0])
        _MARKUP.append(re.compile(r"(?i)\\<|</?(?:%s)>|</>|<(?:fg|bg|options)=[a-z0-9,_=;-]*>" % names))
    return bool(_MARKUP[0].search(cell))


def oracle(c, o):
    if c["k"] == 3:
        # unbalanced / invalid markup: the property is about well-formed cells - but no table is modified by rendering it
        return None if o[2] else "table-modified-by-render"
    info = {}
    r = oracle0(c, o, info)
    if r is None or c["k"] != 2:
        return r
    # The recorded finding: a cell holding markup is wrapped by its raw text.  Only when such a cell was wrapped in this very
    # render, and only for the clause that failed (the entry in known_findings.json lists the clauses that are that defect).
    wrapped_markup = [unS(x) for x in o[5] if has_markup(unS(x))]
    # (a cell whose text comes back changed must itself hold markup: a tag-free cell that is garbled is never excused)
    if wrapped_markup and not (r == "cell-text-changed" and not has_markup(info["cell"])):
        return KNOWN + r
    if any(ESCAPED.search(x) for row in [c["header"] or []] + c["rows"] for x in row):
        return "escaped-tag-formatted-twice"      # repaired by 4a70d2d: a regression shows up under this class
    return r


def oracle0(c, o, info=None):
    if c["k"] == 1:
        if o[0] != 0:
            return "fit-raised" if c["max"] >= c["n"] >= 1 else None
        cols, rows = o[1][0], o[1][1]
        if c["max"] >= c["n"]:
            # over-long words are cut, so the columns fit the maximum whenever every column can have one character
            if sum(cols) > max(c["max"], 0) and sum(len(x.rstrip()) for x in c["cells"]) > 0 and any(cols):
                tot0 = None
                return "columns-wider-than-maximum"
            for r in rows:
                for j, cell in enumerate(r):
                    if any(len(l) > cols[j] for l in unS(cell).split("\n")):
                        return "cell-line-wider-than-its-column"
        cells = [x.rstrip() for x in c["cells"]]
        flat = [unS(x) for r in rows for x in r][:len(cells)]
        for a, b_ in zip(cells, flat):
            if "".join(a.split()) != "".join(b_.split()):
                return "cell-text-changed"
        return None
    st, b, exc, avail = geometry(c)
    n = c["n"]
    if avail < n:
        return None                       # outside the guard: at least one character per column
    wr, page, unchanged, same, lpr = o[:5]
    if page[0] != 0:
        return "render-raised" + ("-nested-style-tag" if unS(o[7]).startswith("ValueError: Incorrectly nested style tag found") else "")
    if not unchanged:
        return "table-modified-by-render"
    if not same:
        # the first render left a style open on the output's formatter (a tag cut off from its partner): what is written next
        # starts in that style; told apart from a second render that differs although the formatter was left as it was
        return "style-left-open" if o[6] else "second-render-differs"
    text = unS(page[1])
    if c["ansi"] != 1 and "\x1b" in text:
        return "plain-output-has-escape"
    lines = SGR.sub("", text).split("\n")
    if lines[-1] != "":
        return "last-line-not-terminated"
    lines = lines[:-1]
    if any(len(l) > c["W"] for l in lines):
        return "line-wider-than-terminal"
    if wr is None:
        return "wrapper-raised"
    cols = wr[0]
    full = c["ind"] + len(b.line_vl_char) + sum(cols) + n * exc + (n - 1) * len(b.line_vc_char) + len(b.line_vr_char)
    if full > c["W"]:
        return "table-wider-than-terminal"
    if any(len(l) > full for l in lines):
        return "line-wider-than-table"
    blank_right = (b.line_vr_char.strip() == "")
    if not blank_right and any(len(l) != full for l in lines):
        return "lines-differ-in-width"
    # the column grid: separators at the same positions in every row line
    starts, pos = [], c["ind"] + len(b.line_vl_char)
    pre = len(split_fmt(st.cell_format)[0])
    for j in range(n):
        starts.append(pos + pre)
        pos += cols[j] + exc + len(b.line_vc_char)
    has_header = c["header"] is not None
    widths = [x + exc for x in cols]
    top = 1 if draws(b, "t", widths) else 0
    mid = 1 if draws(b, "c", widths) else 0
    idx = top
    rows_txt = ([c["header"]] if has_header else []) + c["rows"]
    for ri, k in enumerate(lpr):
        got = [""] * n
        for li in range(k):
            if idx >= len(lines):
                return "rows-missing"
            l = lines[idx].ljust(full)
            idx += 1
            for j in range(n):
                seg = l[starts[j]:starts[j] + cols[j]]
                got[j] += seg
                if b.line_vc_char.strip() and j < n - 1:
                    sep_at = starts[j] + cols[j] + (exc - pre)
                    if l[sep_at:sep_at + len(b.line_vc_char)] != b.line_vc_char:
                        return "column-separator-misplaced"
        for j in range(n):
            want = "".join(plain(rows_txt[ri][j]).split())
            if "".join(got[j].split()) != want:
                if info is not None:
                    info["cell"] = rows_txt[ri][j]
                return "cell-text-changed"
        if has_header and ri == 0:
            idx += mid
    return None


def draws(b, which, widths):
    """a border line is written unless it is blank (a line character repeated zero times draws nothing)"""
    lc, l, c, r = {"t": (b.line_ht_char, b.corner_tl_char, b.crossing_t_char, b.corner_tr_char),
                   "c": (b.line_hc_char, b.crossing_l_char, b.crossing_c_char, b.crossing_r_char)}[which]
    line = l + c.join(lc * w for w in widths) + r
    return bool(line.strip())


def nontrivial_key(c, o):
    import json
    if c["k"] == 1:
        return ("f", tuple(c["cells"]), c["n"], c["max"]) if o[0] == 0 and o[1][2] else None
    wr = o[0]
    if wr is None or not wr[2]:
        return None
    return ("t", json.dumps(c["rows"]), json.dumps(c["header"]), c["style"], tuple(c["aligns"]), c["W"], c["ind"], c["ansi"])


def shrink(c):
    out = []
    if c["k"] == 1:
        for i in range(len(c["cells"])):
            out.append(dict(c, cells=c["cells"][:i] + c["cells"][i + 1:]))
            w = c["cells"][i].split(" ")
            if len(w) > 1:
                out.append(dict(c, cells=c["cells"][:i] + [" ".join(w[:len(w) // 2])] + c["cells"][i + 1:]))
        return out
    rows = c["rows"]
    if c.get("pre"):
        out.append({k: v for k, v in c.items() if k != "pre"})
    if len(rows) > 1:
        for i in range(len(rows)):
            out.append(dict(c, rows=rows[:i] + rows[i + 1:]))
    if c["header"] is not None:
        out.append(dict(c, header=None))
    if c["n"] > 1:
        out.append(dict(c, n=c["n"] - 1, rows=[r[:-1] for r in rows], header=None if c["header"] is None else c["header"][:-1],
                        aligns=c["aligns"][:c["n"] - 1]))
    if c["aligns"]:
        out.append(dict(c, aligns=[]))
    if c["ind"]:
        out.append(dict(c, ind=0))
    for i, r in enumerate(rows):
        for j, cell in enumerate(r):
            w = cell.split(" ")
            if len(w) > 1:
                nr = [list(x) for x in rows]
                nr[i][j] = " ".join(w[:len(w) // 2])
                out.append(dict(c, rows=nr))
            elif len(cell) > 3:
                nr = [list(x) for x in rows]
                nr[i][j] = cell[:len(cell) // 2]
                out.append(dict(c, rows=nr))
    return out
