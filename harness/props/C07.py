"""C07 - option and argument flags are validated and normalised consistently."""
import itertools
import sys
from hutil import S, unS, err, enc_val, canon_floats

# Cases, wires and observations carry integers of more than 4300 digits (the inputs that probe CPython's int <-> str limit):
# the harness's own serialisation (json, str(int), int(text)) must not trip over that limit, so it is lifted for the
# harness - and put back to the interpreter's default around every call into clikit (run_impl), which is what the model
# describes (Conv.MAX_STR_DIGITS).
INT_MAX_STR_DIGITS = 4300
sys.set_int_max_str_digits(0)

MODEL = "C07"
PROP_FILES = ["Props/C07.v"]
RULE = ("exhaustive: all 2^13 option flag words x short name {none,'f'} x 8 defaults (none, 'x', '', 0, [], ['x'], ('x',), False: "
        "falsy values and a tuple included, compared by VALUE); all 2^11 argument flag words x the 8 defaults; all names of "
        "length <= 4 over {a,Z,7,-,_,space,newline,e-acute} (+ '--'/'-' prefixed ones) and all names of length <= 2 over all 95 "
        "printable ASCII characters, newline, tab and 8 non-ASCII letters / digits / marks (+ '--' prefixed) as long name, short "
        "name, alias and argument name; conversion of ~300 boundary texts/values (non-ASCII digits, 0x10, Yes/ON, 10**400, "
        "2**1024-2**970, 4300/4301/5000-digit ints and digit strings, float inputs) and seeded random ints/floats for 4 types x "
        "nullable; value -> text -> value round trips of booleans, ints (up to 4300 digits and beyond) and floats; the Unicode "
        "decimal-digit table int() uses, over 0..0x1FFFF (quick) / 0x10FFFF (thorough); non-trivial = distinct flag word / name / "
        "value text; distinct by case")
TRUSTED = ["float(text) values and float text round trip are CPython's (model carries floats as text); the int()/float() grammars are "
           "modelled incl. non-ASCII decimal digits (table compared with CPython over all code points) and the 4300-digit limit",
           "harness/translate.py (fail-closed translator of a pure subset of Python, driven by ast; its reading of that subset and the "
           "declared int/bool types are trusted) regenerates coq/theories/Generated/GenFlags.v from the flag constants and "
           "_validate_flags / _add_default_flags of AbstractOption, Option and Argument in the source tree on every run (bin/setup), "
           "and the theorems opt_validate_matches_source, arg_validate_matches_source, abs_validate_matches_source, "
           "opt_defaults_matches_source, arg_defaults_matches_source, abs_defaults_matches_source re-check the hand model "
           "(Model/Flags.v) against them for all integers: a second tie of model and code next to the differential run"]
ASSUMPTIONS = ["names are str/None/other; aliases are str; conversion inputs are None/bool/int/str/float (int(finite float), a "
               "truncation, is not generated)",
               "CPython's default sys.get_int_max_str_digits() = 4300: str(int) / int(str) beyond 4300 digits raise ValueError in the "
               "interpreter, so the int round trip is demanded for integers of at most 4300 digits (and ValueError beyond)"]

ALPHA = ["a", "Z", "7", "-", "_", " ", "\n", "\u00e9"]
# every printable ASCII character, two controls, and non-ASCII letters / digits / marks that str.isalpha() / isalnum() / \w
# would let through: e-acute, sharp s, Greek capital omega, titlecase DZ-caron, ARABIC-INDIC digit 3, superscript 2,
# fullwidth A, combining acute
WIDE = [chr(x) for x in range(32, 127)] + ["\n", "\t", "\u00e9", "\u00df", "\u03a9", "\u01c5", "\u0663", "\u00b2", "\uff21", "\u0301"]


def names():
    out = []
    for k in range(0, 5):
        for t in itertools.product(ALPHA, repeat=k):
            out.append("".join(t))
    for k in range(0, 4):
        for t in itertools.product(ALPHA, repeat=k):
            out.append("--" + "".join(t))
    return out


BOUNDARY = ["", " ", "1", " 1", "1 ", "\t1\n", "+1", "-1", "--1", "+-1", "1_0", "_1", "1_", "1__0", "0x1", "0b1", "0o7", "007", "-0",
            "1e3", "1E3", "1e", "e3", "1e+3", "1e-3", "1e+", "1.5", "1.", ".5", ".", "-.5", "+.5e1", "1_0.5", "1._5", "1_.5", "1e1_0",
            "1e_1", "nan", "NaN", "-nan", "+nan", "inf", "Inf", "-inf", "infinity", "INFINITY", "infinit", "in_f", "null", "NULL",
            "None", "none", "true", "True", "TRUE", "false", "False", "yes", "no", "on", "off", "0", "2", "y", "n", "1.0", "0.0",
            "12345678901234567890123", "-98765432109876543210", "1 2", "1 2", " 1 ", " 1", "1\x1c", "\x1f1",
            "1\x00", "abc", "a1", "1a", "0.1", "3.14", "1e400", "-1e400", "1e-400", "0e0", "00.5", "5.", "1_000_000", "1__000",
            "+", "-", "+_1", "1+", "1-", "1.5.2", "1e5e5", "1,5", "1\n", "\n", "tRuE", " true", "0 ", "on ", "nul", "nulll",
            "0x10", "0X10", "0b10", "Yes", "YES", "ON", "On", "Off", "OFF", "No", "NO", "T", "t", "00", "01", "-0.0", "1e308", "1e309",
            # non-ASCII decimal digits (int() and float() read them), mixed with ASCII, with underscores, as exponent;
            # non-ASCII characters that are not digits
            "\uff11", "\u0663", "\u0661\u0662", "1\uff12", "\u0967_\u0968", "\u0661\u0662.\u0665", "\u0661e\u0662", "-\u0663",
            "+\uff11\uff10", "\u3000\u0661", "\u0661\u3000", "\U0001d7d8\U0001d7d9", "\u0663_", "_\u0663", "\u0663__\u0663",
            "\uff49\uff4e\uff46", "\u22121", "\u00b2", "\u00bd", "\u2460", "\u5341", "1\u00e9", "\u00e91", "\u0661\x1c",
            # CPython's 4300-digit limit for int <-> str (leading zeros count, underscores do not, float() has none)
            "1" * 4300, "1" * 4301, " " + "9" * 4300 + " ", "0" * 4301, "1_" * 2150 + "1", "1" * 5000, "1" * 4301 + "x",
            "1" + "0" * 400, "-1" + "0" * 400, "\u0661" * 4301, "1" * 4301 + ".5", "1e" + "1" * 4301]
# (the model's driver reads and prints integers of thousands of digits in quadratic time: ~2 s per case, so the quick
# tier takes a handful of them and the thorough tier the rest)
BOUNDARY_THOROUGH = ["-" + "1" * 4300, "+" + "1" * 4301, "0" * 5000 + "1", "1_" * 2149 + "1", "-" + "\uff11" * 4300]
INT_VALUES = [10 ** 400, -10 ** 400, 10 ** 308, 2 ** 1024 - 2 ** 970 - 1, 2 ** 1024 - 2 ** 970, -(2 ** 1024 - 2 ** 970),
              2 ** 1024 - 2 ** 970 + 1, 2 ** 1024, 10 ** 4300 - 1, 10 ** 4300, -10 ** 4300, 10 ** 5000]
INT_VALUES_THOROUGH = [10 ** 4299, -(10 ** 4300 - 1), 7 ** 6000, 3 ** 9000, -(10 ** 4301)]


def _huge(v):
    return (isinstance(v, int) and abs(v) >= 10 ** 1000) or (isinstance(v, str) and len(v) > 1000)
FLOAT_VALUES = [0.0, -0.0, 1.5, -2.25, 0.1, 1e16, 1e-05, 1e22, 1e23, 123456789.125, 5e-324, 2.2250738585072014e-308,
                1.7976931348623157e+308, float("inf"), float("-inf"), float("nan"), 1 / 3, 2 ** 53 + 0.0, 1e300 * 10]
DEFAULTS = [None, "x", "", 0, [], ["x"], ("x",), False]


def enc_d(v):
    """a default value on the wire: hutil.enc_val, plus tuples (neither None nor a list) as (8 items)"""
    if isinstance(v, tuple):
        return [8, [enc_val(x) for x in v]]
    return enc_val(v)


def wide_names():
    out = [""]
    for a in WIDE:
        out.append(a)
        for b in WIDE:
            out.append(a + b)
    return out


def gen(rng, tier, info):
    cases = []
    nd = len(DEFAULTS)
    for f in range(2 ** 13):
        for sn in (None, "f"):
            for d in range(nd):
                cases.append({"k": 0, "long": [2, "foo"], "short": [0] if sn is None else [2, sn], "f": f, "d": d})
    for f in (-1, -5, 2 ** 20 + 8, 2 ** 40 + 32 + 1, -2 ** 13):
        for sn in (None, "f"):
            cases.append({"k": 0, "long": [2, "foo"], "short": [0] if sn is None else [2, sn], "f": f, "d": 0})
    for f in range(2 ** 11):
        for d in range(nd):
            cases.append({"k": 1, "name": [2, "arg"], "f": f, "d": d})
    nm = names()
    for n in nm:
        cases.append({"k": 0, "long": [2, n], "short": [0], "f": 0, "d": 0})
        cases.append({"k": 0, "long": [2, "foo"], "short": [2, n], "f": 0, "d": 0})
        cases.append({"k": 0, "long": [2, "foo"], "short": [2, n], "f": 2, "d": 0})
        cases.append({"k": 1, "name": [2, n], "f": 0, "d": 0})
        cases.append({"k": 2, "long": [2, "foo"], "short": [0], "al": [n], "f": 0})
        cases.append({"k": 2, "long": [2, n], "short": [2, "x"], "al": ["bar", "-b"], "f": 0})
    wn = wide_names()
    for n in wn:
        cases.append({"k": 0, "long": [2, n], "short": [0], "f": 0, "d": 0})
        cases.append({"k": 0, "long": [2, "--" + n], "short": [0], "f": 0, "d": 0})
        cases.append({"k": 0, "long": [2, "foo"], "short": [2, n], "f": 0, "d": 0})
        cases.append({"k": 1, "name": [2, n], "f": 0, "d": 0})
        cases.append({"k": 2, "long": [2, "foo"], "short": [0], "al": [n], "f": 0})
        cases.append({"k": 2, "long": [2, "foo"], "short": [0], "al": ["--" + n], "f": 0})
    for odd in ([0], [1]):
        cases.append({"k": 0, "long": odd, "short": [0], "f": 0, "d": 0})
        cases.append({"k": 0, "long": [2, "foo"], "short": odd, "f": 2, "d": 0})
        cases.append({"k": 1, "name": odd, "f": 0, "d": 0})
    for f in range(8):
        cases.append({"k": 2, "long": [2, "foo"], "short": [2, "f"], "al": ["--bar", "b", "-c", "baz"], "f": f})
        cases.append({"k": 2, "long": [2, "foo"], "short": [0], "al": [], "f": f})
    vals = [None, True, False, 0, 1, -1, 2, 10, 255, 10 ** 20, -10 ** 20] + BOUNDARY + INT_VALUES + FLOAT_VALUES
    if tier == "thorough":
        vals += BOUNDARY_THOROUGH + INT_VALUES_THOROUGH
    nr = {"quick": 1500, "thorough": 20000, "search": 1500}[tier]
    for _ in range(nr):
        r = rng.random()
        if r < 0.3:
            z = rng.randint(-10 ** rng.randint(1, 30), 10 ** rng.randint(1, 30))
            vals.append(rng.choice([z, str(z), " %d " % z, "%+d" % z]))
        elif r < 0.55:
            x = rng.uniform(-1, 1) * 10 ** rng.randint(-30, 30)
            vals.append(rng.choice([repr(x), str(x).upper(), " %r" % x, "%e" % x, "%.3f" % x, x]))
        elif r < 0.65:
            # digits of several scripts mixed, with the odd underscore, sign and dot
            zeros = [48, 48, 0x660, 0xff10, 0x966, 0x1d7d8]
            vals.append("".join(rng.choice("+-._e") if rng.random() < 0.15 else chr(rng.choice(zeros) + rng.randint(0, 9))
                                for _ in range(rng.randint(1, 7))))
        else:
            vals.append("".join(rng.choice("0123456789+-._eE nifa\t") for _ in range(rng.randint(1, 7))))
    for v in vals:
        for t in range(4):
            if isinstance(v, float) and t == 2 and v == v and v not in (float("inf"), float("-inf")):
                continue        # int(finite float): truncation, outside the model (ASSUMPTIONS)
            for nl in ((0, 1) if (tier == "thorough" or not _huge(v)) else (t % 2,)):
                cases.append({"k": 3, "t": t, "nl": nl, "v": enc_val(v)})
    # value -> text -> value
    rt = [True, False, 0, 1, -1, 7, 10 ** 20, -10 ** 20] + INT_VALUES + FLOAT_VALUES + (INT_VALUES_THOROUGH if tier == "thorough" else [])
    for _ in range({"quick": 3, "thorough": 40, "search": 1}[tier]):
        rt.append(rng.choice([-1, 1]) * rng.randint(10 ** 4200, 10 ** 4310))
    for _ in range(nr // 3):
        r = rng.random()
        if r < 0.3:
            rt.append(rng.randint(-10 ** rng.randint(1, 60), 10 ** rng.randint(1, 60)))
        elif r < 0.5:
            rt.append(rng.choice([-1, 1]) * rng.randint(10 ** 300, 10 ** 320))
        else:
            x = rng.uniform(-1, 1) * 10 ** rng.randint(-320, 308)
            rt.append(x)
    for i, v in enumerate(rt):
        for nl in ((0, 1) if (tier == "thorough" or not _huge(v)) else (i % 2,)):
            cases.append({"k": 4, "nl": nl, "v": enc_val(v)})
    # histories: several constructions in ONE process, each outcome must be that of the construction alone (a cache of
    # validated flag words shared between Option / CommandOption / Argument: seeded change C07-i). CommandOption accepts
    # words that are contradictory as Option bits (it validates the name preferences only)
    contradictory = [48, 12, 640, 24, 20, 36, 136, 192, 384, 3, 2 ** 13 - 1]
    seqs = []
    for w in contradictory + [rng.randrange(2 ** 13) for _ in range({"quick": 60, "thorough": 600, "search": 10}[tier])]:
        co = {"k": 2, "long": [2, "foo"], "short": [2, "f"], "al": [], "f": w}
        op = {"k": 0, "long": [2, "foo"], "short": [2, "f"], "f": w, "d": 0}
        ar = {"k": 1, "name": [2, "arg"], "f": w % 2 ** 11, "d": 0}
        for order in ([co, op], [op, co], [ar, op], [op, ar], [co, op, ar, op], [op, op]):
            seqs.append({"k": 6, "seq": order})
    cases.extend(seqs)
    hi = {"quick": 0x20000, "thorough": 0x110000, "search": 0x800}[tier]
    for lo in range(0, hi, 0x4000):
        cases.append({"k": 5, "lo": lo, "hi": min(hi, lo + 0x4000)})
    info["exhaustive"] = True
    info["distribution"] = {"option_flag_cases": 2 ** 13 * 2 * nd, "argument_flag_cases": 2 ** 11 * nd, "defaults": [repr(d) for d in DEFAULTS],
                            "names": len(nm), "wide_names": len(wn), "conversion_values": len(vals), "round_trip_values": len(rt),
                            "digit_table_range": hi, "total": len(cases)}
    return cases


def _name(w):
    return [w[0]] if w[0] != 2 else [2, S(w[1])]


def wire(c):
    if c["k"] == 6:
        return [6, [wire(x) for x in c["seq"]]]
    if c["k"] == 0:
        return [0, _name(c["long"]), _name(c["short"]), c["f"], enc_d(DEFAULTS[c["d"]])]
    if c["k"] == 1:
        return [1, _name(c["name"]), c["f"], enc_d(DEFAULTS[c["d"]])]
    if c["k"] == 2:
        return [2, _name(c["long"]), _name(c["short"]), [S(a) for a in c["al"]], c["f"]]
    if c["k"] == 4:
        return [4, _vtype(c["v"]), c["nl"], c["v"]]
    if c["k"] == 5:
        return [5, c["lo"], c["hi"]]
    return [3, c["t"], c["nl"], c["v"]]


def _vtype(w):
    """the declared type a value converts back by: bool -> BOOLEAN, int -> INTEGER, float -> FLOAT"""
    return {1: 1, 2: 2, 4: 3}[w[0]]


def describe(c):
    r = repr(c)
    return r if len(r) < 400 else r[:300] + " ... (%d characters)" % len(r)


def _pyname(w):
    return None if w[0] == 0 else (5 if w[0] == 1 else w[1])


def run_impl(c):
    sys.set_int_max_str_digits(INT_MAX_STR_DIGITS)
    try:
        return _run_impl(c)
    finally:
        sys.set_int_max_str_digits(0)


def _run_impl(c):
    from clikit.api.args.format import Option, Argument, CommandOption
    if c["k"] == 6:
        return [0, [_run_impl(x) for x in c["seq"]]]
    try:
        if c["k"] == 0:
            o = Option(_pyname(c["long"]), _pyname(c["short"]), c["f"], None, DEFAULTS[c["d"]])
            return [0, [S(o.long_name), [] if o.short_name is None else [S(o.short_name)], o.flags, enc_d(o.default),
                        [int(o.accepts_value()), int(o.is_value_required()), int(o.is_value_optional()), int(o.is_multi_valued()),
                         int(o.is_long_name_preferred()), int(o.is_short_name_preferred())]]]
        if c["k"] == 1:
            a = Argument(_pyname(c["name"]), c["f"], None, DEFAULTS[c["d"]])
            return [0, [S(a.name), a.flags, enc_d(a.default), [int(a.is_required()), int(a.is_optional()), int(a.is_multi_valued())]]]
        if c["k"] == 2:
            o = CommandOption(_pyname(c["long"]), _pyname(c["short"]), list(c["al"]), c["f"])
            return [0, [S(o.long_name), [] if o.short_name is None else [S(o.short_name)], o.flags,
                        [S(x) for x in o.long_aliases], [S(x) for x in o.short_aliases]]]
        from hutil import dec_val          # (enc_val / dec_val move ints as ints: no int <-> str conversion of their own)
        if c["k"] == 5:
            out = []
            for x in range(c["lo"], c["hi"]):
                try:
                    out.append([x, int(chr(x))])
                except ValueError:
                    pass
            return [0, out]
        v = dec_val(c["v"])
        if c["k"] == 4:
            nlf = Option.NULLABLE if c["nl"] else 0
            txt = Option("opt", None, Option.STRING | nlf | Option.REQUIRED_VALUE).parse(v)
            typ = [Option.STRING, Option.BOOLEAN, Option.INTEGER, Option.FLOAT][_vtype(c["v"])]
            back = Option("opt", None, typ | nlf | Option.REQUIRED_VALUE).parse(txt)
            return [0, [enc_val(txt), enc_val(back)]]
        flags = [Option.STRING, Option.BOOLEAN, Option.INTEGER, Option.FLOAT][c["t"]] | (Option.NULLABLE if c["nl"] else 0)
        o = Option("opt", None, flags | Option.REQUIRED_VALUE)
        r1 = o.parse(v)
        aflags = [Argument.STRING, Argument.BOOLEAN, Argument.INTEGER, Argument.FLOAT][c["t"]] | (Argument.NULLABLE if c["nl"] else 0)
        r2 = Argument("arg", aflags).parse(v)
        if enc_val(r1) != enc_val(r2):
            return ["OPT-ARG-DIFFER", enc_val(r1), enc_val(r2)]
        return [0, enc_val(r1)]
    except Exception as e:
        return err(e)


def canon_impl(c, o):
    return canon_floats(o) if c["k"] in (3, 4) else o


def canon_model(c, o):
    return canon_floats(o) if c["k"] in (3, 4) else o


def _bit(f, k):
    return bool(f & (1 << k))


def _given(c):
    """the default handed to the constructor: (is given at all, is a list, its wire form)"""
    d = DEFAULTS[c["d"]]
    return d is not None, isinstance(d, list), enc_d(d)


def _fval(w):
    """wire float -> float"""
    return float(unS(w[1]))


def _same_float(a, b):
    return repr(a) == repr(b)        # nan == nan, -0.0 != 0.0


def oracle(c, o):
    """The property clauses, on the real observations."""
    if c["k"] == 6:
        # every construction of the history is judged by the clauses of the single construction
        for x, ox in zip(c["seq"], o[1]):
            r = _oracle(x, ox)
            if r:
                return "in-a-history:" + r
        return None
    return _oracle(c, o)


def _oracle(c, o):
    if o and o[0] == "OPT-ARG-DIFFER":
        return "option-and-argument-convert-differently"
    if o[0] == -1 and o[1] != 1:
        return "wrong-exception:%d" % o[1]
    ok = o[0] == 0
    if c["k"] == 0 and c["long"] == [2, "foo"] and c["short"] in ([0], [2, "f"]):
        f, has_short = c["f"], c["short"] != [0]
        given, is_list, dw = _given(c)
        ntypes = sum(_bit(f, k) for k in (7, 8, 9, 10))
        contradiction = ((_bit(f, 2) and (_bit(f, 3) or _bit(f, 4) or _bit(f, 5))) or (_bit(f, 4) and _bit(f, 5)) or ntypes > 1
                         or (_bit(f, 0) and _bit(f, 1)) or (_bit(f, 1) and not has_short))
        valueless = _bit(f, 2) or not (_bit(f, 3) or _bit(f, 4) or _bit(f, 5))
        # a default that is not None - '' 0 False [] included - is a default: a value-less option has none, a multi-valued
        # one takes lists only
        bad_default = (valueless and given) or (_bit(f, 5) and given and not is_list)
        exp_ok = not contradiction and not bad_default
        if ok != exp_ok:
            return "option-accept-iff"
        if ok:
            g = o[1][2]
            acc, req, opt, multi, lp, sp = o[1][4]
            if sum(_bit(g, k) for k in (7, 8, 9, 10)) != 1:
                return "option-one-type"
            if lp + sp != 1:
                return "option-one-preference"
            kept = o[1][3]
            if (not acc) and (req or opt or multi or kept != [0]):
                return "option-valueless-consistency"
            if multi and (not req or kept[0] != 5):
                return "option-multi-consistency"
            if kept != (dw if given else ([5, []] if multi else [0])):
                return "option-default-value-not-kept"
            if g & f != f or (g ^ f) & ((1 << 6) | (1 << 12)):
                return "option-normalisation-changes-bits"
    if c["k"] == 1 and c["name"] == [2, "arg"]:
        f = c["f"]
        given, is_list, dw = _given(c)
        ntypes = sum(_bit(f, k) for k in (4, 5, 6, 7))
        exp_ok = (not (_bit(f, 0) and _bit(f, 1)) and ntypes <= 1 and not (_bit(f, 0) and given)
                  and not (_bit(f, 2) and given and not is_list))
        if ok != exp_ok:
            return "argument-accept-iff"
        if ok:
            g = o[1][1]
            req, opt, multi = o[1][3]
            if sum(_bit(g, k) for k in (4, 5, 6, 7)) != 1:
                return "argument-one-type"
            kept = o[1][2]
            if req + opt != 1 or (req and kept != ([5, []] if multi else [0])):
                return "argument-required-consistency"
            if multi and kept[0] != 5:
                return "argument-multi-default"
            if kept != (dw if given else ([5, []] if multi else [0])):
                return "argument-default-value-not-kept"
    wf_long = lambda s: len(s) >= 2 and s[0].isascii() and s[0].isalpha() and all(ch.isascii() and (ch.isalnum() or ch == "-") for ch in s)
    wf_short = lambda s: len(s) == 1 and s.isascii() and s.isalpha()
    if c["k"] == 0 and c["short"] == [0] and c["f"] == 0 and c["d"] == 0 and c["long"][0] == 2:
        n = c["long"][1]
        n = n[2:] if n.startswith("--") else n
        if ok != wf_long(n):
            return "long-name-accept-iff"
    if c["k"] == 0 and c["long"] == [2, "foo"] and c["short"][0] == 2 and c["f"] in (0, 2) and c["d"] == 0:
        n = c["short"][1]
        n = n[1:] if n.startswith("-") else n
        if ok != wf_short(n):
            return "short-name-accept-iff"
    if c["k"] == 1 and c["name"][0] == 2 and c["f"] == 0:
        n = c["name"][1]
        if ok != (len(n) >= 1 and wf_long(n + "x")):
            return "argument-name-accept-iff"
    if c["k"] == 2 and c["long"] == [2, "foo"] and len(c["al"]) == 1:
        n = c["al"][0]
        if n.startswith("--"):
            exp = wf_long(n[2:])
        else:
            m = n[1:] if n.startswith("-") else n
            exp = wf_short(m) or (len(m) != 1 and wf_long(m + "x") and len(m) >= 1)
        if ok != exp:
            return "alias-accept-iff"
    if c["k"] == 3 and ok:
        v = o[1]
        if v == [0]:
            if not c["nl"]:
                return "None-from-non-nullable"
        elif v[0] != [3, 1, 2, 4][c["t"]]:
            return "conversion-wrong-type"
        src = c["v"]
        if c["t"] == 2 and src[0] == 3:
            t = unS(src[1])
            try:
                z = int(t)
                if str(z) == t and v != [2, z]:
                    return "int-text-roundtrip"
            except ValueError:
                pass
        if c["t"] == 1 and src[0] == 3 and unS(src[1]) in ("true", "false") and v != [1, int(unS(src[1]) == "true")]:
            return "boolean-text-roundtrip"
        if c["t"] == 3 and src[0] == 4 and not _same_float(_fval(v), _fval(src)):
            return "float-value-changed"
    if c["k"] == 4:
        # the text form of every boolean, int and float converts back to that value
        src = c["v"]
        too_long = src[0] == 2 and abs(src[1]) >= 10 ** 4300      # CPython refuses str(int) beyond 4300 digits (ASSUMPTIONS)
        if too_long:
            if ok:
                return "int-beyond-the-interpreter-limit-converted"
            return None
        if not ok:
            return "roundtrip-raises:%d" % o[1]
        txt, back = o[1]
        if txt[0] != 3:
            return "text-form-is-not-a-string"
        if src[0] == 1 and (back != src or unS(txt[1]) != ("true" if src[1] else "false")):
            return "boolean-roundtrip"
        if src[0] == 2 and (back != src or unS(txt[1]) != str(src[1])):
            return "int-roundtrip"
        if src[0] == 4 and (back[0] != 4 or not _same_float(_fval(back), _fval(src))):
            return "float-roundtrip"
    if c["k"] == 5 and ok:
        import unicodedata
        exp = [[x, unicodedata.decimal(chr(x))] for x in range(c["lo"], c["hi"]) if unicodedata.decimal(chr(x), None) is not None]
        if o[1] != exp:
            return "decimal-digit-table"
    return None


def nontrivial_key(c, o):
    return [c[k] for k in sorted(c)]
