"""C07 - option and argument flags are validated and normalised consistently."""
import itertools
from hutil import S, unS, err, enc_val, canon_floats

MODEL = "C07"
PROP_FILES = ["Props/C07.v"]
RULE = ("exhaustive: all 2^13 option flag words x short name {none,'f'} x default {none, scalar, list}; all 2^11 argument flag "
        "words x 3 defaults; all names of length <= 4 over {a,Z,7,-,_,space,newline,e-acute} (+ '--'/'-' prefixed ones) as long "
        "name, short name, alias and argument name; conversion of ~230 boundary texts/values and seeded random ints/floats for "
        "4 types x nullable; non-trivial = distinct flag word / name / value text; distinct by case")
TRUSTED = ["float(text) values and float text round trip are CPython's (model carries floats as text); int()/float() grammars modelled for ASCII digits",
           "harness/translate.py (fail-closed translator of a pure subset of Python, driven by ast; its reading of that subset and the "
           "declared int/bool types are trusted) regenerates coq/theories/Generated/GenFlags.v from the flag constants and "
           "_validate_flags / _add_default_flags of AbstractOption, Option and Argument in the source tree on every run (bin/setup), "
           "and the theorems opt_validate_matches_source, arg_validate_matches_source, abs_validate_matches_source, "
           "opt_defaults_matches_source, arg_defaults_matches_source, abs_defaults_matches_source re-check the hand model "
           "(Model/Flags.v) against them for all integers: a second tie of model and code next to the differential run"]
ASSUMPTIONS = ["names are str/None/other; aliases are str; conversion inputs are None/bool/int/str"]

ALPHA = ["a", "Z", "7", "-", "_", " ", "\n", "é"]


def names():
    out = []
    for k in range(0, 5):
        for t in itertools.product(ALPHA, repeat=k):
            out.append("".join(t))
    for k in range(0, 4):
        for t in itertools.product(ALPHA, repeat=k):
            out.append("--" + "".join(t))
    return out


BOUNDARY = ["", " ", "1", " 1", "1 ", "\t1\n", "+1", "-1", "--1", "+-1", "1_0", "_1", "1_", "1__0", "0x1", "0b1", "0o7", "007", "-0",
            "1e3", "1E3", "1e", "e3", "1e+3", "1e-3", "1e+", "1.5", "1.", ".5", ".", "-.5", "+.5e1", "1_0.5", "1._5", "1_.5", "1e1_0",
            "1e_1", "nan", "NaN", "-nan", "+nan", "inf", "Inf", "-inf", "infinity", "INFINITY", "infinit", "in_f", "null", "NULL",
            "None", "none", "true", "True", "TRUE", "false", "False", "yes", "no", "on", "off", "0", "2", "y", "n", "1.0", "0.0",
            "12345678901234567890123", "-98765432109876543210", "1 2", "1 2", " 1 ", " 1", "1\x1c", "\x1f1",
            "1\x00", "abc", "a1", "1a", "0.1", "3.14", "1e400", "-1e400", "1e-400", "0e0", "00.5", "5.", "1_000_000", "1__000",
            "+", "-", "+_1", "1+", "1-", "1.5.2", "1e5e5", "1,5", "1\n", "\n", "tRuE", " true", "0 ", "on ", "nul", "nulll"]


def gen(rng, tier, info):
    cases = []
    for f in range(2 ** 13):
        for sn in (None, "f"):
            for d in (0, 1, 2):
                cases.append({"k": 0, "long": [2, "foo"], "short": [0] if sn is None else [2, sn], "f": f, "d": d})
    for f in (-1, -5, 2 ** 20 + 8, 2 ** 40 + 32 + 1, -2 ** 13):
        for sn in (None, "f"):
            cases.append({"k": 0, "long": [2, "foo"], "short": [0] if sn is None else [2, sn], "f": f, "d": 0})
    for f in range(2 ** 11):
        for d in (0, 1, 2):
            cases.append({"k": 1, "name": [2, "arg"], "f": f, "d": d})
    nm = names()
    for n in nm:
        cases.append({"k": 0, "long": [2, n], "short": [0], "f": 0, "d": 0})
        cases.append({"k": 0, "long": [2, "foo"], "short": [2, n], "f": 0, "d": 0})
        cases.append({"k": 0, "long": [2, "foo"], "short": [2, n], "f": 2, "d": 0})
        cases.append({"k": 1, "name": [2, n], "f": 0, "d": 0})
        cases.append({"k": 2, "long": [2, "foo"], "short": [0], "al": [n], "f": 0})
        cases.append({"k": 2, "long": [2, n], "short": [2, "x"], "al": ["bar", "-b"], "f": 0})
    for odd in ([0], [1]):
        cases.append({"k": 0, "long": odd, "short": [0], "f": 0, "d": 0})
        cases.append({"k": 0, "long": [2, "foo"], "short": odd, "f": 2, "d": 0})
        cases.append({"k": 1, "name": odd, "f": 0, "d": 0})
    for f in range(8):
        cases.append({"k": 2, "long": [2, "foo"], "short": [2, "f"], "al": ["--bar", "b", "-c", "baz"], "f": f})
        cases.append({"k": 2, "long": [2, "foo"], "short": [0], "al": [], "f": f})
    vals = [None, True, False, 0, 1, -1, 2, 10, 255, 10 ** 20, -10 ** 20] + BOUNDARY
    nr = {"quick": 1500, "thorough": 20000, "search": 1500}[tier]
    for _ in range(nr):
        r = rng.random()
        if r < 0.3:
            z = rng.randint(-10 ** rng.randint(1, 30), 10 ** rng.randint(1, 30))
            vals.append(rng.choice([z, str(z), " %d " % z, "%+d" % z]))
        elif r < 0.6:
            x = rng.uniform(-1, 1) * 10 ** rng.randint(-30, 30)
            vals.append(rng.choice([repr(x), str(x).upper(), " %r" % x, "%e" % x, "%.3f" % x]))
        else:
            vals.append("".join(rng.choice("0123456789+-._eE nifa\t") for _ in range(rng.randint(1, 7))))
    for v in vals:
        for t in range(4):
            for nl in (0, 1):
                cases.append({"k": 3, "t": t, "nl": nl, "v": enc_val(v)})
    info["exhaustive"] = True
    info["distribution"] = {"option_flag_cases": 2 ** 13 * 6, "argument_flag_cases": 2 ** 11 * 3, "names": len(nm),
                            "conversion_values": len(vals), "total": len(cases)}
    return cases


def _name(w):
    return [w[0]] if w[0] != 2 else [2, S(w[1])]


def wire(c):
    if c["k"] == 0:
        return [0, _name(c["long"]), _name(c["short"]), c["f"], c["d"]]
    if c["k"] == 1:
        return [1, _name(c["name"]), c["f"], c["d"]]
    if c["k"] == 2:
        return [2, _name(c["long"]), _name(c["short"]), [S(a) for a in c["al"]], c["f"]]
    return [3, c["t"], c["nl"], c["v"]]


def describe(c):
    return repr(c)


def _pyname(w):
    return None if w[0] == 0 else (5 if w[0] == 1 else w[1])


def _dk(v):
    return 0 if v is None else (2 if isinstance(v, list) else 1)


DEFAULTS = [None, "x", ["x"]]


def run_impl(c):
    from clikit.api.args.format import Option, Argument, CommandOption
    try:
        if c["k"] == 0:
            o = Option(_pyname(c["long"]), _pyname(c["short"]), c["f"], None, DEFAULTS[c["d"]])
            return [0, [S(o.long_name), [] if o.short_name is None else [S(o.short_name)], o.flags, _dk(o.default),
                        [int(o.accepts_value()), int(o.is_value_required()), int(o.is_value_optional()), int(o.is_multi_valued()),
                         int(o.is_long_name_preferred()), int(o.is_short_name_preferred())]]]
        if c["k"] == 1:
            a = Argument(_pyname(c["name"]), c["f"], None, DEFAULTS[c["d"]])
            return [0, [S(a.name), a.flags, _dk(a.default), [int(a.is_required()), int(a.is_optional()), int(a.is_multi_valued())]]]
        if c["k"] == 2:
            o = CommandOption(_pyname(c["long"]), _pyname(c["short"]), list(c["al"]), c["f"])
            return [0, [S(o.long_name), [] if o.short_name is None else [S(o.short_name)], o.flags,
                        [S(x) for x in o.long_aliases], [S(x) for x in o.short_aliases]]]
        from hutil import dec_val
        v = dec_val(c["v"])
        flags = [Option.STRING, Option.BOOLEAN, Option.INTEGER, Option.FLOAT][c["t"]] | (Option.NULLABLE if c["nl"] else 0)
        o = Option("opt", None, flags | Option.REQUIRED_VALUE)
        r1 = o.parse(v)
        aflags = [Argument.STRING, Argument.BOOLEAN, Argument.INTEGER, Argument.FLOAT][c["t"]] | (Argument.NULLABLE if c["nl"] else 0)
        r2 = Argument("arg", aflags).parse(v)
        if enc_val(r1) != enc_val(r2):
            return ["OPT-ARG-DIFFER", enc_val(r1), enc_val(r2)]
        return [0, enc_val(r1)]
    except Exception as e:
        return err(e)


def canon_impl(c, o):
    return canon_floats(o) if c["k"] == 3 else o


def canon_model(c, o):
    return canon_floats(o) if c["k"] == 3 else o


def _bit(f, k):
    return bool(f & (1 << k))


def oracle(c, o):
    """The property clauses, on the real observations."""
    if o and o[0] == "OPT-ARG-DIFFER":
        return "option-and-argument-convert-differently"
    if o[0] == -1 and o[1] != 1:
        return "wrong-exception:%d" % o[1]
    ok = o[0] == 0
    if c["k"] == 0 and c["long"] == [2, "foo"] and c["short"] in ([0], [2, "f"]):
        f, has_short, d = c["f"], c["short"] != [0], c["d"]
        ntypes = sum(_bit(f, k) for k in (7, 8, 9, 10))
        contradiction = ((_bit(f, 2) and (_bit(f, 3) or _bit(f, 4) or _bit(f, 5))) or (_bit(f, 4) and _bit(f, 5)) or ntypes > 1
                         or (_bit(f, 0) and _bit(f, 1)) or (_bit(f, 1) and not has_short))
        valueless = _bit(f, 2) or not (_bit(f, 3) or _bit(f, 4) or _bit(f, 5))
        bad_default = (valueless and d != 0) or (_bit(f, 5) and d == 1)
        exp_ok = not contradiction and not bad_default
        if ok != exp_ok:
            return "option-accept-iff"
        if ok:
            g = o[1][2]
            acc, req, opt, multi, lp, sp = o[1][4]
            if sum(_bit(g, k) for k in (7, 8, 9, 10)) != 1:
                return "option-one-type"
            if lp + sp != 1:
                return "option-one-preference"
            if (not acc) and (req or opt or multi or o[1][3] != 0):
                return "option-valueless-consistency"
            if multi and (not req or o[1][3] != 2):
                return "option-multi-consistency"
            if g & f != f or (g ^ f) & ~((1 << 12) - 1 | 0) & ((1 << 6) | (1 << 12)):
                return "option-normalisation-changes-bits"
    if c["k"] == 1 and c["name"] == [2, "arg"]:
        f, d = c["f"], c["d"]
        ntypes = sum(_bit(f, k) for k in (4, 5, 6, 7))
        exp_ok = not (_bit(f, 0) and _bit(f, 1)) and ntypes <= 1 and not (_bit(f, 0) and d != 0) and not (_bit(f, 2) and d == 1)
        if ok != exp_ok:
            return "argument-accept-iff"
        if ok:
            g = o[1][1]
            req, opt, multi = o[1][3]
            if sum(_bit(g, k) for k in (4, 5, 6, 7)) != 1:
                return "argument-one-type"
            if req + opt != 1 or (req and o[1][2] != (2 if multi else 0)):
                return "argument-required-consistency"
            if multi and o[1][2] != 2:
                return "argument-multi-default"
    wf_long = lambda s: len(s) >= 2 and s[0].isascii() and s[0].isalpha() and all(ch.isascii() and (ch.isalnum() or ch == "-") for ch in s)
    wf_short = lambda s: len(s) == 1 and s.isascii() and s.isalpha()
    if c["k"] == 0 and c["short"] == [0] and c["f"] == 0 and c["d"] == 0 and c["long"][0] == 2:
        n = c["long"][1]
        n = n[2:] if n.startswith("--") else n
        if ok != wf_long(n):
            return "long-name-accept-iff"
    if c["k"] == 0 and c["long"] == [2, "foo"] and c["short"][0] == 2 and c["f"] in (0, 2) and c["d"] == 0:
        n = c["short"][1]
        n = n[1:] if n.startswith("-") else n
        if ok != wf_short(n):
            return "short-name-accept-iff"
    if c["k"] == 1 and c["name"][0] == 2 and c["f"] == 0:
        n = c["name"][1]
        if ok != (len(n) >= 1 and wf_long(n + "x")):
            return "argument-name-accept-iff"
    if c["k"] == 2 and c["long"] == [2, "foo"] and len(c["al"]) == 1:
        n = c["al"][0]
        if n.startswith("--"):
            exp = wf_long(n[2:])
        else:
            m = n[1:] if n.startswith("-") else n
            exp = wf_short(m) or (len(m) != 1 and wf_long(m + "x") and len(m) >= 1)
        if ok != exp:
            return "alias-accept-iff"
    if c["k"] == 3 and ok:
        v = o[1]
        if v == [0]:
            if not c["nl"]:
                return "None-from-non-nullable"
        elif v[0] != [3, 1, 2, 4][c["t"]]:
            return "conversion-wrong-type"
        src = c["v"]
        if c["t"] == 2 and src[0] == 3:
            t = unS(src[1])
            try:
                z = int(t)
                if str(z) == t and v != [2, z]:
                    return "int-text-roundtrip"
            except ValueError:
                pass
    return None


def nontrivial_key(c, o):
    return [c[k] for k in sorted(c)]
