"""C04 - a run always ends in a valid exit status and never leaks a handler failure."""
import itertools, math, json
from hutil import S, unS
import parsergen as G
import treegen as T
import props.C09 as C09

MODEL = "C04"
PROP_FILES = ["Props/C04.v"]
RULE = ("handler outcome (27 return values: None/False/0/negative/>255/bool/numeric and non-numeric strings incl. '2.7', '1e2', "
        "'1_0'/floats incl. nan, inf, -0.5/sequences/objects; exceptions: RuntimeError, ValueError, library error, KeyboardInterrupt, exceptions with a 'code' "
        "attribute, chained causes (explicit and implicit), OSError, SyntaxError, a sixty-frame traceback, an exception whose __str__ raises, 10 messages incl. multi-line, non-ASCII, opening/closing/unbalanced style tags, raised from a "
        "source file, from exec'd source-less code, from a file containing markup) x verbosity {normal,-v,-vv,-vvv} x 8 pre-handle "
        "listener set-ups (pass / handle / handle+stop / fail) x exception catching on; x 16 command lines of a "
        "DefaultApplicationConfig application 'go [target] [--num INT] [-f]' with sub-command 'go deep [extra]' and a second command "
        "'other' (arguments and options on the line, the sub-command, the other command, unknown command, unknown option, too many "
        "arguments, a value of the wrong type, -q, '--' tails) x an io factory that raises x a resolver of one's own that hands a "
        "rewritten line to the default resolver or raises; every handler records its command and the arguments / options it was "
        "given (compared with the model's resolver + parser and, in the oracle, with Command.parse on a second application); the "
        "printed report must contain the message; non-trivial = distinct (outcome kind, exception shape, listener behaviour, line, "
        "failing step); distinct by the whole case")
TRUSTED = ["the report renderer is the trace model of C20 (Proofs/RunTraceLemmas.v composes it with the run model); Run.exn carries only the "
           "two flags the run logic reads - class name, message, frames and solutions of the exception are universally quantified inputs"]
ASSUMPTIONS = ["SystemExit / GeneratorExit are outside the quantifier; KeyboardInterrupt maps to status 1 without a report by design",
               "with -q / --quiet on the line the report is rendered to a quiet io and nothing is printed (the switch's meaning, C09): "
               "'printed error report' is demanded of the runs whose io is not quiet; a failing io factory is reported on the "
               "preliminary io, which no switch silences",
               "lines carrying a help or version switch are C09's; the lines here have none",
               "terminate_after_run is off (with it on, run() ends in sys.exit(status) by design); of an exception whose __str__ itself "
               "raises only the report is demanded, not a message in it; non-ASCII decimal digits in a returned string "
               "(int() accepts them, Model/Conv.v int_of_str does not) are not generated"]

RETS = [None, False, 0, -3, 300, True, "12", " 7 ", "abc", "", 2.7, 0.3, 0.0, "nan", "inf", [], [0], "OBJ", 255, 256, 1, -1, "0", "-0",
        "2.7", "1e2", -0.5, "1_0", "+5"]
MSGS = ["boom", "two\nlines", "naïve é λ", "<error>open", "close</error>", "</b>", "<b>bold</b> and <c1>x</c1>", "a < b > c",
        "trailing backslash \\", "<fg=red>x</>"]
EXCS = ["RuntimeError", "ValueError", "Lib", "KeyboardInterrupt", "CodeInt", "CodeNone", "CodeStr", "Chained", "TypeError", "AttributeError",
        "Context", "OSError", "SyntaxError", "Deep", "BadStr"]
ORIGINS = ["file", "exec", "markupfile"]
LISTENERS = [[], [[0]], [[1, 0, 0]], [[1, 5, 1]], [[2, "RuntimeError"]], [[0], [1, "abc", 0]], [[1, None, 0], [0]], [[2, "Lib"]],
             [[2, "KeyboardInterrupt"]]]


# ---------------------------------------------------------------- the application and its command lines
GO = T.cmd("go", args=[G.arg("target", G.A_OPT, "dflt")],
           opts=[G.opt("num", "u", G.REQ_V | G.O_INT, None), G.opt("flag", "f", G.NO_VALUE)],
           subs=[T.cmd("deep", args=[G.arg("extra", G.A_OPT, None)])])
OTHER = T.cmd("other")
TREE = {"opts": list(C09.GLOBAL_OPTS), "args": [], "cmds": [C09.HELP_CMD, GO, OTHER]}
# (tokens, name path of the command the line selects - None: the line does not resolve)
LINES = [(["go"], ["go"]),
         (["go", "tgt"], ["go"]),
         (["go", "tgt", "--num", "5"], ["go"]),
         (["go", "--num=7", "-f", "tgt"], ["go"]),
         (["go", "deep", "a", "b"], ["go", "deep"]),
         (["other"], ["other"]),
         (["nosuch"], None),
         (["go", "--nosuch"], None),
         (["go", "x", "y"], None),
         (["go", "--num=abc"], None),
         (["go", "-q"], ["go"]),
         (["go", "tgt", "-u", "3", "--quiet"], ["go"]),
         (["nosuch", "-q"], None),
         (["go", "-fu", "9", "--", "-q"], ["go"]),
         (["go", "deep", "--flag", "--", "--num"], ["go", "deep"]),
         (["other", "x"], None)]
VERB = ["", "-v", "-vv", "-vvv"]
IOFAIL = ["RuntimeError", "Lib", "KeyboardInterrupt"]
EARLY_MSG = "early <b>failure</b>\nsecond line"


def tokens(c):
    """the line run() is given: the verbosity switch as the last option token (before a '--'; -v takes an optional value and
    would swallow an argument standing behind it); under the rewriting resolver a leading 'wrap' token, which that resolver
    strips"""
    toks = list(LINES[c.get("line", 0)][0])
    if c["verb"]:
        toks.insert(toks.index("--") if "--" in toks else len(toks), VERB[c["verb"]])
    if c.get("rs") == ["wrap"]:
        toks = ["wrap"] + toks
    return toks


def delegate_tokens(c):
    return tokens(c)[1:]


def gen(rng, tier, info):
    cases = []
    for v in range(4):
        for li, ls in enumerate(LISTENERS):
            for r in range(len(RETS)):
                cases.append({"verb": v, "ls": li, "out": ["ret", r]})
            for e in EXCS:
                for mi in range(len(MSGS)):
                    for o in ORIGINS:
                        if tier == "quick" and li not in (0, 1, 3) and (mi % 3 or o != "file"):
                            continue
                        cases.append({"verb": v, "ls": li, "out": ["raise", e, mi, o]})
    # the same outcomes through a callback handler (CallbackHandler), for the first listener set-ups
    extra = []
    for cse in cases:
        if cse["ls"] in (0, 1) and cse["verb"] in (0, 3) and (cse["out"][0] == "ret" or (cse["out"][3] == "file" and cse["out"][2] % 3 == 0)):
            d = dict(cse)
            d["hk"] = "callback"
            extra.append(d)
    cases.extend(extra)
    # the other command lines; failing io factories; resolvers of one's own
    quick = tier != "thorough"
    outs = [["ret", r] for r in ((0, 2, 4, 6, 8, 17, 24, 26) if quick else range(len(RETS)))]
    outs += [["raise", e, mi, "file"] for e, mi in ((("RuntimeError", 0), ("Lib", 5), ("Lib", 1), ("KeyboardInterrupt", 0), ("ValueError", 6)) if quick
                                                   else [(e, mi) for e in EXCS for mi in (0, 1, 5, 6)])]
    lss = (0, 1, 3, 4) if quick else range(len(LISTENERS))
    lines = []
    for li in lss:
        for v in ((0, 3) if quick else range(4)):
            for o in outs:
                for ln in range(1, len(LINES)):
                    lines.append({"verb": v, "ls": li, "out": o, "line": ln})
                for ln in (0, 2, 4, 6, 10, 13):
                    lines.append({"verb": v, "ls": li, "out": o, "line": ln, "rs": ["wrap"]})
    early = []
    for v in (0, 3):
        for o in outs[:3] + outs[-5:-3]:
            for ln in (0, 2, 6, 8, 10, 12):
                for li in (0, 3):
                    for e in IOFAIL:
                        early.append({"verb": v, "ls": li, "out": o, "line": ln, "io": e})
                        early.append({"verb": v, "ls": li, "out": o, "line": ln, "rs": ["raise", e]})
                    early.append({"verb": v, "ls": li, "out": o, "line": ln, "io": "Lib", "rs": ["raise", "RuntimeError"]})
    cases.extend(lines)
    cases.extend(early)
    info["exhaustive"] = tier != "quick"
    info["distribution"] = {"returns": len(RETS), "exceptions": len(EXCS), "messages": len(MSGS), "origins": len(ORIGINS),
                            "listener_setups": len(LISTENERS), "lines": len(LINES), "cases_on_other_lines": len(lines),
                            "failing_io_factory_or_resolver": len(early), "cases": len(cases)}
    return cases


def wire_ret(v):
    if v is None:
        return [0]
    if isinstance(v, bool):
        return [1, int(v)]
    if isinstance(v, int):
        return [2, v]
    if v == "nan":
        return [4, 1, []]
    if v == "inf":
        return [4, 1, []]
    if isinstance(v, str) and v == "OBJ":
        return [6]
    if isinstance(v, str):
        return [3, S(v)]
    if isinstance(v, float):
        return [4, int(v != 0.0), [int(v)]]
    if isinstance(v, list):
        return [5, int(bool(v))]
    raise ValueError(v)


def wire_exn(name):
    return [int(name == "KeyboardInterrupt"), int(name == "Lib")]


def wire(c):
    ls = []
    for l in LISTENERS[c["ls"]]:
        if l[0] == 0:
            ls.append([0])
        elif l[0] == 1:
            ls.append([1, wire_ret(l[1]), l[2]])
        else:
            ls.append([2, wire_exn(l[1])])
    o = c["out"]
    out = [0, wire_ret(RETS[o[1]])] if o[0] == "ret" else [1, wire_exn(o[1])]
    rs = c.get("rs")
    rv = [0] if rs is None else [1, [S(t) for t in delegate_tokens(c)]] if rs == ["wrap"] else [2, wire_exn(rs[1])]
    iof = [] if c.get("io") is None else [wire_exn(c["io"])]
    return [1, T.wire_app(TREE), [S(t) for t in tokens(c)], iof, rv, ls, out]


def describe(c):
    o = c["out"]
    what = ("handler returns %r" % (RETS[o[1]],)) if o[0] == "ret" else ("handler raises %s(%r) from %s" % (o[1], MSGS[o[2]], o[3]))
    more = ""
    if c.get("io"):
        more += "; the io factory raises %s" % c["io"]
    if c.get("rs"):
        more += "; resolver: %s" % ("strips the leading token and hands the rest to the default resolver" if c["rs"] == ["wrap"] else "raises " + c["rs"][1])
    return "line %r: %s%s; pre-handle listeners %r%s" % (tokens(c), what, " (callback handler)" if c.get("hk") == "callback" else "", LISTENERS[c["ls"]], more)


_TMP = {}


def _py_ret(v):
    if v == "nan":
        return float("nan")
    if v == "inf":
        return float("inf")
    if v == "OBJ":
        return object()
    return v


def _mk_exc(name, msg):
    from clikit.api.exceptions import CliKitException
    if name == "RuntimeError":
        return RuntimeError(msg)
    if name == "ValueError":
        return ValueError(msg)
    if name == "TypeError":
        return TypeError(msg)
    if name == "AttributeError":
        return AttributeError(msg)
    if name == "Lib":
        class LibError(CliKitException):
            pass
        return LibError(msg)
    if name == "KeyboardInterrupt":
        return KeyboardInterrupt(msg)
    if name.startswith("Code"):
        e = RuntimeError(msg)
        e.code = {"CodeInt": 3, "CodeNone": None, "CodeStr": "x"}[name]
        return e
    if name == "Context":
        # an implicit __context__: raised while another exception was being handled
        try:
            try:
                raise KeyError("inner </error>")
            except KeyError:
                raise RuntimeError(msg)
        except RuntimeError as e:
            return e
    if name == "BadStr":
        # an exception whose __str__ raises: there is no message to show, the report must appear all the same (fix 4e70bc4)
        class BadStr(Exception):
            def __str__(self):
                raise RuntimeError("no message")
        return BadStr(msg)
    if name == "OSError":
        return OSError(2, msg, "/no/such <b>file")
    if name == "SyntaxError":
        return SyntaxError(msg, ("some <file>.py", 3, 7, "x = (</b>\n"))
    if name == "Deep":
        # raised sixty frames down
        def down(n):
            if n == 0:
                raise RuntimeError(msg)
            down(n - 1)
        try:
            down(60)
        except RuntimeError as e:
            return e
    if name == "Chained":
        try:
            try:
                raise KeyError("inner <b>")
            except KeyError as inner:
                raise RuntimeError(msg) from inner
        except RuntimeError as e:
            return e
    raise ValueError(name)


def _raiser(origin):
    """a function raise_it(exc) whose code lives in a file, in source-less exec'd code, or in a file with markup"""
    if origin == "file":
        def raise_it(e):
            raise e
        return raise_it
    if origin == "exec":
        ns = {}
        exec(compile("def raise_it(e):\n    raise e\n", "<no-such-file>", "exec"), ns)
        return ns["raise_it"]
    if "markup" not in _TMP:
        import tempfile, atexit, shutil, importlib.util, os
        d = tempfile.mkdtemp(prefix="clikit-verif-c04-", dir="/var/tmp")
        atexit.register(shutil.rmtree, d, True)
        p = os.path.join(d, "markup_mod.py")
        with open(p, "w") as f:
            f.write('# </error> <b>unbalanced markup in a comment\nTEXT = "<fg=red>x</error>"\n\n\ndef raise_it(e):\n'
                    '    s = "</b> closing tag in the failing line"; raise e\n')
        spec = importlib.util.spec_from_file_location("markup_mod", p)
        m = importlib.util.module_from_spec(spec)
        spec.loader.exec_module(m)
        _TMP["markup"] = m.raise_it
    return _TMP["markup"]


def _mk_app(c, calls, catch=True):
    """a DefaultApplicationConfig application for TREE; every command's handler records (command path, what the handler was
    given) and then behaves as the case says.  Built with sys.stdout / sys.stderr swapped: the preliminary io of the
    application (where a failure of the io factory is reported) writes to the streams it finds at construction."""
    from clikit.config import DefaultApplicationConfig
    from clikit import ConsoleApplication
    from clikit.api.event import PRE_HANDLE
    from clikit.resolver.default_resolver import DefaultResolver
    from clikit.args import ArgvArgs
    o = c["out"]
    ref = {}

    class Handler(object):
        def handle(self, args, io, command):
            if command is None:
                command = ref["app"].get_command("go")        # a callback is not told its command
            calls.append([[S(p) for p in command.full_name.split(" ")], G.observe_args(command.args_format, args, [])])
            if o[0] == "ret":
                return _py_ret(RETS[o[1]])
            _raiser(o[3])(_mk_exc(o[1], MSGS[o[2]]))

    def handler(cmd):
        h = Handler()
        if c.get("hk") == "callback" and cmd["name"] == "go":
            # the handler is a plain callable (CallbackHandler); it tolerates a third parameter, as callbacks may
            from clikit.handler.callback_handler import CallbackHandler
            return CallbackHandler(lambda args, io, command=None: h.handle(args, io, command))
        return h

    config = DefaultApplicationConfig("app", "1.0")
    config.set_terminate_after_run(False)
    T.mk_config({"opts": [], "args": [], "cmds": [x for x in TREE["cmds"] if x["name"] != "help"]}, config, handler)
    config.set_catch_exceptions(catch)
    prio = 100
    for l in LISTENERS[c["ls"]]:
        def mk(l):
            def listener(event, name, dispatcher):
                if l[0] == 1:
                    event.handled(True)
                    event.set_status_code(_py_ret(l[1]))
                    if l[2]:
                        event.stop_propagation()
                elif l[0] == 2:
                    raise _mk_exc(l[1], "listener failed")
            return listener
        config.add_event_listener(PRE_HANDLE, mk(l), prio)
        prio -= 1
    if c.get("io"):
        def factory(*a):
            raise _mk_exc(c["io"], EARLY_MSG)
        config.set_io_factory(factory)
    rs = c.get("rs")
    if rs == ["wrap"]:
        class Rewriting(DefaultResolver):
            """strips the first token and lets the default resolution work on NEW raw arguments"""
            def resolve(self, args, application):
                return super(Rewriting, self).resolve(ArgvArgs(["script"] + list(args.tokens[1:])), application)
        config.set_command_resolver(Rewriting())
    elif rs:
        class Raising(DefaultResolver):
            def resolve(self, args, application):
                raise _mk_exc(rs[1], EARLY_MSG)
        config.set_command_resolver(Raising())
    ref["app"] = ConsoleApplication(config)
    return ref["app"]


def _expected(c):
    """what the property text lets one expect of the line, computed WITHOUT run(): the command at the line's name path of
    a second application parses the tokens the resolver works on (Command.parse, the command's own leniency)
    -> [path, observation of the args] or ["!", message of the exception]"""
    from clikit.args import ArgvArgs
    toks = delegate_tokens(c) if c.get("rs") == ["wrap"] else tokens(c)
    path = LINES[c.get("line", 0)][1]
    app = _mk_app(dict(c, io=None, rs=None), [], False)
    raw = ArgvArgs(["script"] + toks)
    if path is None:
        try:
            app.resolve_command(raw)
        except Exception as e:
            return ["!", str(e)]
        return ["!", None]
    cmd = app.get_command(path[0])
    for n in path[1:]:
        cmd = cmd.get_sub_command(n)
    try:
        a = cmd.parse(raw)
    except Exception as e:
        return ["!", str(e)]
    return [[S(p) for p in path], G.observe_args(cmd.args_format, a, [])]


def run_impl(c):
    import sys, io as _io
    from clikit.args import ArgvArgs
    from clikit.io.output_stream import BufferedOutputStream
    from clikit.io.input_stream import StringInputStream
    calls = []
    so, se = sys.stdout, sys.stderr
    pre_out, pre_err = _io.StringIO(), _io.StringIO()
    out, errs = BufferedOutputStream(), BufferedOutputStream()
    sys.stdout, sys.stderr = pre_out, pre_err
    try:
        app = _mk_app(c, calls)
        toks = tokens(c)
        try:
            st = app.run(ArgvArgs(["script"] + toks), StringInputStream(""), out, errs)
            end = [0, st] if (isinstance(st, int) and not isinstance(st, bool)) else [9, S(repr(st))]
        except BaseException as e:
            from clikit.api.exceptions import CliKitException
            end = [1, int(isinstance(e, CliKitException)), S(type(e).__name__)]
    finally:
        sys.stdout, sys.stderr = so, se
    text = out.fetch() + errs.fetch() + pre_out.getvalue() + pre_err.getvalue()
    return [end, calls, int(bool(text)), {"text": text, "exp": _expected(c)}]


def canon_impl(c, o):
    end = o[0][:2] if o[0][0] == 1 else o[0]
    return [end, o[1], o[2]]


def canon_model_w(c, w):
    from hutil import from_wire, to_wire
    m = from_wire(w)
    return to_wire(m[:3])


def _failing_step(c):
    """the exception the try block of run() meets before any handler could run: (class name, message) or None"""
    if c.get("io"):
        return c["io"], EARLY_MSG
    if c.get("rs") and c["rs"] != ["wrap"]:
        return c["rs"][1], EARLY_MSG
    return None


def _shows(text, msg):
    """every line of the message stands in the report as it is (markup is shown, not interpreted)"""
    return all(l.strip() in text for l in msg.split("\n"))


def oracle(c, o):
    end, calls, printed, facts = o
    text, exp = facts["text"], facts["exp"]
    toks = tokens(c)
    quiet = any(t in ("-q", "--quiet") for t in itertools.takewhile(lambda t: t != "--", toks))
    if end[0] == 1:
        return "exception-escapes-run:" + unS(end[2])
    if end[0] != 0 or not (0 <= end[1] <= 255):
        return "status-not-in-0..255"
    early = _failing_step(c)
    if early is None and exp[0] == "!":
        early = ("Lib", exp[1])                    # the line does not resolve / parse: a library error with this message
        if exp[1] is None:
            return "harness:line-expected-to-fail-resolves"
    if early is not None:
        # io creation or resolution fails: no handler at all, non-zero status, the report with the message
        if calls:
            return "handler-ran-although-resolution-or-io-creation-failed"
        if end[1] == 0:
            return "exception-gives-zero-status"
        if early[0] != "KeyboardInterrupt" and (c.get("io") or not quiet):
            if not printed:
                return "exception-without-error-report"
            if not _shows(text, early[1]):
                return "error-report-without-the-message"
        return None
    ls = LISTENERS[c["ls"]]
    handled = any(l[0] == 1 for l in ls)
    lfail = [l for l in ls if l[0] == 2]
    # listeners run in order: a failing listener before a stopping handler wins, etc. (only simple set-ups are generated)
    out = c["out"]
    if not handled and not lfail:
        if len(calls) != 1:
            return "another-handler-ran" if any(x[0] != exp[0] for x in calls) else "handler-not-invoked-exactly-once"
        if calls[0][0] != exp[0]:
            return "another-handler-ran"
        if calls[0][1] != exp[1]:
            return "handler-not-given-the-arguments-parsed-for-the-command"
        if out[0] == "ret":
            v = _py_ret(RETS[out[1]])
            if not v:
                if end[1] != 0:
                    return "falsy-result-gives-nonzero-status"
            else:
                if end[1] == 0:
                    return "truthy-result-gives-zero-status"
                try:
                    exp_st = min(max(int(v), 1), 255)
                    if end[1] != exp_st or printed:
                        return "status-not-the-clamped-result"
                except Exception:
                    if end[1] != 1 or not (printed or quiet):
                        return "unconvertible-result-not-reported"
        else:
            if end[1] == 0:
                return "exception-gives-zero-status"
            if out[1] != "KeyboardInterrupt" and not quiet:
                if not printed:
                    return "exception-without-error-report"
                if out[1] != "BadStr" and not _shows(text, MSGS[out[2]]):
                    return "error-report-without-the-message"
    else:
        if calls:
            return "handler-ran-although-event-was-handled-or-listener-failed"
        if lfail and not handled and lfail[0][1] != "KeyboardInterrupt" and not quiet:
            if end[1] == 0:
                return "exception-gives-zero-status"
            if not printed:
                return "exception-without-error-report"
            if not _shows(text, "listener failed"):
                return "error-report-without-the-message"
    return None


def nontrivial_key(c, o):
    out = c["out"]
    return [out[0], out[1] if out[0] == "raise" else repr(RETS[out[1]]), out[3] if out[0] == "raise" else "", c["ls"],
            c.get("line", 0), c.get("io"), c.get("rs")]
