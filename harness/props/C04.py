"""C04 - a run always ends in a valid exit status and never leaks a handler failure."""
import itertools, math
from hutil import S, unS

MODEL = "C04"
PROP_FILES = ["Props/C04.v"]
RULE = ("handler outcome (23 return values: None/False/0/negative/>255/bool/numeric and non-numeric strings/floats incl. nan, inf/"
        "sequences/objects; exceptions: RuntimeError, ValueError, library error, KeyboardInterrupt, exceptions with a 'code' "
        "attribute, chained causes, 10 messages incl. multi-line, non-ASCII, opening/closing/unbalanced style tags, raised from a "
        "source file, from exec'd source-less code, from a file containing markup) x verbosity {normal,-v,-vv,-vvv} x 8 pre-handle "
        "listener set-ups (pass / handle / handle+stop / fail) x exception catching on; non-trivial = distinct (outcome kind, "
        "exception shape, listener behaviour); distinct by the whole case")
TRUSTED = ["the report renderer is the trace model of C20 (Proofs/RunTraceLemmas.v composes it with the run model); Run.exn carries only the "
           "two flags the run logic reads - class name, message, frames and solutions of the exception are universally quantified inputs"]
ASSUMPTIONS = ["SystemExit / GeneratorExit are outside the quantifier; KeyboardInterrupt maps to status 1 without a report by design"]

RETS = [None, False, 0, -3, 300, True, "12", " 7 ", "abc", "", 2.7, 0.3, 0.0, "nan", "inf", [], [0], "OBJ", 255, 256, 1, -1, "0", "-0"]
MSGS = ["boom", "two\nlines", "naïve é λ", "<error>open", "close</error>", "</b>", "<b>bold</b> and <c1>x</c1>", "a < b > c",
        "trailing backslash \\", "<fg=red>x</>"]
EXCS = ["RuntimeError", "ValueError", "Lib", "KeyboardInterrupt", "CodeInt", "CodeNone", "CodeStr", "Chained", "TypeError", "AttributeError"]
ORIGINS = ["file", "exec", "markupfile"]
LISTENERS = [[], [[0]], [[1, 0, 0]], [[1, 5, 1]], [[2, "RuntimeError"]], [[0], [1, "abc", 0]], [[1, None, 0], [0]], [[2, "Lib"]],
             [[2, "KeyboardInterrupt"]]]


def gen(rng, tier, info):
    cases = []
    for v in range(4):
        for li, ls in enumerate(LISTENERS):
            for r in range(len(RETS)):
                cases.append({"verb": v, "ls": li, "out": ["ret", r]})
            for e in EXCS:
                for mi in range(len(MSGS)):
                    for o in ORIGINS:
                        if tier == "quick" and li not in (0, 1, 3) and (mi % 3 or o != "file"):
                            continue
                        cases.append({"verb": v, "ls": li, "out": ["raise", e, mi, o]})
    # the same outcomes through a callback handler (CallbackHandler), for the first listener set-ups
    extra = []
    for cse in cases:
        if cse["ls"] in (0, 1) and cse["verb"] in (0, 3) and (cse["out"][0] == "ret" or (cse["out"][3] == "file" and cse["out"][2] % 3 == 0)):
            d = dict(cse)
            d["hk"] = "callback"
            extra.append(d)
    cases.extend(extra)
    info["exhaustive"] = tier != "quick"
    info["distribution"] = {"returns": len(RETS), "exceptions": len(EXCS), "messages": len(MSGS), "origins": len(ORIGINS),
                            "listener_setups": len(LISTENERS), "cases": len(cases)}
    return cases


def wire_ret(v):
    if v is None:
        return [0]
    if isinstance(v, bool):
        return [1, int(v)]
    if isinstance(v, int):
        return [2, v]
    if v == "nan":
        return [4, 1, []]
    if v == "inf":
        return [4, 1, []]
    if isinstance(v, str) and v == "OBJ":
        return [6]
    if isinstance(v, str):
        return [3, S(v)]
    if isinstance(v, float):
        return [4, int(v != 0.0), [int(v)]]
    if isinstance(v, list):
        return [5, int(bool(v))]
    raise ValueError(v)


def wire_exn(name):
    return [int(name == "KeyboardInterrupt"), int(name == "Lib")]


def wire(c):
    ls = []
    for l in LISTENERS[c["ls"]]:
        if l[0] == 0:
            ls.append([0])
        elif l[0] == 1:
            ls.append([1, wire_ret(l[1]), l[2]])
        else:
            ls.append([2, wire_exn(l[1])])
    o = c["out"]
    out = [0, wire_ret(RETS[o[1]])] if o[0] == "ret" else [1, wire_exn(o[1])]
    return [1, int(c["verb"] == 3), ls, out]


def describe(c):
    o = c["out"]
    what = ("handler returns %r" % (RETS[o[1]],)) if o[0] == "ret" else ("handler raises %s(%r) from %s" % (o[1], MSGS[o[2]], o[3]))
    return "%s%s; verbosity %s; pre-handle listeners %r" % (what, " (callback handler)" if c.get("hk") == "callback" else "", ["normal", "-v", "-vv", "-vvv"][c["verb"]], LISTENERS[c["ls"]])


_TMP = {}


def _py_ret(v):
    if v == "nan":
        return float("nan")
    if v == "inf":
        return float("inf")
    if v == "OBJ":
        return object()
    return v


def _mk_exc(name, msg):
    from clikit.api.exceptions import CliKitException
    if name == "RuntimeError":
        return RuntimeError(msg)
    if name == "ValueError":
        return ValueError(msg)
    if name == "TypeError":
        return TypeError(msg)
    if name == "AttributeError":
        return AttributeError(msg)
    if name == "Lib":
        class LibError(CliKitException):
            pass
        return LibError(msg)
    if name == "KeyboardInterrupt":
        return KeyboardInterrupt(msg)
    if name.startswith("Code"):
        e = RuntimeError(msg)
        e.code = {"CodeInt": 3, "CodeNone": None, "CodeStr": "x"}[name]
        return e
    if name == "Chained":
        try:
            try:
                raise KeyError("inner <b>")
            except KeyError as inner:
                raise RuntimeError(msg) from inner
        except RuntimeError as e:
            return e
    raise ValueError(name)


def _raiser(origin):
    """a function raise_it(exc) whose code lives in a file, in source-less exec'd code, or in a file with markup"""
    if origin == "file":
        def raise_it(e):
            raise e
        return raise_it
    if origin == "exec":
        ns = {}
        exec(compile("def raise_it(e):\n    raise e\n", "<no-such-file>", "exec"), ns)
        return ns["raise_it"]
    if "markup" not in _TMP:
        import tempfile, atexit, shutil, importlib.util, os
        d = tempfile.mkdtemp(prefix="clikit-verif-c04-", dir="/var/tmp")
        atexit.register(shutil.rmtree, d, True)
        p = os.path.join(d, "markup_mod.py")
        with open(p, "w") as f:
            f.write('# </error> <b>unbalanced markup in a comment\nTEXT = "<fg=red>x</error>"\n\n\ndef raise_it(e):\n'
                    '    s = "</b> closing tag in the failing line"; raise e\n')
        spec = importlib.util.spec_from_file_location("markup_mod", p)
        m = importlib.util.module_from_spec(spec)
        spec.loader.exec_module(m)
        _TMP["markup"] = m.raise_it
    return _TMP["markup"]


def run_impl(c):
    from clikit.config import DefaultApplicationConfig
    from clikit import ConsoleApplication
    from clikit.args import ArgvArgs
    from clikit.api.event import PRE_HANDLE
    from clikit.io.output_stream import BufferedOutputStream
    from clikit.io.input_stream import StringInputStream
    calls = []
    o = c["out"]

    class Handler(object):
        def handle(self, args, io, command):
            calls.append(1)
            if o[0] == "ret":
                return _py_ret(RETS[o[1]])
            _raiser(o[3])(_mk_exc(o[1], MSGS[o[2]]))

    config = DefaultApplicationConfig("app", "1.0")
    config.set_terminate_after_run(False)
    config.set_catch_exceptions(True)
    h = Handler()
    if c.get("hk") == "callback":
        # the handler is a plain callable (CallbackHandler); it tolerates a third parameter, as callbacks may
        from clikit.handler.callback_handler import CallbackHandler
        g_handler = CallbackHandler(lambda args, io, command=None: h.handle(args, io, command))
    else:
        g_handler = h
    with config.command("go") as g:
        g.set_handler(g_handler)
    with config.command("other") as g2:
        g2.set_handler(type("H2", (), {"handle": lambda self, a, i, cmd: calls.append(2)})())
    prio = 100
    for l in LISTENERS[c["ls"]]:
        def mk(l):
            def listener(event, name, dispatcher):
                if l[0] == 1:
                    event.handled(True)
                    event.set_status_code(_py_ret(l[1]))
                    if l[2]:
                        event.stop_propagation()
                elif l[0] == 2:
                    raise _mk_exc(l[1], "listener failed")
            return listener
        config.add_event_listener(PRE_HANDLE, mk(l), prio)
        prio -= 1
    app = ConsoleApplication(config)
    out, errs = BufferedOutputStream(), BufferedOutputStream()
    toks = ["go"] + ([["", "-v", "-vv", "-vvv"][c["verb"]]] if c["verb"] else [])
    try:
        st = app.run(ArgvArgs(["script"] + toks), StringInputStream(""), out, errs)
        end = [0, st] if (isinstance(st, int) and not isinstance(st, bool)) else [9, S(repr(st))]
    except BaseException as e:
        from clikit.api.exceptions import CliKitException
        end = [1, int(isinstance(e, CliKitException)), S(type(e).__name__)]
    reported = bool(out.fetch() or errs.fetch())
    return [end, len([x for x in calls if x == 1]), int(reported), len([x for x in calls if x == 2])]


def canon_impl(c, o):
    end = o[0][:2] if o[0][0] == 1 else o[0]
    return [end, o[1], o[2]]


def canon_model_w(c, w):
    from hutil import from_wire, to_wire
    m = from_wire(w)
    return to_wire(m[:3])


def oracle(c, o):
    end, calls, reported, other = o
    if other:
        return "another-handler-ran"
    if end[0] == 1:
        return "exception-escapes-run:" + unS(end[2])
    if end[0] != 0 or not (0 <= end[1] <= 255):
        return "status-not-in-0..255"
    ls = LISTENERS[c["ls"]]
    handled = any(l[0] == 1 for l in ls)
    lfail = [l for l in ls if l[0] == 2]
    # listeners run in order: a failing listener before a stopping handler wins, etc. (only simple set-ups are generated)
    out = c["out"]
    if not handled and not lfail:
        if calls != 1:
            return "handler-not-invoked-exactly-once"
        if out[0] == "ret":
            v = _py_ret(RETS[out[1]])
            if not v:
                if end[1] != 0:
                    return "falsy-result-gives-nonzero-status"
            else:
                if end[1] == 0:
                    return "truthy-result-gives-zero-status"
                try:
                    exp = min(max(int(v), 1), 255)
                    if end[1] != exp or reported:
                        return "status-not-the-clamped-result"
                except Exception:
                    if end[1] != 1 or not reported:
                        return "unconvertible-result-not-reported"
        else:
            if end[1] == 0:
                return "exception-gives-zero-status"
            if out[1] != "KeyboardInterrupt" and not reported:
                return "exception-without-error-report"
    else:
        if calls != 0:
            return "handler-ran-although-event-was-handled-or-listener-failed"
    return None


def nontrivial_key(c, o):
    out = c["out"]
    return [out[0], out[1] if out[0] == "raise" else repr(RETS[out[1]]), out[3] if out[0] == "raise" else "", c["ls"]]
