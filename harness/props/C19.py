"""C19 - the automatic progress indicator is well-behaved under every interleaving.

Case kinds:
  k=0  automatic mode, COARSE schedule (yield points: stream writes, sleeps, thread start, join), default values / format /
       interval: the domain of Model/Spinner.v (entry run_C19) and of its theorems;
  k=2  automatic mode, FINE schedule (additionally every operation on the stop event and every access to the fields the two
       threads share: _auto_thread, _message, _current, _started, _update_time), indicator value lists of length 2 / 4 / 5,
       two formats, interval 100 / 250: Model/Spinner2.v (entry run_C19F);
  k=1  manual mode (start / advance / set_message / finish under a virtual clock), default parameters: Model/Spinner.v;
  k=3  manual mode with the parameters of k=2: Model/Spinner2.v.
Bodies raise RuntimeError, KeyboardInterrupt, SystemExit and GeneratorExit.
"""
import itertools, re
from hutil import S, unS
import termemu

MODEL = "C19"
MODEL_ENTRY = "run_C19F"        # the driver's entry for C19 (Model/Spinner2.v); kinds 0 and 1 fall through to run_C19 (Model/Spinner.v)
PROP_FILES = ["Props/C19.v"]
CASE_TIMEOUT = 30
RULE = ("automatic mode, coarse: every schedule (which thread runs next) of length <= 6 (quick) / 8 (thorough) at the granularity of stream "
        "writes, sleeps, thread start and join, for 15 bodies (set_message while spinning, work, raising RuntimeError / KeyboardInterrupt / "
        "SystemExit / GeneratorExit at different points), then random schedules up to length 40; automatic mode, fine (every operation on "
        "the stop event and every read / write of _auto_thread, _message, _current, _started, _update_time is a scheduling point): enumeration "
        "up to a preemption bound - schedules 'caller a steps, spinner b steps, caller c steps, spinner d steps, then the caller whenever it "
        "can run': ALL (a, b) with c = d = 0 for a over the caller's whole program and b over one and a half rounds of the spinner's loop, "
        "and a grid of (a, b, c, d) (quick: every second a and c, b in {1,3,9,12}, d in {2,3,12}; thorough: every a and c, every second b, "
        "d in {1,2,3,5,8,12}) - for the same bodies x "
        "indicator value lists of length 2 / 4 / 5 x two formats x interval 100 / 250, then random schedules up to length 120; the two real "
        "threads of the implementation are driven by a deterministic scheduler on a virtual clock; manual mode: call sequences of advance / "
        "set_message / finish with clock steps {0,40,100,250} ms, default and varied parameters; "
        "non-trivial = a schedule in which both threads write; distinct by (body, parameters, write log)")
TRUSTED = ["harness/sched.py: the scheduler that serialises the implementation's two threads; the yield points are patched in from outside "
           "(threading / time as seen by clikit.ui.components.progress_indicator, the output stream, a subclass of ProgressIndicator whose "
           "__getattribute__ / __setattr__ stop at the five shared fields); preemption inside one of those operations (one bytecode under the "
           "interpreter lock, one stream write) does not exist in CPython; accesses to OTHER attributes (_io, _fmt, _values, _interval: "
           "never written after construction) are not scheduling points"]
ASSUMPTIONS = ["ANSI output at normal verbosity; formats made of literal text, {indicator} and {message}; the clock moves only in time.sleep",
               "a spinner frame written after the caller's line break on the exceptional exit is allowed (the statement speaks of the last "
               "frame for the normal exit only)"]

R = ["raise"]
BODIES = [
    [], [["set", "m1"]], [["work", 150]], [["set", "m1"], ["work", 150], ["set", "m2"]], [R], [["set", "m1"], R],
    [["work", 250], R], [["work", 120], ["set", "longer message"], ["work", 120]], [["set", "a"], ["set", "b"], ["set", "c"]],
    [["raise", "KeyboardInterrupt"]], [["raise", "SystemExit"]], [["raise", "GeneratorExit"]],
    [["work", 150], ["raise", "SystemExit"]], [["set", "m1"], ["work", 250], ["raise", "KeyboardInterrupt"]], [["work", 300], ["set", "late"]],
]
VALUES = [None, ["a", "b"], ["1", "2", "3", "4", "5"]]
DEFAULT_VALUES = ["-", "\\", "|", "/"]
FORMATS = [None, "{message} ({indicator})"]
DEFAULT_FORMAT = " {indicator} {message}"
INTERVALS = [100, 250]
T0 = 5000000


def _pieces(fmt):
    """the format as the implementation reads it (re.sub over {name}): literal text, {indicator}, {message}"""
    out, pos = [], 0
    for m in re.finditer(r"(?i){([a-z\-_]+)(?::([^}]+))?}", fmt):
        if m.group(1) in ("indicator", "message"):
            if m.start() > pos:
                out.append([0, fmt[pos:m.start()]])
            out.append([1] if m.group(1) == "indicator" else [2])
            pos = m.end()
    if pos < len(fmt):
        out.append([0, fmt[pos:]])
    return out


def _fill(pieces, ind, msg):
    return "".join(p[1] if p[0] == 0 else (ind if p[0] == 1 else msg) for p in pieces)


def _cfg(c):
    vals = VALUES[c.get("vals", 0)] or DEFAULT_VALUES
    fmt = FORMATS[c.get("fmt", 0)] or DEFAULT_FORMAT
    return vals, _pieces(fmt), c.get("iv", 100)


def _main_steps(body, npl):
    """upper bound of the caller's steps in the fine model: per action, then the exit path"""
    n = 0
    for a in body:
        n += (2 + npl) if a[0] == "set" else 1
        if a[0] == "raise":
            break
    return n + 6


def gen(rng, tier, info):
    depth = {"quick": 6, "thorough": 8, "search": 4}[tier]
    nrand = {"quick": 300, "thorough": 3000, "search": 100}[tier]
    cases = []
    for bi in range(len(BODIES)):
        for k in range(0, depth + 1):
            for sch in itertools.product((0, 1), repeat=k):
                cases.append({"k": 0, "body": bi, "sched": list(sch)})
    n_ex = len(cases)
    for _ in range(nrand):
        cases.append({"k": 0, "body": rng.randrange(len(BODIES)), "sched": [1 if rng.random() < 0.6 else 0 for _ in range(rng.randint(depth + 1, 40))]})
    # ---- fine schedules: complete enumeration up to a preemption bound.  A schedule "caller a, spinner b, caller c, spinner d, then
    # the caller whenever it can run (else the spinner)" has at most 3 forced switches; a and c range over the caller's whole program,
    # b and d over one and a half iterations of the spinner's loop.
    n0 = len(cases)
    stride = {"quick": 1, "thorough": 1, "search": 3}[tier]
    combos = [(v, f, iv) for v in range(len(VALUES)) for f in range(len(FORMATS)) for iv in INTERVALS]
    for bi, body in enumerate(BODIES):
        m_len = _main_steps(body, 2)
        s_len = 14
        segs = []
        for a in range(0, m_len + 1):
            for b in range(0, s_len + 1):
                segs.append((a, b, 0, 0))
        if tier == "thorough":
            for a in range(0, m_len + 1):
                for b in range(1, s_len + 1, 2):
                    for cc in range(1, m_len - a + 1):
                        for d in (1, 2, 3, 5, 8, 12):
                            segs.append((a, b, cc, d))
        else:
            for a in range(0, m_len + 1, 2):
                for b in (1, 3, 9, 12):
                    for cc in range(1, m_len - a + 1, 2):
                        for d in (2, 3, 12):
                            segs.append((a, b, cc, d))
        for i, (a, b, cc, d) in enumerate(segs[::stride]):
            v, f, iv = combos[(i + bi) % len(combos)]
            cases.append({"k": 2, "body": bi, "sched": [0] * a + [1] * b + [0] * cc + [1] * d, "vals": v, "fmt": f, "iv": iv})
    n_fine = len(cases) - n0
    n_frand = {"quick": 1500, "thorough": 20000, "search": 300}[tier]
    for _ in range(n_frand):
        p = rng.choice([0.3, 0.5, 0.7])
        v, f, iv = rng.choice(combos)
        cases.append({"k": 2, "body": rng.randrange(len(BODIES)), "sched": [1 if rng.random() < p else 0 for _ in range(rng.randint(5, 120))],
                      "vals": v, "fmt": f, "iv": iv})
    n1 = len(cases)
    mops = [[0], [1, "x"], [1, "yy"], [2, "done", 1], [2, "done", 0]]
    for k in range(1, {"quick": 4, "thorough": 5, "search": 3}[tier] + 1):
        for seq in itertools.product(range(3), repeat=k):
            for dts in itertools.product((0, 40, 100, 250), repeat=min(k, 2)):
                d = list(dts) + [100] * (k - len(dts))
                for fin in (3, 4):
                    ops = [[dt, mops[i]] for dt, i in zip(d, seq)] + [[40, mops[fin]]]
                    cases.append({"k": 1, "ops": ops})
                    if k <= 3 or tier == "thorough":
                        v, f, iv = combos[(len(cases)) % len(combos)]
                        if (v, f, iv) != (0, 0, 100):
                            cases.append({"k": 3, "ops": ops, "vals": v, "fmt": f, "iv": iv})
    for _ in range({"quick": 400, "thorough": 4000, "search": 50}[tier]):
        v, f, iv = rng.choice(combos)
        ops = [[rng.choice([0, 40, 99, 100, 101, 249, 250, 251, 600]), rng.choice(mops[:3])] for _ in range(rng.randint(3, 12))]
        cases.append({"k": 3, "ops": ops + [[rng.choice([0, 40]), rng.choice(mops[3:])]], "vals": v, "fmt": f, "iv": iv})
    info["exhaustive"] = True
    info["distribution"] = {"bodies": len(BODIES), "coarse_exhaustive_schedules": n_ex, "coarse_random_schedules": nrand,
                            "fine_bounded_preemption_schedules": n_fine, "fine_random_schedules": n_frand,
                            "manual_sequences": len(cases) - n1, "max_schedule_len_exhaustive_coarse": depth,
                            "value_lists": [len(v or DEFAULT_VALUES) for v in VALUES], "formats": [f or DEFAULT_FORMAT for f in FORMATS],
                            "intervals": INTERVALS}
    return cases


def _acts(body):
    acts = []
    for a in body:
        acts.append([0, S(a[1])] if a[0] == "set" else ([1, a[1]] if a[0] == "work" else [2]))
    return acts


def _wire_pieces(pieces):
    return [[0, S(p[1])] if p[0] == 0 else [p[0]] for p in pieces]


def _wire_ops(c):
    ops = []
    for dt, o in c["ops"]:
        ops.append([dt, [0] if o[0] == 0 else ([1, S(o[1])] if o[0] == 1 else [2, S(o[1]), o[2]])])
    return ops


def wire(c):
    if c["k"] == 0:
        return [0, T0, 100, S("start"), S("Done"), _acts(BODIES[c["body"]]), c["sched"]]
    if c["k"] == 1:
        return [1, T0, 100, S("start"), _wire_ops(c)]
    vals, pieces, iv = _cfg(c)
    if c["k"] == 2:
        return [2, [ord(v) for v in vals], _wire_pieces(pieces), iv, 100, T0, S("start"), S("Done"), _acts(BODIES[c["body"]]), c["sched"]]
    return [3, [ord(v) for v in vals], _wire_pieces(pieces), iv, T0, S("start"), _wire_ops(c)]


def describe(c):
    if c["k"] in (0, 2):
        vals, pieces, iv = _cfg(c)
        return "ProgressIndicator(values=%r, fmt=%r, interval=%d).auto('start','Done') body=%r %s schedule=%s (1 = spinner thread runs, 0 = caller)" % (
            vals, FORMATS[c.get("fmt", 0)] or DEFAULT_FORMAT, iv, BODIES[c["body"]],
            "FINE (every access to shared state is a scheduling point)" if c["k"] == 2 else "coarse", "".join(map(str, c["sched"])))
    vals, pieces, iv = _cfg(c)
    return "manual (values=%r, fmt=%r, interval=%d): start('start'); " % (vals, FORMATS[c.get("fmt", 0)] or DEFAULT_FORMAT, iv) + \
        "; ".join("+%dms %s" % (dt, o) for dt, o in c["ops"])


PREFIX = "\r\x1b[2K"


def _dec(data):
    if data.startswith(PREFIX):
        return [S(data[len(PREFIX):])]
    if data == "\n":
        return []
    return [S("?" + data)]


def run_impl(c):
    if c["k"] in (0, 2):
        import sched
        fine = c["k"] == 2
        r = sched.run_auto(T0, c.get("iv", 100), "start", "Done", [tuple(a) for a in BODIES[c["body"]]], [bool(x) for x in c["sched"]],
                           fine=fine, values=VALUES[c.get("vals", 0)], fmt=FORMATS[c.get("fmt", 0)])
        writes = [[1 if who == "S" else 0, _dec(d)] for who, d in r["log"]]
        t = termemu.Term(200)
        t.feed("".join(d for _, d in r["log"]))
        events = [[who, kind, arg if isinstance(arg, (str, int, type(None))) else str(arg), val if isinstance(val, (str, int, bool, type(None))) else str(val)]
                  for who, kind, arg, val in r["events"]]
        return [writes, int(r["done"]), int(r["stop"]), [[S(x) for x in t.screen()], t.r, t.c], len(r["skips"]), r["errors"], r["alive"], r.get("raised"),
                events, [list(x) for x in r["skips"]]]
    import time
    from fractions import Fraction
    import clikit.ui.components.progress_indicator as pi
    from clikit.io import BufferedIO
    from clikit.formatter import AnsiFormatter
    now = [T0]

    class TimeShim(object):
        @staticmethod
        def time():
            return Fraction(now[0], 1000)
        sleep = staticmethod(lambda d: None)
    old = pi.time
    pi.time = TimeShim
    try:
        io = BufferedIO(formatter=AnsiFormatter(forced=True))
        ind = pi.ProgressIndicator(io, FORMATS[c.get("fmt", 0)], c.get("iv", 100), VALUES[c.get("vals", 0)])
        failed = None
        try:
            ind.start("start")
            for dt, o in c["ops"]:
                now[0] += dt
                if o[0] == 0:
                    ind.advance()
                elif o[0] == 1:
                    ind.set_message(o[1])
                else:
                    ind.finish(o[1], bool(o[2]))
        except Exception as e:
            failed = type(e).__name__
        data = io.fetch_error()
    finally:
        pi.time = old
    frames = []
    for part in data.split("\r")[1:]:
        body = part[len("\x1b[2K"):]
        if body.endswith("\n"):
            frames.append([S(body[:-1])])
            frames.append([])
        else:
            frames.append([S(body)])
    if failed:
        frames.append([S("!raised " + failed)])
    return [frames, data, failed]


def canon_impl(c, o):
    if c["k"] == 0:
        return o[:4]
    if c["k"] == 2:
        return o[:5]
    return [o[0]]


def _check_frames_against_fields(c, events, vals, pieces):
    """Every frame a thread writes is made of the field values THAT thread read for it: the indicator value at the position it read from
    _current and the message it read from _message, both read since the thread's previous frame / sleep (nothing kept from an earlier
    round); a frame of the caller shows the message that is current when it is written (the caller is the only one who sets it)."""
    cur_msg = None
    last = {}        # thread -> {"msg": (value, index), "cur": (value, index), "mark": index of its previous write / sleep}
    for i, (who, kind, arg, val) in enumerate(events):
        st = last.setdefault(who, {"msg": None, "cur": None, "mark": -1})
        if kind == "wr" and arg == "_message":
            cur_msg = val
        elif kind == "rd" and arg == "_message":
            st["msg"] = (val, i)
        elif kind == "rd" and arg == "_current":
            st["cur"] = (val, i)
        elif kind == "sleep":
            st["mark"] = i
        elif kind == "write":
            if arg != "\n":
                if not arg.startswith(PREFIX) or st["msg"] is None or st["cur"] is None:
                    return "write-is-not-a-whole-frame"
                frame = arg[len(PREFIX):]
                if st["msg"][1] < st["mark"] or st["cur"][1] < st["mark"]:
                    return "frame-shows-a-field-value-kept-from-an-earlier-round"
                if frame != _fill(pieces, vals[st["cur"][0] % len(vals)], st["msg"][0]):
                    return "frame-is-not-made-of-the-indicator-value-and-message-read"
                if who == "M" and st["msg"][0] != cur_msg:
                    return "caller-frame-does-not-show-the-current-message"
            st["mark"] = i
    return None


def oracle(c, o):
    if c["k"] in (0, 2):
        writes, done, stop, (screen, r, col), nskips, errors, alive, raised, events, skips = o
        vals, pieces, iv = _cfg(c)
        if errors:
            return ("scheduler-failed:" if errors[0][0] == "scheduler" else "thread-failed:") + errors[0][1][:40]
        # leaving the automatic mode always stops and joins the spinner
        if not done or alive:
            return "spinner-not-stopped-and-joined"
        if not stop:
            return "stop-event-not-set"
        body = BODIES[c["body"]]
        msgs = ["start", "Done"] + [a[1] for a in body if a[0] == "set"]
        ok_frames = set(_fill(pieces, ch, m) for ch in vals for m in msgs)
        lines = [unS(x) for x in screen]
        for ln in lines:
            if ln != "" and ln not in ok_frames:
                return "terminal-line-shows-a-mixture"
        for who, w in writes:
            if w and unS(w[0]) not in ok_frames:
                return "write-is-not-a-whole-frame"
        rr = _check_frames_against_fields(c, events, vals, pieces)
        if rr:
            return rr
        raises = any(a[0] == "raise" for a in body)
        if bool(raised) != raises:
            return "exception-not-propagated"
        if not raises:
            frames = [unS(w[0]) for _, w in writes if w]
            if not frames or frames[-1] != _fill(pieces, vals[0], "Done") or writes[-1][1] != []:
                return "end-message-is-not-the-last-frame"
        return None
    vals, pieces, iv = _cfg(c)
    if o[2]:
        return "manual-call-raised:" + o[2]
    frames = [unS(f[0]) if f else None for f in o[0]]
    # every frame: an indicator value followed by the current message; redraws by advance() no closer than the interval
    msg, now, i = "start", T0, 1
    upd = T0 + iv

    def ok(fr, m):
        return fr is not None and any(fr == _fill(pieces, ch, m) for ch in vals)
    if not frames or frames[0] != _fill(pieces, vals[0], "start"):
        return "first-frame"
    for dt, op in c["ops"]:
        now += dt
        if op[0] == 0:
            if now >= upd:
                if i >= len(frames) or not ok(frames[i], msg):
                    return "advance-frame-malformed"
                i += 1
                upd = now + iv
        elif op[0] == 1:
            msg = op[1]
            if i >= len(frames) or not ok(frames[i], msg):
                return "set_message-frame"
            i += 1
        else:
            msg = op[1]
            if i + 1 >= len(frames) or not ok(frames[i], msg) or frames[i + 1] is not None:
                return "finish-frame"
            if op[2] and frames[i] != _fill(pieces, vals[0], msg):
                return "finish-did-not-reset-the-indicator"
            i += 2
    if i != len(frames):
        return "redraw-more-often-than-the-interval"
    return None


def nontrivial_key(c, o):
    if c["k"] in (0, 2):
        who = set(w[0] for w in o[0])
        if len(who) == 2:
            # distinct by what was written by whom, not by the schedule that led to it
            return [c["k"], c["body"], c.get("vals", 0), c.get("fmt", 0), c.get("iv", 100), o[0]]
        return None
    return [c["k"], c["ops"], c.get("vals", 0), c.get("fmt", 0), c.get("iv", 100)]


def shrink(c):
    if c["k"] in (0, 2):
        sc = c["sched"]
        for i in range(len(sc)):
            yield dict(c, sched=sc[:i] + sc[i + 1:])
        if sc:
            yield dict(c, sched=sc[:-1])
    else:
        ops = c["ops"]
        for i in range(len(ops) - 1):
            yield dict(c, ops=ops[:i] + ops[i + 1:])
