"""C19 - the automatic progress indicator is well-behaved under every interleaving."""
import itertools
from hutil import S, unS
import termemu

MODEL = "C19"
PROP_FILES = ["Props/C19.v"]
CASE_TIMEOUT = 30
RULE = ("automatic mode: every schedule (which thread runs next) of length <= 6 (quick) / 8 (thorough) at the granularity of stream "
        "writes, sleeps, thread start and join, for 9 bodies (set_message while spinning, work, raising at different points), then "
        "random schedules up to length 40 - the two real threads of the implementation are driven by a deterministic scheduler on a "
        "virtual clock; manual mode: call sequences of advance / set_message / finish with clock steps {0,40,100,250} ms; "
        "non-trivial = a schedule in which both threads write; distinct by (body, schedule)")
TRUSTED = ["harness/sched.py: the scheduler that serialises the implementation's two threads at stream writes, time.sleep, Thread.start and "
           "Thread.join (patched inside clikit.ui.components.progress_indicator only); preemption inside a single stream write or between "
           "Python bytecodes is not explored"]
ASSUMPTIONS = ["ANSI output at normal verbosity (format ' {indicator} {message}'); the clock moves only in time.sleep"]

BODIES = [
    [], [["set", "m1"]], [["work", 150]], [["set", "m1"], ["work", 150], ["set", "m2"]], [["raise"]], [["set", "m1"], ["raise"]],
    [["work", 250], ["raise"]], [["work", 120], ["set", "longer message"], ["work", 120]], [["set", "a"], ["set", "b"], ["set", "c"]],
]
T0 = 5000000


def gen(rng, tier, info):
    depth = {"quick": 6, "thorough": 8, "search": 4}[tier]
    nrand = {"quick": 300, "thorough": 3000, "search": 100}[tier]
    cases = []
    for bi in range(len(BODIES)):
        for k in range(0, depth + 1):
            for sch in itertools.product((0, 1), repeat=k):
                cases.append({"k": 0, "body": bi, "sched": list(sch)})
    n_ex = len(cases)
    for _ in range(nrand):
        cases.append({"k": 0, "body": rng.randrange(len(BODIES)), "sched": [1 if rng.random() < 0.6 else 0 for _ in range(rng.randint(depth + 1, 40))]})
    mops = [[0], [1, "x"], [1, "yy"], [2, "done", 1], [2, "done", 0]]
    for k in range(1, {"quick": 4, "thorough": 5, "search": 3}[tier] + 1):
        for seq in itertools.product(range(3), repeat=k):
            for dts in itertools.product((0, 40, 100, 250), repeat=min(k, 2)):
                d = list(dts) + [100] * (k - len(dts))
                for fin in (3, 4):
                    cases.append({"k": 1, "ops": [[dt, mops[i]] for dt, i in zip(d, seq)] + [[40, mops[fin]]]})
    info["exhaustive"] = True
    info["distribution"] = {"bodies": len(BODIES), "exhaustive_schedules": n_ex, "random_schedules": nrand,
                            "manual_sequences": len(cases) - n_ex - nrand, "max_schedule_len_exhaustive": depth}
    return cases


def wire(c):
    if c["k"] == 0:
        acts = []
        for a in BODIES[c["body"]]:
            acts.append([0, S(a[1])] if a[0] == "set" else ([1, a[1]] if a[0] == "work" else [2]))
        return [0, T0, 100, S("start"), S("Done"), acts, c["sched"]]
    ops = []
    for dt, o in c["ops"]:
        ops.append([dt, [0] if o[0] == 0 else ([1, S(o[1])] if o[0] == 1 else [2, S(o[1]), o[2]])])
    return [1, T0, 100, S("start"), ops]


def describe(c):
    if c["k"] == 0:
        return "auto('start','Done') body=%r schedule=%s (1 = spinner thread runs, 0 = caller)" % (BODIES[c["body"]], "".join(map(str, c["sched"])))
    return "manual: start('start'); " + "; ".join("+%dms %s" % (dt, o) for dt, o in c["ops"])


PREFIX = "\r\x1b[2K"


def _dec(data):
    if data.startswith(PREFIX):
        return [S(data[len(PREFIX):])]
    if data == "\n":
        return []
    return [S("?" + data)]


def run_impl(c):
    if c["k"] == 0:
        import sched
        r = sched.run_auto(T0, 100, "start", "Done", [tuple(a) for a in BODIES[c["body"]]], [bool(x) for x in c["sched"]])
        writes = [[1 if who == "S" else 0, _dec(d)] for who, d in r["log"]]
        t = termemu.Term(200)
        t.feed("".join(d for _, d in r["log"]))
        return [writes, int(r["done"]), int(r["stop"]), [[S(x) for x in t.screen()], t.r, t.c], r["errors"], r["alive"], r.get("raised")]
    import time
    from fractions import Fraction
    import clikit.ui.components.progress_indicator as pi
    from clikit.io import BufferedIO
    from clikit.formatter import AnsiFormatter
    now = [T0]

    class TimeShim(object):
        @staticmethod
        def time():
            return Fraction(now[0], 1000)
        sleep = staticmethod(lambda d: None)
    old = pi.time
    pi.time = TimeShim
    try:
        io = BufferedIO(formatter=AnsiFormatter(forced=True))
        ind = pi.ProgressIndicator(io, None, 100)
        ind.start("start")
        for dt, o in c["ops"]:
            now[0] += dt
            if o[0] == 0:
                ind.advance()
            elif o[0] == 1:
                ind.set_message(o[1])
            else:
                ind.finish(o[1], bool(o[2]))
        data = io.fetch_error()
    finally:
        pi.time = old
    frames = []
    for part in data.split("\r")[1:]:
        body = part[len("\x1b[2K"):]
        if body.endswith("\n"):
            frames.append([S(body[:-1])])
            frames.append([])
        else:
            frames.append([S(body)])
    return [frames, data]


def canon_impl(c, o):
    if c["k"] == 0:
        return o[:4]
    return [o[0]]


def oracle(c, o):
    if c["k"] == 0:
        writes, done, stop, (screen, r, col), errors, alive, raised = o
        if errors:
            return "thread-failed:" + errors[0][1][:40]
        if not done or alive:
            return "spinner-not-stopped-and-joined"
        if not stop:
            return "stop-event-not-set"
        body = BODIES[c["body"]]
        msgs = ["start", "Done"] + [a[1] for a in body if a[0] == "set"]
        ok_frames = set(" %s %s" % (ch, m) for ch in "-\\|/" for m in msgs)
        lines = [unS(x) for x in screen]
        for ln in lines:
            if ln != "" and ln not in ok_frames:
                return "terminal-line-shows-a-mixture"
        for who, w in writes:
            if w and unS(w[0]) not in ok_frames:
                return "write-is-not-a-whole-frame"
        raises = any(a[0] == "raise" for a in body)
        if bool(raised) != raises:
            return "exception-not-propagated"
        if not raises:
            frames = [unS(w[0]) for _, w in writes if w]
            if not frames or frames[-1] != " - Done" or writes[-1][1] != []:
                return "end-message-is-not-the-last-frame"
        return None
    frames = [unS(f[0]) if f else None for f in o[0]]
    # every frame: an indicator value followed by the current message; redraws by advance() no closer than the interval
    msg, now, last_adv_draw, i = "start", T0, None, 1
    upd = T0 + 100
    if not frames or frames[0] != " - start":
        return "first-frame"
    for dt, op in c["ops"]:
        now += dt
        if op[0] == 0:
            if now >= upd:
                if i >= len(frames) or frames[i] is None or frames[i][3:] != msg or frames[i][1] not in "-\\|/":
                    return "advance-frame-malformed"
                i += 1
                upd = now + 100
        elif op[0] == 1:
            msg = op[1]
            if i >= len(frames) or frames[i] is None or frames[i][3:] != msg:
                return "set_message-frame"
            i += 1
        else:
            msg = op[1]
            if i + 1 >= len(frames) or frames[i] is None or frames[i][3:] != msg or frames[i + 1] is not None:
                return "finish-frame"
            i += 2
    if i != len(frames):
        return "redraw-more-often-than-the-interval"
    return None


def nontrivial_key(c, o):
    if c["k"] == 0:
        who = set(w[0] for w in o[0])
        if len(who) == 2:
            return [c["body"], c["sched"]]
        return None
    return c["ops"]
