"""C03 - the resolver selects the deepest command named by the leading tokens."""
import itertools, random
from hutil import S, unS, err, exc_code, canon_floats, canon_floats_w
import parsergen as G
import treegen as T

MODEL = "C03"
PROP_FILES = ["Props/C03.v"]
RULE = ("seeded command trees (depth <= 2 quick / 3 thorough, fan-out <= 3, aliases, default / anonymous / hidden / disabled / lenient "
        "commands, 0-2 options and arguments per command, some with colliding sibling aliases) x all lines of <= 3 tokens over the "
        "tree's names and aliases + a wrong name, '-v', a known and an unknown option, '--', '' and a value, + random lines of 4-6 "
        "tokens; non-trivial = a line whose path has >= 1 matched name; distinct by (tree, line)")
TRUSTED = ["parsability of default sub-commands (first parsable, else first) is observed on the real commands for the oracle"]
ASSUMPTIONS = ["sibling names/aliases pairwise distinct for the oracle's deepest-path clause (the code does not enforce it; trees "
               "violating it are still compared model vs implementation)"]
EXTRA = ["zz"]


def gen(rng, tier, info):
    ntrees = {"quick": 40, "thorough": 200, "search": 15}[tier]
    maxdepth = {"quick": 2, "thorough": 3, "search": 2}[tier]
    nrand = {"quick": 400, "thorough": 1500, "search": 200}[tier]
    cases = []
    shapes = {"distinct": 0, "colliding": 0}
    for ti in range(ntrees):
        distinct = (ti % 8 != 7)
        t = T.rand_tree(rng, maxdepth, distinct)
        shapes["distinct" if T.siblings_distinct(t["cmds"]) else "colliding"] += 1
        names, opts = T.tree_tokens(t)
        al = names[:7] + ["zz", "-v", "--", "", "val", "--zz", "-a", "--ls"]
        if opts:
            o = opts[0]
            al.append("--" + o["long"] + ("=5" if not (o["flags"] & G.NO_VALUE or o["flags"] & 60 == 0) else ""))
        for k in range(0, 4):
            for seq in itertools.product(al, repeat=k):
                cases.append({"tree": t, "toks": list(seq)})
        for _ in range(nrand):
            cases.append({"tree": t, "toks": [rng.choice(al) for _ in range(rng.randint(4, 6))]})
    info["exhaustive"] = True
    info["distribution"] = {"trees": ntrees, "max_depth": maxdepth, "tree_shapes": shapes, "cases": len(cases)}
    return cases


def wire(c):
    return [T.wire_app(c["tree"]), [S(t) for t in c["toks"]], [S(x) for x in EXTRA]]


def describe(c):
    def d(x, ind=0):
        flags = "".join(f for f, k in (("D", "default"), ("A", "anonymous"), ("h", "hidden"), ("L", "lenient")) if x[k]) + ("" if x["enabled"] else "X")
        s = "  " * ind + "%s%s%s opts=%s args=%s" % (x["name"], x["aliases"] or "", ("[" + flags + "]") if flags else "",
                                                   [o["long"] for o in x["opts"]], [a["name"] for a in x["args"]])
        return "\n".join([s] + [d(y, ind + 1) for y in x["subs"]])
    return "line=%r\n" % (c["toks"],) + "\n".join(d(x) for x in c["tree"]["cmds"])


_APPS = {}


def _app(t):
    import json
    k = json.dumps(t, sort_keys=True)
    if k not in _APPS:
        try:
            _APPS[k] = (T.mk_app(t), None)
        except Exception as e:
            _APPS[k] = (None, e)
    return _APPS[k]


def _resolve(app, toks):
    from clikit.args import ArgvArgs
    rc = app.resolve_command(ArgvArgs(["script"] + list(toks)))
    return rc


def run_impl(c):
    app, e = _app(c["tree"])
    if app is None:
        return [[-3, exc_code(e)], None]
    from clikit.args import ArgvArgs
    toks = c["toks"]
    try:
        rc = _resolve(app, toks)
        path = rc.command.full_name.split(" ")
        out = [0, [[S(p) for p in path], G.observe_args(rc.command.args_format, rc.args, EXTRA)]]
    except Exception as ex:
        return [err(ex), None]
    # facts for the oracle: parsability of the default sub-commands of the parent of the selected command,
    # and the selection for metamorphic variants of the line
    def sel(tk):
        try:
            return _resolve(app, tk).command.full_name.split(" ")
        except Exception as ex:
            return ["!%d" % exc_code(ex)]
    facts = {}
    raw = ArgvArgs(["script"] + list(toks))
    node = rc.command.parent_command
    defaults = list(node.default_sub_commands) if node is not None else list(app.default_commands)
    pars = []
    for d in defaults:
        try:
            d.parse(raw)
            pars.append([d.name, 1])
        except Exception as ex:
            pars.append([d.name, 0 if type(ex).__name__ == "CannotParseArgsException" else 2])
    facts["defaults_of_parent"] = pars
    # tail variant: everything after the first "--" replaced
    if "--" in toks:
        i = toks.index("--")
        facts["tail_variant"] = sel(toks[:i + 1] + ["server", "-x", "zz"])
    lead = []
    for tk in toks:
        if tk == "" or tk == "--" or tk.startswith("-"):
            break
        lead.append(tk)
    # metamorphic variants: a global flag inserted right after the named path; the first path token
    # replaced by each other spelling (name / alias) of the same top-level command
    npath = len(path)
    k = 0
    cmds = c["tree"]["cmds"]
    for tk in lead:
        nxt = [x for x in cmds if x["enabled"] and not x["anonymous"] and (tk == x["name"] or tk in x["aliases"])]
        if not nxt:
            break
        k += 1
        cmds = nxt[0]["subs"]
    facts["named"] = k
    facts["with_option_after_path"] = sel(toks[:k] + ["-v", "-a"] + toks[k:])
    alts = []
    if k >= 1:
        top = [x for x in c["tree"]["cmds"] if x["enabled"] and not x["anonymous"] and (toks[0] == x["name"] or toks[0] in x["aliases"])]
        if top:
            for sp in [top[0]["name"]] + top[0]["aliases"]:
                if sp != toks[0]:
                    alts.append(sel([sp] + toks[1:]))
    facts["alias_variants"] = alts
    return [out, facts]


def canon_impl(c, o):
    return canon_floats(o[0])


def canon_model_w(c, w):
    return canon_floats_w(w)


def spec_path(tree, toks):
    """the property's reading, for trees with distinct sibling names: (named path, node) or None"""
    lead = []
    for tk in toks:
        if tk == "" or tk == "--" or tk.startswith("-"):
            break
        lead.append(tk)
    cmds = tree["cmds"]
    path, node = [], None
    for tk in lead:
        nxt = [c for c in cmds if c["enabled"] and not c["anonymous"] and (tk == c["name"] or tk in c["aliases"])]
        if not nxt:
            break
        node = nxt[0]
        path.append(node["name"])
        cmds = node["subs"]
    return lead, path, node


def oracle(c, o):
    r, facts = o
    tree = c["tree"]
    if r[0] == -3:
        return None      # the configuration itself is invalid (both sides agree on the error; not a resolve question)
    if not T.siblings_distinct(tree["cmds"]):
        return None
    lead, path, node = spec_path(tree, c["toks"])
    if lead and not path:
        if r != [-1, 7]:
            return "undefined-command-not-reported"
        return None
    if r[0] == -1:
        if r[1] not in (1, 2, 3, 7):
            return "unexpected-exception:%d" % r[1]
        if r[1] == 7 and path:
            return "named-command-not-found"
        return None
    got = [unS(p) for p in r[1][0]]
    subs = (node["subs"] if node else tree["cmds"])
    defaults = [s for s in subs if s["enabled"] and s["default"]]
    if not defaults:
        if got != path or not path:
            return "wrong-command-selected"
    else:
        if got[:-1] != path or got[-1] not in [d["name"] for d in defaults]:
            return "wrong-command-selected"
        # first parsable default, else the first
        pars = facts["defaults_of_parent"]
        firstp = next((n for n, p in pars if p == 1), None)
        exp = firstp if firstp is not None else (pars[0][0] if pars else None)
        if exp is not None and got[-1] != exp:
            return "wrong-default-sub-command"
    k = facts["named"]
    v = facts["with_option_after_path"]
    if not v[0].startswith("!") and v[:k] != got[:k]:
        return "option-after-path-changes-selection"
    for av in facts["alias_variants"]:
        if av != got:
            return "alias-changes-selection"
    if "tail_variant" in facts and facts["tail_variant"][:len(path)] != got[:len(path)] and not facts["tail_variant"][0].startswith("!"):
        return "tail-after-double-dash-changes-path"
    return None


def nontrivial_key(c, o):
    r = o[0]
    if r[0] == 0 and len(r[1][0]) >= 1 and c["toks"]:
        import json
        return [json.dumps(c["tree"], sort_keys=True), c["toks"]]
    return None


def shrink(c):
    t = c["toks"]
    for i in range(len(t)):
        yield {"tree": c["tree"], "toks": t[:i] + t[i + 1:]}
